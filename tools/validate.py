#!/usr/local/bin/python3-vt
import json, jsonschema, sys, os, glob
H = os.path.dirname(os.path.dirname(os.path.abspath(__file__)))
ok = True
try:
    jsonschema.validate(json.load(open(H + '/MANIFEST.json')), json.load(open('/root/.vp/MANIFEST.schema.json')))
except jsonschema.ValidationError as e:
    print('MANIFEST invalid:', e.message[:300]); ok = False
es = json.load(open('/root/.vp/EVIDENCE.schema.json'))
for f in sorted(glob.glob(H + '/evidence/*.json')):
    try:
        jsonschema.validate(json.load(open(f)), es)
    except jsonschema.ValidationError as e:
        print(f, 'invalid:', e.message[:300], list(e.path)); ok = False
print('valid' if ok else 'INVALID')
sys.exit(0 if ok else 1)
