#!/bin/bash
# usage: round7.sh <pid>...   confirm the round-7 mutants of each property in its worktree and import them as m11/m12 (properties not in round 5)
for pid in "$@"; do
  for k in 1 2; do
    [ -d /tmp/wt7-$pid/mutants/m$k ] && /verif/tools/confirm_seed.sh /tmp/wt7-$pid /tmp/wt7-$pid/mutants/m$k /tmp/confirm7-$pid-m$k.log
    tail -1 /tmp/confirm7-$pid-m$k.log
  done
  /verif/tools/seed_import.py $pid 7
done
