#!/bin/bash
# usage: round2.sh <pid>...   confirm the round-2 mutants of each property in its worktree, import them as m3/m4, remove the worktree
for pid in "$@"; do
  for k in 1 2; do
    [ -d /tmp/wt2-$pid/mutants/m$k ] && /verif/tools/confirm_seed.sh /tmp/wt2-$pid /tmp/wt2-$pid/mutants/m$k /tmp/confirm2-$pid-m$k.log
    tail -1 /tmp/confirm2-$pid-m$k.log
  done
  /verif/tools/seed_import.py $pid 2
done
