#!/bin/bash
# usage: confirm_seed.sh <worktree> <mutant dir> <out log>
# applies patch, rebuilds, runs the suite and the demo; reverts, rebuilds, runs the demo again.
WT="$1"; M="$2"; LOG="$3"
cd "$WT" || exit 9
{
git checkout -- include src 2>/dev/null
git apply --check "$M/patch.diff" || { echo "RESULT apply-failed"; exit 1; }
git apply "$M/patch.diff"
touch src/*.cpp; make -j4 2>&1 | tail -1
T=$(make test 2>&1 | tail -1); echo "TESTS: $T"
g++ -std=c++11 -O2 -I"$WT/include" "$M/demo.cpp" -L"$WT/lib" -lSQuIDS -lgsl -lgslcblas -lm -o /tmp/demo.$$ 2>&1 | tail -3
LD_LIBRARY_PATH="$WT/lib" timeout 300 /tmp/demo.$$ >/dev/null 2>&1; RM=$?
git checkout -- include src; touch src/*.cpp; make -j4 2>&1 | tail -1
g++ -std=c++11 -O2 -I"$WT/include" "$M/demo.cpp" -L"$WT/lib" -lSQuIDS -lgsl -lgslcblas -lm -o /tmp/demo.$$ 2>&1 | tail -3
LD_LIBRARY_PATH="$WT/lib" timeout 300 /tmp/demo.$$ >/dev/null 2>&1; RC=$?
rm -f /tmp/demo.$$; rm -rf test/Report.txt test/products
echo "RESULT tests=[$T] demo_mutant=$RM demo_clean=$RC"
} > "$LOG" 2>&1
