#!/usr/local/bin/python3-vt
"""seed_import.py <pid> [round] : copy confirmed mutants from /tmp/wt-<pid>/mutants/m<k> (round 2: /tmp/wt2-<pid>, stored as m3, m4) into /verif/seeded/<pid>-m<k>/ with meta.json"""
import sys, os, shutil, json, re
pid = sys.argv[1]
rnd = int(sys.argv[2]) if len(sys.argv) > 2 else 1
for k in (1, 2):
    src = {1: '/tmp/wt-%s/mutants/m%d', 2: '/tmp/wt2-%s/mutants/m%d', 3: '/tmp/wt3-%s/mutants/m%d', 4: '/tmp/wt4-%s/mutants/m%d', 5: '/tmp/wt5-%s/mutants/m%d', 6: '/tmp/wt6-%s/mutants/m%d', 7: '/tmp/wt7-%s/mutants/m%d'}[rnd] % (pid, k)
    log = {1: '/tmp/confirm-%s-m%d.log', 2: '/tmp/confirm2-%s-m%d.log', 3: '/tmp/confirm3-%s-m%d.log', 4: '/tmp/confirm4-%s-m%d.log', 5: '/tmp/confirm5-%s-m%d.log', 6: '/tmp/confirm6-%s-m%d.log', 7: '/tmp/confirm7-%s-m%d.log'}[rnd] % (pid, k)
    if not os.path.isdir(src) or not os.path.exists(log):
        print('missing', src, log); continue
    txt = open(log).read()
    m = re.search(r'RESULT tests=\[(.*?)\] demo_mutant=(\d+) demo_clean=(\d+)', txt)
    if not m or '24 passes, 0 failures' not in m.group(1) or m.group(2) == '0' or m.group(3) != '0':
        print('NOT CONFIRMED', pid, k, txt[-300:]); continue
    # round 6 covered the seven properties round 5 skipped, so its mutants continue at m9/m10
    dst = '/verif/seeded/%s-m%d' % (pid, k + 2 * (min(rnd, 5) - 1) + (2 if rnd == 7 else 0))
    os.makedirs(dst, exist_ok=True)
    for f in ('patch.diff', 'demo.cpp', 'notes.txt'):
        shutil.copy(os.path.join(src, f), dst)
    meta = {'property': pid, 'origin': 'independent sub-agent given only the property text and a scratch worktree (round %d)' % rnd,
            'needs_to_manifest': open(os.path.join(src, 'notes.txt')).read().strip(),
            'confirmed': {'how': 'tools/confirm_seed.sh in a scratch worktree: apply patch, forced rebuild, make test, build+run demo; revert, rebuild, run demo',
                          'tests_with_patch': m.group(1), 'demo_exit_with_patch': int(m.group(2)), 'demo_exit_clean': int(m.group(3))},
            'detected_by': None}
    json.dump(meta, open(os.path.join(dst, 'meta.json'), 'w'), indent=1)
    print('imported', dst)
