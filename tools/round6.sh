#!/bin/bash
# usage: round6.sh <pid>...   confirm the round-6 mutants of each property in its worktree and import them as m9/m10 (properties not in round 5)
for pid in "$@"; do
  for k in 1 2; do
    [ -d /tmp/wt6-$pid/mutants/m$k ] && /verif/tools/confirm_seed.sh /tmp/wt6-$pid /tmp/wt6-$pid/mutants/m$k /tmp/confirm6-$pid-m$k.log
    tail -1 /tmp/confirm6-$pid-m$k.log
  done
  /verif/tools/seed_import.py $pid 6
done
