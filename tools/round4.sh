#!/bin/bash
# usage: round3.sh <pid>...   confirm the round-4 mutants of each property in its worktree and import them as m7/m8
for pid in "$@"; do
  for k in 1 2; do
    [ -d /tmp/wt4-$pid/mutants/m$k ] && /verif/tools/confirm_seed.sh /tmp/wt4-$pid /tmp/wt4-$pid/mutants/m$k /tmp/confirm4-$pid-m$k.log
    tail -1 /tmp/confirm4-$pid-m$k.log
  done
  /verif/tools/seed_import.py $pid 4
done
