#!/bin/bash
# usage: round3.sh <pid>...   confirm the round-3 mutants of each property in its worktree and import them as m5/m6
for pid in "$@"; do
  for k in 1 2; do
    [ -d /tmp/wt3-$pid/mutants/m$k ] && /verif/tools/confirm_seed.sh /tmp/wt3-$pid /tmp/wt3-$pid/mutants/m$k /tmp/confirm3-$pid-m$k.log
    tail -1 /tmp/confirm3-$pid-m$k.log
  done
  /verif/tools/seed_import.py $pid 3
done
