#!/usr/local/bin/python3-vt
"""Regenerates /verif/MANIFEST.json from the table below (one place to keep claims and not_applicable in sync)."""
import json, os
HERE = os.path.dirname(os.path.dirname(os.path.abspath(__file__)))
props = [json.loads(l)['id'] for l in open(os.path.join(HERE, 'properties.jsonl'))]

TECH = 'bounded symbolic execution of clang-14 LLVM IR (own executor irsym) + z3 SMT verdicts; counterexamples replayed natively'
CHECKS = {
    'C01': dict(
        text='For every dimension 2..6 the real GetGSLMatrix / matrix-constructor / GetComponents / list-constructor / + - unary- scalar* '
             '+= -= *= /= Transpose Real Imag == code is executed symbolically from its LLVM IR with every component, matrix entry and '
             'scalar a solver variable; the vector<->matrix map is pinned against the generalised Gell-Mann definition (layout d*i+j, '
             'Tr l_a l_b = 2 delta_ab) and each operation is decided against the corresponding matrix operation by z3 (LRA/NRA on the '
             'normal-form residual, Float64 for exact Hermiticity, operator== decided over Float64 values (no arithmetic involved: +0 = -0 must hold, a bytewise comparison is refuted) with owning and viewing operands in all four combinations). The matrix constructor is also run on strided views (a d x d block of a larger matrix whose other entries are symbolic) and decided identical to the compact case; A/=s must be the single division a_k/s per component (term identity: a reciprocal-and-multiply is equal in exact reals only). Bounded: all inputs in the unit box for '
             'the toleranced identities (the maps are linear-homogeneous), exact reals instead of doubles. Compound assignment from expressions (A+=B*s, A-=s*B, A+=A*s, A-=s*A, A+=A+B, A-=A-B) and expressions assigned onto their own operand (A=A+B, A=B-A, A=-A, A=A*s) are decided component-wise with tolerance 0; a branch taken only for special argument values (e.g. s==1) is decided by a direct query under its branch condition.',
        note='Trusted: clang-14 -O1 IR as source semantics (diffed bit-for-bit against the g++ build on seeded inputs each run); GSL '
             'accessor shim harness/gsl_shim.c; exact-real arithmetic with a 1e-13 tolerance stands in for "up to rounding" '
             '(overflow/underflow/NaN outside the claim); z3 4/5 soundness.',
        design='§3 C01'),
    'C02': dict(
        text='iCommutator, ACommutator and the scalar product (operator* and SUTrace) are executed symbolically through the public API '
             'for d=2..6 with both operands fully symbolic; the results are compared with i(AB-BA), AB+BA, Tr(AB) built from the '
             'implementation\'s own (C01-pinned) vector->matrix map; the residual polynomials (normal form, exact rationals) are bounded '
             'by z3 (linear relaxation, then NRA witness queries); antisymmetry, symmetry, zero identity component, bilinearity and '
             'Tr(A i[A,B])=0 are decided on the kernels themselves; both commutators are also assigned into a vector viewing an operand\'s buffer, into a target with previous content and onto an operand, and must give the same polynomials. Any wrong structure constant, index or sign yields a rational '
             'counterexample that is replayed on the g++ build against numpy matrix algebra.',
        note='Trusted: as C01; tolerance 1e-13 on the unit box absorbs the rounding of the generated decimal literals; floating-point '
             'evaluation error of the (division-free, bilinear) kernels is not decided.',
        design='§3 C02'),
}
CHECKS['C13'] = dict(
    text='Projector, Identity, PosProjector, NegProjector and Generator are executed symbolically for d=2..6 with the index an '
         'unconstrained 32-bit solver variable; z3 decides, per path, that the represented matrix (through the C01-pinned map) is the '
         'documented 0/1 diagonal as a function of the index, that exactly the inadmissible indices throw, and that '
         'PosProjector(d,k)+NegProjector(d,d-k)=Identity for 0<k<d with k shared symbolically between two executions. The index space '
         'is finite, so the per-dimension verdict is exhaustive. Every factory is also run after a vector of the same dimension, filled with one symbolic value, was destroyed (its block may be handed back) and after the same factory ran in a neighbouring dimension: the result must not depend on either. A further history overwrites an earlier result of the same call in place before calling again (results must not share storage).',
    note='Trusted: clang-14 -O1 IR (every admissible call is also diffed interpreter-vs-native), GSL shim, z3. Dimensions outside 2..6 '
         'belong to C14.',
    design='§3 C13')
CHECKS['C17'] = dict(
    text='Set_xrange (linear, log, vector overload), Get_x and Get_i are executed symbolically on a real SQuIDS object for nx=2..17 '
         '(thorough 2..33) with a<b and x symbolic reals: grid shape (ends, monotone, equal spacing; log/exp as monotone inverse '
         'uninterpreted functions with listed lemma instances; (1+delta) rounding model for the linear end point), acceptance of user '
         'grids iff sorted and of the right size with exact storage, and Get_i bracketing on exact uniform grids and on arbitrary '
         'strictly increasing symbolic grids (i<=nx-2, x_i<=x<=x_{i+1}, throws iff outside). A log grid whose nodes are not exp of an affine function of log a, log b cannot be decided in the uninterpreted model and is confirmed or dismissed natively at node counts up to 200000 (end node within 8(1+|log a|+|log b|) ulp of b); the linear node formula must be the term a+(b-a)k/(nx-1) (monotone in doubles) or pass a native stress battery; the range test of Get_i is decided in the (1+delta) rounding model (end nodes never rejected, outer neighbours never accepted); lookup / re-grid / lookup: the second answer is decided by the new grid alone. The range test of Get_i is additionally decided over IEEE binary64 values (z3 floating-point theory, finite nodes and x, nx<=3): no x inside is rejected, no x outside accepted, subnormal and huge magnitudes included.',
    note='Trusted: clang-14 -O1 IR (interpreter-vs-native diff), std::string/operator new intrinsics, GSL shim for the Const members; '
         'exact reals stand in for doubles (the lookup only compares, so rounding enters through the grid values, which are symbolic).',
    design='§3 C17')
CHECKS['C03'] = dict(
    text='A.Evolve(H,t), PrepareEvolve(buf,t) and A.Evolve(buf) are executed symbolically for d=2..6 with A, the diagonal generators of '
         'H and the times symbolic; sin/cos calls become atoms keyed by their argument term and the solver identifies each argument '
         'with +-(E_j-E_k)t for a level pair (E from the C01-pinned map). With the instantiated lemmas (parity, circle, angle addition) '
         'z3 decides entry-wise conjugation exp(iHt)A exp(-iHt), preservation of scalar products, the group law t1 then t2 = t1+t2, '
         't=0 identity (folded), agreement of the two-step form, and of both forms when the result is assigned onto the evolved vector itself, on the normal-form residuals; if PrepareEvolve branches on its arguments, every special branch is decided by a direct query on a buffer that held arbitrary values before the call. Branches of Evolve taken only for special arguments (e.g. t==0) are decided path-wise against the generic formula; the compound forms B+=A.Evolve(H,t), B-=A.Evolve(H,t), B+=A.Evolve(buf), B-=A.Evolve(buf) and the forms A=guarantee<EqualSizes>(A.Evolve(..)) (a valid guarantee that promises nothing about aliasing) must give the documented result.',
    note='Trusted: as C01; sin/cos are uninterpreted atoms constrained only by the listed true lemmas (so the claim is for exact-real '
         'evaluation, large |t| argument rounding is outside); H restricted to the diagonal generators as the property states.',
    design='§3 C03')
CHECKS['C11'] = dict(
    text='The three PrepareEvolve overloads, LowPassFilter and AvgRampFilter are executed symbolically for d=2..6 with H (diagonal '
         'generators), times, scale, cutoff, ramp and incoming table entries symbolic. If/else diamonds are merged at their '
         'post-dominator, so one symbolic path covers all 2^15 flag patterns in dimension 6. z3 decides per pair: zero+flag iff '
         '|phase|>|scale| else equal to the unaveraged table; multiplier 1 / ramp / 0 and rejection iff |ramp|>|cutoff|; the interval '
         'table against the closed-form average (cross-multiplied, circle lemma on canonical atoms), its limit values for coincident '
         'levels, and that no executed division can have a zero divisor for finite inputs with t0<t1; the flag vector is decided from both prior contents (all false, all true).',
    note='Trusted: as C03; the closed form of the time average of cos/sin is a trusted calculus fact; the unaveraged table is the '
         'oracle for "as in the unaveraged table" and is tied to level pairs by solver queries.',
    design='§3 C11')
CHECKS['C06'] = dict(
    text='All 35 plane kernels Rotate(i,j,theta,delta) are executed symbolically (theta, delta, A symbolic; sin/cos of integer angle '
         'combinations rewritten by the addition formulas, circle lemma) and decided equal to R^dagger A R, with R unitary. RotateToB1 / '
         'RotateToB0 are decided compositionally for d=2..6: the logged sequence of plane rotations (stored angle/phase per pair, order) '
         'multiplied out equals Const::GetTransformationMatrix entry-wise, and B0 is the reversed, angle-negated sequence; end to end '
         'for small d. Rotate(U), UTransform(U), UDaggerTransform(U) are decided against U^dagger M U / U M U^dagger for a fully symbolic '
         'complex U, including after a previous call with the same matrix object or another dimension (thread-local scratch). The '
         'WeightedRotation sandwich is decided = Yd A Yd, both overloads compose the same logged primitive maps, and the call with the weight operator being the rotated vector itself equals the call with a separate copy (d<=2 quick, <=3 thorough, all angles symbolic); a native battery at special magnitudes (angles ~1e-9, next to pi/2) is reported separately. The parameter store '
         'is decided with unconstrained symbolic indices. The three matrix rotations are also run with U given as a strided view (a d x d block of a (d+2) x (d+2) matrix whose other entries hold a symbolic junk value).',
    note='Trusted: as C03; zgemm/containers from the reference shim; matrix entry points for d<=4 in the quick tier (d<=6 thorough); '
         'general (non-diagonal) Yd is outside the WeightedRotation clause.',
    design='§3 C06')
CHECKS['C14'] = dict(
    text='Every binary entry point (24 forms incl. all rvalue overloads, compound assignments with vectors and expressions, assignment to '
         'external storage, Evolve(op,t), Rotate(matrix)) is executed symbolically for all 20 ordered dimension pairs from externally '
         'backed operands over oversized buffers with an access monitor: the path must end in an exception, both operands must be '
         'bit-identical (object fields and buffer cells) and no load/store may fall outside the operands\' own d^2 doubles. All '
         'constructors/factories are run with dimension 1,7,8, every unsupported list length <=64, every unsupported matrix shape up to 8x8 and '
         'a symbolic factory index in 0..d*d+2; z3 decides that only admissible arguments are accepted; out-of-range cache indexing is caught '
         'by the object table; every entry point is run with separate operand buffers, with both operands viewing one user buffer, and with a first operand that changed dimension by move assignment; self-owned targets of rejected compound assignments keep their value. Candidates are replayed natively under ASan/UBSan. Scalar products of two expressions ((A+A)*(B+B), iCommutator(A,A)*iCommutator(B,B)) and of a vector with an expression are part of the catalogue.',
    note='Trusted: clang-14 -O1 IR; heap/object model of irsym (fresh 32-byte aligned blocks, thread-local cache initially empty); the '
         'window of unsupported arguments is the one stated in the property.',
    design='§3 C14')
CHECKS['C08'] = dict(
    text='Bounded operation histories over a pool of SU_vector objects are executed symbolically, one public operation per step, from '
         'every pre-state of two operands in {empty, self-owned, externally backed} x two dimensions plus a self-owned observer: all '
         '1-step operations (copy/move construction and assignment, = and += from every element-wise proxy with lvalue/rvalue operands, '
         'proxy construction, SetBackingStore, destruction, self-assignment), the consume-then-re-use family (2 steps) and a third '
         'observing operation (3 steps). After every step each live vector is compared (dimension, component terms, storage binding) '
         'with a reference model of value semantics, the ownership invariant (no block owned twice, owned storage is a live new[] block, '
         'user buffers unchanged and never owned) is checked on the raw objects, every memory access is checked by the object table, '
         'and at the end each vector is copied and compared through the public interface and everything is destroyed and the cache '
         'drained (double/invalid frees); every live vector satisfies the representation invariants (never owning and borrowing at once, size = dim^2, no storage without ownership or binding). Failing histories are replayed on an ASan/UBSan build against a concrete run of the model, with the same invariants read off the native objects.',
    note='Trusted: clang-14 -O1 IR; irsym heap model (quick: 32-byte aligned blocks; thorough: both residues mod 32 forked); the reference '
         'model vmodel.py encodes the documentation (moved-from vectors: only safety; consumed externally backed vectors: unspecified); '
         'histories longer than 3 operations and pools larger than 4 live vectors are outside the bound; quick tier samples the multi-step '
         'families with VERIF_SEED.',
    design='§3 C08')
CHECKS['C16'] = dict(
    text='For every operation of an allocating catalogue (constructors, factories, copy/move/proxy assignment incl. resize, temporary '
         'and aliasing paths, implicit proxy conversions in sub-expressions, Rotate, Real/Imag, GetComponents, matrix constructor and '
         'matrix rotation) from 25 pre-states, a fault-free symbolic run discovers the number N of operator new/new[] calls and the '
         'operation is re-executed N times with exactly the j-th call throwing std::bad_alloc (complete per operation). Decided on each '
         'path: the exception propagates (no terminate), every other vector is bit-identical (objects and user buffers), then (a) all '
         'vectors are destroyed and the cache drained and (b) the target is first re-assigned: no double/invalid free, no use of '
         'released or null storage, no leaked new[] block. Failing cases are replayed natively with a counting/failing global operator new. Because clang\'s IR can define what the source leaves undefined (measured: delete[] (nullptr - offset) is skipped by clang and executed by g++), a native g++/ASan battery runs the catalogue with every allocation index failing from two pre-states with objects built in 0xA5-filled storage; its findings are labelled as not solver-decided.',
    note='Trusted: clang-14 -O1 IR; irsym heap ledger; GSL allocations (malloc) never fail (the property speaks of std::bad_alloc); one '
         'failure per operation; dimensions (2,3) in the quick tier, four pairs in the thorough tier.',
    design='§3 C16', category='model_checking')
CHECKS['C15'] = dict(
    text='Histories of 1..3 public operations (a catalogue of ~190 operation instances: every constructor/factory with valid and invalid '
         'arguments, all assignment forms, arithmetic with every value category, implicit conversions, comparison, scalar product, '
         'rotations, views, conversions, printing, SetBackingStore, destruction, cache churn beyond its 32-entry capacity, including calls '
         'that end in a library exception) are executed symbolically from 25 pre-states; every load/store/memcpy is checked against the '
         'object table (bounds, lifetime, constness), every delete against the allocation ledger, nsw/nuw arithmetic, shifts, division, '
         'unreachable and llvm.assume incl. its "align" operand bundles (asserted, i.e. the alignment/size guarantees handed to the optimiser must hold; an alignment family sends plain new[] blocks through the cache before guarantee<AlignedStorage> is used) on the executed path; at the end everything is '
         'destroyed, the cache drained and the ledger must be empty. SQuIDS objects: construct/ini/re-ini/move/destroy histories with a '
         'full new/new[]/malloc ledger, including const queries on one and two objects (thread-local scratch). Failing histories are replayed on an ASan/UBSan build with a counting allocator. Pre-states with two dimensions of equal parity (2,4) (thorough also (3,5)) in which the resized target owns its block cover blocks recycled across dimensions; solver-object histories include a moved-from object that is initialised again (same and another configuration) and then used.',
    note='Trusted: clang-14 -O1 IR; irsym object/heap model; bound: histories <=3 operations (multi-step ones sampled by VERIF_SEED in the '
         'quick tier), dimensions (2,3) quick / three pairs thorough; arithmetic with empty-vector operands excluded (stated precondition '
         'size>=1); SQuIDS::Evolve excluded (GSL ODE driver has no IR); one logical thread.',
    design='§3 C15')
CHECKS['C09'] = dict(
    text='The expression-shape space {=,+=,-=,construct} x 21 operation/value-category forms (sum, difference, negation, scalar product, '
         'commutator, anticommutator, both evolution forms, element-wise product and a user functor) x target storage {empty, self-owned '
         'same/other size, external same/other size} x operand storage x alias {none, v=a, v=b, v and a distinct objects over one user '
         'buffer, a=b} x every true guarantee<> flag subset is enumerated (1728 shapes per dimension); each statement is executed '
         'symbolically with all components, the scalar and the evolution table symbolic, and compared (normal-form polynomials, raw '
         'object state, user buffers) with the twin: the same operation evaluated by the real kernels into a fresh temporary from fresh '
         'non-aliased operands, then applied component-wise. Illegal shapes must throw with the target unchanged; documented '
         'no-allocation shapes must not call operator new[]. A symbolic scalar means special-value branches (e.g. c==0, c==1) are explored; the representation invariants of C08 hold after every statement.',
    note='Trusted: clang-14 -O1 IR; irsym heap model; twin = the library\'s own kernels (their content is C02/C03); quick tier: all shapes '
         'for d=2, seeded samples for d=3..6; thorough: all shapes for d=2..6; rvalue operands are distinct objects from the target.',
    design='§3 C09')
CHECKS['C05'] = dict(
    text='A real SQuIDS object (subclass whose H0(x,irho) is a diagonal operator with uninterpreted-function entries) is executed '
         'symbolically with a symbolic strictly increasing grid installed through Set_xrange, symbolic states, operator, t, t_ini and x. '
         'GetExpectationValue (both overloads), the four GetExpectationValueD overloads and GetIntermediateState are decided, path by path '
         'over the lower_bound search, equal to the reference written with the public vector API on the same symbolic arguments (node '
         'state, H0 at x[ix] resp. at x itself, t-t_ini, weights (x-x_i)/(x_{i+1}-x_i)), for every interval, at every node (tie '
         'behaviour), after a previous query on an object of another dimension (thread-local buffer), and with the averaging overloads '
         'under an unreachable scale (flags all false); ok-paths are decided infeasible for x outside the range and throw-paths for x inside. The node-indexed form is also asked of a solver object that received the configured problem by move assignment (into an object initialised with another t_ini and shape) or by move construction: t - t_ini, grid and states must travel with the object.',
    note='Trusted: clang-14 -O1 IR; virtual dispatch executed from the vtable in the IR; both sides use the library kernels (decided in '
         'C02/C03/C11), so the subject is the glue; quick: (d,nx,nrho) in 7 configurations up to d=6, nx=4; thorough: d=2..6 x nx=2..5.',
    design='§3 C05')
CHECKS['C04'] = dict(
    text='PARTIAL (callback contract and bookkeeping; the integrator-accuracy clause is outside the technique). A SQuIDS subclass whose five '
         'terms and PreDerive are uninterpreted functions of (node, index, time, component) is executed symbolically through ini, the '
         'Set_*Terms setters (all 32 settings; single switches in all 5 setter orders), Evolve, RHS, set_system_pointers and Derive under '
         'a nondeterministic, contract-respecting stub of the GSL odeiv2 driver (scripts of <=3 callbacks per integration with input in '
         '{y, scratch1, scratch2} and output in {deriv1, deriv2}, two consecutive Evolve calls, adaptive and fixed entry points, success '
         'and failure status). For every callback z3 decides on the normal-form residual that the output buffer equals '
         'i[rho,HI] - {Gamma,rho} + I_rho and -Gamma_s s + I_s per node/matrix/scalar built from the INPUT buffer with the arguments (node, '
         'index, stepper time); every output entry is written, nothing else of the driver\'s buffers is, PreDerive(tau) precedes the terms, '
         'exactly the enabled terms are called once, the callback parameter is the evolving object, enabled terms imply an integration, '
         'the clock advances by dt, views are re-aliased to the stored state, a failing status becomes std::runtime_error; the driver is created with the user\'s step size and tolerances in GSL\'s argument order (hstart, epsabs, epsrel; hmin; hmax); from every switch state each setter called last with each value leaves Evolve integrating iff a term is enabled (320 cases).',
    note='Trusted: clang-14 -O1 IR; GSL driver stub, whose contract (inputs are the state array or driver-owned scratch, outputs driver-owned and distinct, times inside the interval) is validated against the real driver on every run (6 steppers x adaptive/fixed); OUTSIDE: "agrees with closed-form solutions to the requested tolerance for every stepper" -- GSL is compiled code '
         'without IR; that clause is only exercised natively (every stepper, adaptive and fixed, against scipy) on one configuration per run '
         'and in the replay of candidates.',
    design='§3 C04, §4')
CHECKS['C10'] = dict(
    text='PARTIAL (bookkeeping clauses; "equals a single Evolve within tolerance" is outside the technique). Histories of up to 4 operations over '
         '{Evolve(dt), Evolve(0), toggle switches, all terms off, adaptive<->fixed, move-construct, move-assign, re-initialise} are executed '
         'symbolically on real SQuIDS objects under the GSL stub, half of them with an allocator that re-issues freed addresses: Get_t() = '
         't_ini + sum dt as a polynomial identity (fixed stepping: t + n*(dt/n)); with all terms off the stored state is term-identical and '
         'PreDerive(t_new) is called exactly once on the evolving object; after every Evolve each in-step view is the stored state at its '
         'documented offset; after a move the ODE callbacks are bound to the new object and read the buffer handed to them; re-ini starts a '
         'fresh clock; after every operation (moves included) the object in use reports the initial time it was given and the accumulated clock; a switch toggle is a single setter call. A stale in-step view found under the stub is confirmed natively by calling the library\'s ODE callback the way rk4 / msadams do (new input array, output array of the previous call).',
    note='Trusted: as C04. OUTSIDE: equality of the integrated state with a single Evolve over the total interval (GSL integrators); '
         'exercised natively only (split vs single interval in the C04 replay).',
    design='§3 C10, §4')
CHECKS['C19'] = dict(
    text='squids::detail::cache<long,N> is instantiated from the real header in both configurations, compiled to LLVM IR, and translated '
         '(irsym/ir2c.py) to pointer-free C: private stack objects become locals, the shared cache object becomes scalar words, the 8-byte '
         'libatomic calls become atomic sections. CBMC (SAT, partial-order encoding of sequentially consistent threads) then decides, for '
         'every interleaving of up to 3 concurrent operations (2 threads x 1, 3 threads x 1 and 2 threads x (2+1), all insert/fetch patterns) after 0..N '
         'sequential inserts: fetches return only successfully inserted blocks, no block is returned twice, a fetched block is not also '
         'left in the cache, draining at quiescence yields exactly inserted minus fetched; compare-exchange loops are unwound with '
         '--unwinding-assertions and every harness ends in an assert(0) reachability witness that must fail; the cache object starts with nondeterministic content (the constructor must establish everything the operations rely on). Single owner (both configurations): every operation sequence of length 2N+2 behaves as a bounded LIFO. '
         'Counterexamples are confirmed on the REAL template by a schedule explorer that makes every compare-exchange a scheduling point.',
    note='Trusted: clang-14 -O1 IR; the IR->C translator (validated each run against the real template on 4000 random single-thread '
         'operations per capacity/configuration); CBMC 6.11; sequential consistency; no spurious CAS failures. Bound: quick tier capacity 1 (all scenarios), 2 (all 2x1 scenarios + seeded 3-operation scenarios), 3 (2x1 scenarios); thorough capacity 1..4; 4+ concurrent operations are outside. A scenario on which CBMC does not finish within its cap is listed as NOT-EXPLORED in the output and evidence and claims nothing.',
    design='§3 C19, §2.3', engine='ir2c+cbmc',
    technique='IR -> flat-memory C translation + CBMC bounded model checking of all interleavings (SAT); counterexamples confirmed on the real template by schedule exploration')
CHECKS['C07'] = dict(
    text='PARTIAL (the accuracy-for-every-matrix clause is outside the technique). Decided: (1) pade3/5/7/9/13 executed symbolically on a '
         'symbolic complex number with the even powers formed as in the library: U+V = p_m(A) and V-U = p_m(-A) with the [m/m] Pade '
         'coefficients of exp, as exact polynomial identities (any wrong or unused table entry, wrong power or sign is a counterexample); '
         '(2) the argument validation of the norm estimator characterised by z3 over symbolic (t, itmax) and a symbolic matrix, the IR '
         'call sites checked to pass (2,5), hence whether matrix_exponential can throw for n=2..6; (3) dispatch with all 2n^2 entries '
         'symbolic: the diagonal shortcut is taken iff the matrix is diagonal and returns diag(exp a_ii), every other input reaches the '
         'estimator; (4) UTransform(V,scale): the matrix handed to the exponential is scale*S2M(V) and the result is E^dagger M E for the '
         '(summarised, arbitrary) E it returns, also after a previous call in another dimension (thread-local scratch); (5) order selection, scaling and repeated squaring: on a bidiagonal nilpotent 7x7 matrix with 12 symbolic parameters, for which every Pade order and every scaling is exact, the result is decided equal to exp(A) for scripted norm estimates that drive every order 3,5,7,9,13 (by norm and by ell veto) and scaling exponents s=0,1,2,6,8 (thorough 0..8, 10: norms up to the ~1e3 the property allows); a native call-history battery (small matrix first, then every band, one process) is reported separately.',
    note='OUTSIDE: "equals exp(A) to a small multiple of machine precision times the conditioning, for every matrix, norm band and history": '
         'floating-point backward-error analysis through GSL\'s compiled LU, the randomised norm estimator and pow/log; also the theta_m '
         'thresholds and the values of the estimators are not decided (the estimators are stubs in (5); ell(B,13) is scripted as 0, which holds on the property\'s domain). The native replay compares with scipy.linalg.expm on '
         'well-conditioned matrices in the norm band of the order concerned. Trusted: textbook Pade coefficients (2m-k)!/(k!(m-k)!).',
    design='§3 C07, §4')
CHECKS['C12'] = dict(
    text='PARTIAL. Decided by the solver: in the dimension-3 closed form (EigenSystemSU3.txt, executed symbolically with all 9 components '
         'symbolic and sqrt/cbrt/pow/carg/clog/cexp as uninterpreted atoms) which divisors can vanish for finite inputs -- every divisor that '
         'is a polynomial in the inputs, and the polynomial base of every pow/sqrt/cbrt atom occurring in a divisor; each satisfying '
         'assignment is completed to a concrete operator and run on the real code, which must return finite values with M V = V diag(L) and '
         'V unitary; for d=2,4,5,6 the glue around gsl_eigen_hermv under a contract stub (matrix handed over = S2M(vector), containers and workspace of order d, workspace released, results passed through, sort requested iff asked, vector unmodified, no leak); for d=3 a second decomposition in the same thread returns exactly the single-call terms. Not decided: validity for degenerate/near-degenerate spectra and all of dimensions 2,4,5,6 (GSL); those are exercised '
         'by a native battery of structured inputs and call histories whose findings are reported and labelled as such. Every branch of the dimension-3 closed form gets a solver-supplied input inside the dense, non-degenerate domain (first small dyadic components, found by z3\'s bounded non-linear integer tactic, so that a polynomial branch condition with an exact boundary such as x==0 is taken by the double computation too); the real code must return a valid eigensystem there (labelled: solver supplies the input, the native run decides).',
    note='OUTSIDE: gsl_eigen_hermv (compiled, iterative) for d != 3; the residual/unitarity identity for d = 3 (complex cube roots, '
         'cancellation). Three pre-existing defects of the d=3 closed form are recorded in known_findings.txt (not repaired: a correct '
         'treatment of structured and degenerate 3x3 inputs needs a different algorithm, not a small patch).',
    design='§3 C12, §4, §5')
CHECKS['C18'] = dict(
    text='NON-INTERFERENCE ARGUMENT, not an exploration of schedules (hence level "other"). (a) A static scan of the linked IR of the four '
         'library translation units shows no mutable non-thread-local global; the write sets of the public operation classes (vector '
         'algebra incl. rotations and the Pade matrix exponential; const queries GetExpectationValue/D (plain and averaging), '
         'GetIntermediateState, Get_i on a solver built by another thread) are obtained by symbolic execution of the real IR '
         'under logical threads with an access monitor -- with every component, time, angle and the query position symbolic (exact reals, branch feasibility by z3) for the arithmetic classes and the queries, with concrete doubles where the matrix exponential is involved: every store must hit the calling thread\'s stack, heap blocks, buffers or its own '
         'thread-local instances, never the shared solver or another thread\'s storage; results are bit-identical across threads and equal '
         'to the native single-thread run. (b) Vectors created under one thread are destroyed under another; a thread whose only library call is a query with an operator made elsewhere. (c) At thread exit the '
         'thread-local destructors the code registered are executed and the allocation ledger must be empty.',
    note='Schedules themselves are not enumerated: pthreads / TLS runtime have no encoding here and CBMC\'s concurrency mode cannot take '
         'this pointer-based code; if no operation writes memory another thread can access, every interleaving is race free and returns '
         'the sequential values. The solver only decides path feasibility here; the property assertion is on the (concrete) store targets of every explored path. Assumed: GSL/libstdc++ thread safety for distinct objects; for the runs with the matrix exponential, write sets independent of the data values used.',
    design='§3 C18, §4', category='other',
    technique='write-set non-interference: static scan of the linked LLVM IR for shared mutable state + symbolic execution (all values symbolic where feasible) of the real IR under logical threads with a store monitor and thread-exit destructor run; schedules not explored')
NA_REASON = 'check not built yet (framework under construction; see DESIGN.md)'
NA = {}

checks = []
for pid in props:
    c = CHECKS.get(pid)
    if c is None:
        continue
    checks.append({
        'property_id': pid,
        'quick_cmd': './check %s --tier quick' % pid,
        'thorough_cmd': './check %s --tier thorough' % pid,
        'evidence_file': 'evidence/%s.json' % pid,
        'replay_cmd_template': './check %s --replay {path}' % pid,
        'engine': c.get('engine', 'irsym'),
        'level_claimed': {'category': c.get('category', 'model_checking'), 'text': c['text'], 'design_ref': c['design']},
        'level_note': c['note'],
        'technique': c.get('technique', TECH),
    })
m = {
    'version': 1,
    'setup_cmd': 'mkdir -p /verif/build /verif/evidence /verif/replays && python3-vt -c "import z3; print(z3.get_version_string())" && clang++-14 --version | head -1 && cbmc --version',
    'hooks': {'guard': 'SQUIDS_VERIF', 'enable': 'no source hooks are needed: harnesses (verif/harness/*.cpp) include the library headers/sources directly',
              'baseline_off_cmd': 'cd /repo && make && make test', 'source_commits': [], 'add_only': True},
    'engines': [
        {'name': 'irsym', 'path': 'irsym/', 'serves_properties': [p for p in props if p in CHECKS and CHECKS[p].get('engine', 'irsym') == 'irsym'],
         'kind_free_text': 'own symbolic executor for clang-14 LLVM IR (Python) with z3 back end; concrete-double mode doubles as IR interpreter for translation validation against the g++ build'},
        {'name': 'ir2c+cbmc', 'path': 'irsym/ir2c.py', 'serves_properties': ['C19'],
         'kind_free_text': 'LLVM IR -> pointer-free C translator feeding CBMC 6.11 (bounded model checking of thread interleavings)'},
    ],
    'checks': checks,
    'notes': 'see DESIGN.md (section 9 = as built, incl. which seeded changes each check catches); known_findings.txt lists recorded and fixed defects; seeded/ holds the 197 breaking changes produced by independent sub-agents in seven rounds (196 applicable); a deterministic sample of the z3 queries of every run is re-decided by cvc5 (evidence: cvc5_second_opinion)',
    'not_applicable': [{'property_id': p, 'reason': NA.get(p, NA_REASON)} for p in props if p not in CHECKS],
}
json.dump(m, open(os.path.join(HERE, 'MANIFEST.json'), 'w'), indent=1)
print('MANIFEST: %d checks, %d not_applicable' % (len(checks), len(m['not_applicable'])))
