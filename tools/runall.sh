#!/bin/bash
# run every claimed check (quick or $1) on the current tree and print a one-line summary each
T=${1:-quick}
cd /verif
for c in $(python3 -c "import json; print(' '.join(x['property_id'] for x in json.load(open('MANIFEST.json'))['checks']))"); do
  s=$(date +%s); out=$(./check $c --tier $T 2>&1); rc=$?; e=$(date +%s)
  echo "$c rc=$rc $((e-s))s $(echo "$out" | tail -1 | cut -c1-150)"
done
