#!/bin/bash
# usage: round5.sh <pid>...   confirm the round-5 mutants of each property in its worktree and import them as m9/m10
for pid in "$@"; do
  for k in 1 2; do
    [ -d /tmp/wt5-$pid/mutants/m$k ] && /verif/tools/confirm_seed.sh /tmp/wt5-$pid /tmp/wt5-$pid/mutants/m$k /tmp/confirm5-$pid-m$k.log
    tail -1 /tmp/confirm5-$pid-m$k.log
  done
  /verif/tools/seed_import.py $pid 5
done
