#!/usr/local/bin/python3-vt
"""seed_table.py : markdown table of seeded/<id>/{meta,result}.json for DESIGN.md section 9.5; also fills meta.json 'detected_by' / 'ran'"""
import json, glob, os, re
V = os.path.dirname(os.path.dirname(os.path.abspath(__file__)))
rows = []
for d in sorted(glob.glob(V + '/seeded/C*')):
    sid = os.path.basename(d)
    meta = json.load(open(d + '/meta.json'))
    if meta.get('superseded'):
        rows.append((sid, '(superseded by /repo commit 793f594: the patched lines no longer exist)', '—', '—'))
        continue
    if not os.path.exists(d + '/result.json'):
        rows.append((sid, '?', 'not run', ''))
        continue
    res = json.load(open(d + '/result.json'))
    first = meta['needs_to_manifest'].split('\n')[0]
    first = re.sub(r'^Change:\s*', '', first).strip()
    caught = [p for p, c in res['checks'].items() if c['exit'] == 1 and c['violations'] > 0]
    missed = [p for p, c in res['checks'].items() if c['exit'] == 0]
    other = [p + ' (exit %d)' % c['exit'] for p, c in res['checks'].items() if c['exit'] not in (0, 1) or (c['exit'] == 1 and c['violations'] == 0)]
    what = ''
    for p in caught[:1]:
        what = res['checks'][p]['first'].replace('what: ', '')
    meta['detected_by'] = caught
    meta['not_detected_by'] = missed
    meta['ran'] = 'tools/run_seeded.py: patch applied to a scratch clone of /repo (HEAD %s), ./check <id> --tier quick with VERIF_REPO pointing at it, VERIF_SEED=1; see result.json' % res.get('repo_head')
    json.dump(meta, open(d + '/meta.json', 'w'), indent=1)
    rows.append((sid, first[:150], ', '.join(caught) + (('; not by ' + ', '.join(missed)) if missed else '') + (('; ' + ', '.join(other)) if other else ''), what[:170]))
print('| change | what it does (first line of the author\'s note) | caught by (quick tier) | first violation reported |')
print('|---|---|---|---|')
for r in rows:
    print('| %s | %s | %s | %s |' % tuple(x.replace('|', '\\|') for x in r))
