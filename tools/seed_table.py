#!/usr/local/bin/python3-vt
"""seed_table.py : markdown table of seeded/<id>/{meta,result}.json for DESIGN.md section 9.5; also fills meta.json 'detected_by' / 'ran'"""
import json, glob, os, re
V = os.path.dirname(os.path.dirname(os.path.abspath(__file__)))
rows = []
for d in sorted(glob.glob(V + '/seeded/C*')):
    sid = os.path.basename(d)
    meta = json.load(open(d + '/meta.json'))
    if meta.get('superseded'):
        rows.append((sid, '(superseded by /repo commit 793f594: the patched lines no longer exist)', '—', '—'))
        continue
    if not os.path.exists(d + '/result.json'):
        rows.append((sid, '?', 'not run', ''))
        continue
    res = json.load(open(d + '/result.json'))
    first = meta['needs_to_manifest'].split('\n')[0]
    first = re.sub(r'^Change:\s*', '', first).strip()
    caught = [p for p, c in res['checks'].items() if c['exit'] == 1 and c['violations'] > 0]
    missed = [p for p, c in res['checks'].items() if c['exit'] == 0]
    other = [p + ' (exit %d)' % c['exit'] for p, c in res['checks'].items() if c['exit'] not in (0, 1) or (c['exit'] == 1 and c['violations'] == 0)]
    what = ''
    for p in caught[:1]:
        what = res['checks'][p]['first'].replace('what: ', '')
    meta['detected_by'] = caught
    meta['not_detected_by'] = missed
    meta['ran'] = 'tools/run_seeded.py: patch applied to a scratch clone of /repo (HEAD %s), ./check <id> --tier quick with VERIF_REPO pointing at it, VERIF_SEED=1; see result.json' % res.get('repo_head')
    json.dump(meta, open(d + '/meta.json', 'w'), indent=1)
    rows.append((sid, first[:150], ', '.join(caught) + (('; not by ' + ', '.join(missed)) if missed else '') + (('; ' + ', '.join(other)) if other else ''), what[:170]))
print('| change | what it does (first line of the author\'s note) | caught by (quick tier) | first violation reported |')
print('|---|---|---|---|')
for r in rows:
    print('| %s | %s | %s | %s |' % tuple(x.replace('|', '\\|') for x in r))
# ---- when called with --design: replace the region between the markers in DESIGN.md
import sys as _sys
if '--design' in _sys.argv:
    lines = ['| change | what it does (first line of the author\'s note) | caught by (quick tier) | first violation reported |', '|---|---|---|---|']
    for r in rows:
        lines.append('| %s | %s | %s | %s |' % tuple(x.replace('|', '\\|') for x in r))
    applicable = [r for r in rows if r[2] not in ('—', 'not run')]
    own = [r for r in applicable if r[0].split('-')[0] in r[2].split(';')[0]]
    lines.append('')
    lines.append('%d of %d applicable changes are caught by the quick tier of their own property\'s check (`seeded/<id>/result.json` holds exit codes, times and the first violation line; `VERIF_SEED=1`); m1/m2 = round 1, m3/m4 = round 2, m5/m6 = round 3, m7/m8 = round 4, m9/m10 = round 5 (round 6 for C04, C05, C08, C09, C10, C18, C19), m11/m12 = round 7; a change listed as caught only by another property\'s check is marked so.' % (len(own), len(applicable)))
    p = V + '/DESIGN.md'
    s = open(p).read()
    a = s.index('<!-- SEED_TABLE_BEGIN -->') + len('<!-- SEED_TABLE_BEGIN -->\n')
    b = s.index('<!-- SEED_TABLE_END -->')
    open(p, 'w').write(s[:a] + '\n'.join(lines) + '\n' + s[b:])
