#!/usr/local/bin/python3-vt
"""run_seeded.py [ids...] : apply each seeded patch to a scratch clone of /repo, run the property's own quick check (and optional extra checks)
against it (VERIF_REPO), record the outcome in seeded/<id>/result.json.  /repo itself is never touched."""
import sys, os, json, subprocess, glob, shutil, time
V = '/verif'
SCR = os.environ.get('SEED_SCRATCH', '/tmp/repo-seed')
EXTRA = {'C10-m11': ['C04'], 'C05-m10': ['C10'], 'C10-m10': ['C04'], 'C02-m10': ['C15'], 'C13-m10': ['C15'], 'C15-m10': ['C09'], 'C02-m7': ['C09'], 'C02-m8': ['C09'], 'C05-m7': ['C10'], 'C10-m8': ['C04'], 'C09-m8': ['C14'], 'C01-m5': ['C08', 'C09'], 'C04-m6': ['C10'], 'C14-m6': ['C08'], 'C15-m6': ['C05'], 'C02-m6': ['C09'], 'C02-m4': ['C09'], 'C03-m2': ['C09'], 'C05-m1': ['C11'], 'C10-m1': ['C04'], 'C10-m2': ['C04'], 'C04-m2': ['C10'], 'C16-m1': ['C15'], 'C13-m1': ['C15'], 'C15-m2': ['C14']}
ids = sys.argv[1:] or sorted(os.path.basename(d) for d in glob.glob(V + '/seeded/C*'))
if os.path.exists(SCR):
    shutil.rmtree(SCR)
subprocess.check_call(['git', 'clone', '-q', '/repo', SCR])
for f in ('settings.mk', 'Makefile', 'include/SQuIDS/version.h'):
    shutil.copy('/repo/' + f, SCR + '/' + f)
out_dir = '/tmp/seed-out'
os.makedirs(out_dir, exist_ok=True)
for sid in ids:
    d = V + '/seeded/' + sid
    meta = json.load(open(d + '/meta.json'))
    if meta.get('superseded'):
        print(sid, 'superseded, skipped'); continue
    subprocess.check_call(['git', '-C', SCR, 'checkout', '-q', '--', '.'])
    p = subprocess.run(['git', '-C', SCR, 'apply', d + '/patch.diff'], capture_output=True, text=True)
    if p.returncode != 0:
        print(sid, 'PATCH DOES NOT APPLY:', p.stderr.strip()[:200]); json.dump({'applies': False, 'stderr': p.stderr[:400]}, open(d + '/result.json', 'w'), indent=1); continue
    res = {'applies': True, 'repo_head': subprocess.check_output(['git', '-C', '/repo', 'rev-parse', '--short', 'HEAD'], text=True).strip(), 'checks': {}}
    for pid in [meta['property']] + EXTRA.get(sid, []):
        env = dict(os.environ, VERIF_REPO=SCR, VERIF_OUT=out_dir, VERIF_SEED='1')
        t0 = time.time()
        q = subprocess.run([V + '/check', pid, '--tier', 'quick'], capture_output=True, text=True, env=env, cwd=V)
        lines = [l for l in q.stdout.split('\n') if l.startswith('VIOLATION') or l.strip().startswith('what:')]
        res['checks'][pid] = {'exit': q.returncode, 'seconds': round(time.time() - t0, 1), 'violations': sum(1 for l in lines if l.startswith('VIOLATION')),
                              'first': (lines[1].strip()[:400] if len(lines) > 1 else (q.stdout.strip().split('\n')[-1][:300]))}
        print(sid, pid, 'exit', q.returncode, res['checks'][pid]['seconds'], 's', res['checks'][pid]['first'][:140], flush=True)
    res['detected'] = any(c['exit'] == 1 for c in res['checks'].values())
    json.dump(res, open(d + '/result.json', 'w'), indent=1)
subprocess.check_call(['git', '-C', SCR, 'checkout', '-q', '--', '.'])
shutil.rmtree(SCR)
