"""Solver front end: Term -> z3, satisfiability queries with time limits, bookkeeping for the evidence files.

Modes for sort 'R':
  'real'  : z3 Real arithmetic (exact).  sin/cos/... are uninterpreted functions Real->Real.
  'fp'    : z3 Float64 (RNE).  Only sensible for copy/negate/compare formulas.
  'round' : Real arithmetic where every +,-,*,/ result is multiplied by (1+delta_k), |delta_k| <= 2^-53
            (standard model of IEEE arithmetic without overflow/underflow).
"""
import time, hashlib, subprocess, os, tempfile
from fractions import Fraction
import z3
from . import term as T
from .term import Term

U = Fraction(1, 2 ** 53)


class Conv:
    def __init__(self, mode='real', ctx=None):
        self.mode = mode
        self.memo = {}
        self.vars = {}
        self.ufs = {}
        self.deltas = []
        self.side = []       # side constraints (bounds of deltas)

    def rconst(self, c):
        if self.mode == 'fp':
            return z3.FPVal(float(c), z3.Float64())
        c = Fraction(c)
        return z3.RealVal(str(c.numerator) + '/' + str(c.denominator)) if c.denominator != 1 else z3.RealVal(c.numerator)

    def arg(self, a, sort):
        if isinstance(a, Term):
            return self.memo[a.id]
        if sort == 'R':
            return self.rconst(a)
        if sort == 'B':
            return z3.BoolVal(bool(a))
        if isinstance(sort, tuple):
            return z3.BitVecVal(int(a), sort[1])
        raise TypeError((a, sort))

    def rnd(self, e):
        if self.mode != 'round':
            return e
        d = z3.Real('delta!%d' % len(self.deltas))
        self.deltas.append(d)
        u = self.rconst(U)
        self.side.append(z3.And(d >= -u, d <= u))
        return e * (1 + d)

    def uf(self, name, arity):
        f = self.ufs.get(name)
        if f is None:
            rs = z3.RealSort()
            f = z3.Function(name, *([rs] * arity + [rs]))
            self.ufs[name] = f
        return f

    def conv(self, t):
        if not isinstance(t, Term):
            raise TypeError('conv needs a Term (got %r)' % (t,))
        memo = self.memo
        for n in T.topo([t]):
            if n.id in memo:
                continue
            op = n.op
            s = n.sort
            if op == 'var':
                if s == 'R':
                    e = z3.FP(n.aux, z3.Float64()) if self.mode == 'fp' else z3.Real(n.aux)
                elif s == 'B':
                    e = z3.Bool(n.aux)
                else:
                    e = z3.BitVec(n.aux, s[1])
                self.vars[n.aux] = e
            elif op in ('fadd', 'fsub', 'fmul', 'fdiv'):
                a = self.arg(n.args[0], 'R')
                b = self.arg(n.args[1], 'R')
                if self.mode == 'fp':
                    rm = z3.RNE()
                    e = {'fadd': z3.fpAdd, 'fsub': z3.fpSub, 'fmul': z3.fpMul, 'fdiv': z3.fpDiv}[op](rm, a, b)
                else:
                    e = {'fadd': lambda: a + b, 'fsub': lambda: a - b, 'fmul': lambda: a * b, 'fdiv': lambda: a / b}[op]()
                    e = self.rnd(e)
            elif op == 'fneg':
                a = self.arg(n.args[0], 'R')
                e = z3.fpNeg(a) if self.mode == 'fp' else -a
            elif op == 'fabs':
                a = self.arg(n.args[0], 'R')
                e = z3.fpAbs(a) if self.mode == 'fp' else z3.If(a >= 0, a, -a)
            elif op == 'ite':
                c = self.arg(n.args[0], 'B')
                e = z3.If(c, self.arg(n.args[1], s), self.arg(n.args[2], s))
            elif op == 'fcmp':
                a = self.arg(n.args[0], 'R')
                b = self.arg(n.args[1], 'R')
                p = n.aux
                if self.mode == 'fp':
                    e = {'eq': z3.fpEQ, 'ne': lambda x, y: z3.Not(z3.fpEQ(x, y)), 'lt': z3.fpLT, 'le': z3.fpLEQ,
                         'gt': z3.fpGT, 'ge': z3.fpGEQ}[p](a, b)
                else:
                    e = {'eq': a == b, 'ne': a != b, 'lt': a < b, 'le': a <= b, 'gt': a > b, 'ge': a >= b}[p]
            elif op == 'biteq':
                a = self.arg(n.args[0], 'R')
                b = self.arg(n.args[1], 'R')
                e = (a == b)            # structural equality: for Float64 terms this is bit identity (+0 != -0), for reals plain equality
            elif op == 'not':
                e = z3.Not(self.arg(n.args[0], 'B'))
            elif op == 'and':
                e = z3.And(self.arg(n.args[0], 'B'), self.arg(n.args[1], 'B'))
            elif op == 'or':
                e = z3.Or(self.arg(n.args[0], 'B'), self.arg(n.args[1], 'B'))
            elif op == 'xor':
                e = z3.Xor(self.arg(n.args[0], 'B'), self.arg(n.args[1], 'B'))
            elif op == 'icmp':
                pred, bits = n.aux
                a = self.arg(n.args[0], ('bv', bits))
                b = self.arg(n.args[1], ('bv', bits))
                e = {'eq': lambda: a == b, 'ne': lambda: a != b, 'ugt': lambda: z3.UGT(a, b), 'uge': lambda: z3.UGE(a, b),
                     'ult': lambda: z3.ULT(a, b), 'ule': lambda: z3.ULE(a, b), 'sgt': lambda: a > b, 'sge': lambda: a >= b,
                     'slt': lambda: a < b, 'sle': lambda: a <= b}[pred]()
            elif op.startswith('bv'):
                a = self.arg(n.args[0], s)
                b = self.arg(n.args[1], s)
                o = op[2:]
                e = {'add': lambda: a + b, 'sub': lambda: a - b, 'mul': lambda: a * b, 'udiv': lambda: z3.UDiv(a, b),
                     'sdiv': lambda: a / b, 'urem': lambda: z3.URem(a, b), 'srem': lambda: z3.SRem(a, b),
                     'and': lambda: a & b, 'or': lambda: a | b, 'xor': lambda: a ^ b, 'shl': lambda: a << b,
                     'lshr': lambda: z3.LShR(a, b), 'ashr': lambda: a >> b}[o]()
            elif op == 'zext':
                a = self.arg(n.args[0], ('bv', n.aux))
                e = z3.ZeroExt(s[1] - n.aux, a)
            elif op == 'sext':
                a = self.arg(n.args[0], ('bv', n.aux))
                e = z3.SignExt(s[1] - n.aux, a)
            elif op == 'trunc':
                a = self.arg(n.args[0], ('bv', n.aux))
                e = z3.Extract(s[1] - 1, 0, a)
            elif op == 'itofp':
                bits, signed = n.aux
                a = self.arg(n.args[0], ('bv', bits))
                if self.mode == 'fp':
                    e = z3.fpSignedToFP(z3.RNE(), a, z3.Float64()) if signed else z3.fpUnsignedToFP(z3.RNE(), a, z3.Float64())
                else:
                    e = z3.ToReal(z3.BV2Int(a, signed))
            elif op == 'special':
                # NaN / division by literal zero: a fresh unconstrained real (sound over-approximation)
                e = z3.Real('special!%d' % n.id) if self.mode != 'fp' else z3.fpNaN(z3.Float64())
            elif s == 'R':
                if self.mode == 'fp':
                    raise ValueError('function %s in fp mode' % op)
                f = self.uf(op, len(n.args))
                e = f(*[self.arg(a, 'R') for a in n.args])
            else:
                raise ValueError('conv: op %s' % op)
            memo[n.id] = e
        return memo[t.id]


class Solver:
    """keeps statistics and (optionally) the SMT-LIB text of each query for cross-checking"""

    def __init__(self, mode='real', timeout_ms=20000, keep_smt2=False, tactic=None):
        self.mode = mode
        self.timeout_ms = timeout_ms
        self.stats = {'queries': 0, 'sat': 0, 'unsat': 0, 'unknown': 0, 'time': 0.0}
        self.hashes = set()
        self.keep_smt2 = keep_smt2
        self.smt2 = []
        self.tactic = tactic
        self.samples = []
        # second opinion: a deterministic sample of the labelled queries is re-decided by cvc5 (SMT-LIB text dumped by z3)
        self.cross_budget = int(os.environ.get('VERIF_CVC5_SAMPLES', '3'))
        self.cross = {'agree': 0, 'inconclusive': 0, 'disagree': []}

    def _mk(self, terms, conv=None, extra=()):
        conv = conv or Conv(self.mode)
        s = z3.Solver() if self.tactic is None else z3.Tactic(self.tactic).solver()
        s.set('timeout', self.timeout_ms)
        for t in terms:
            if isinstance(t, Term):
                s.add(conv.conv(t))
            elif t is False or t == 0:
                s.add(z3.BoolVal(False))
            elif t is True or t == 1:
                pass
            else:
                s.add(t)   # raw z3 expr
        for e in extra:
            s.add(e)
        for e in conv.side:
            s.add(e)
        return s, conv

    def check(self, terms, conv=None, extra=(), label=None, want_model=False):
        t0 = time.time()
        s, conv = self._mk(terms, conv, extra)
        r = s.check()
        dt = time.time() - t0
        res = str(r)
        self.stats['queries'] += 1
        self.stats[res] = self.stats.get(res, 0) + 1
        self.stats['time'] += dt
        txt = None
        if self.keep_smt2 or label is not None:
            txt = s.to_smt2()
            h = hashlib.sha1(txt.encode()).hexdigest()
            self.hashes.add(h)
            if self.keep_smt2:
                self.smt2.append((label, res, txt))
        if label is not None and len(self.samples) < 12:
            self.samples.append({'query': label, 'verdict': res, 'seconds': round(dt, 3)})
        if txt is not None and label is not None and self.cross_budget > 0 and res in ('sat', 'unsat') and dt < 5 and int(h[:4], 16) % 8 == 0 and len(txt) < 400000:
            self.cross_budget -= 1
            r2 = run_cvc5(txt, 20)
            if r2 in ('sat', 'unsat'):
                if r2 == res:
                    self.cross['agree'] += 1
                else:
                    self.cross['disagree'].append({'query': label, 'z3': res, 'cvc5': r2})
            else:
                self.cross['inconclusive'] += 1
        if want_model:
            return res, (s.model() if res == 'sat' else None), conv
        return res

    def enumerate(self, pc, v, limit):
        """all values of bit-vector term v under pc (None if more than limit or unknown)"""
        conv = Conv(self.mode)
        s = z3.Solver()
        s.set('timeout', self.timeout_ms)
        for t in pc:
            if isinstance(t, Term):
                s.add(conv.conv(t))
        e = conv.conv(v)
        for x in conv.side:
            s.add(x)
        vals = []
        while True:
            t0 = time.time()
            r = s.check()
            self.stats['queries'] += 1
            self.stats['time'] += time.time() - t0
            self.stats[str(r)] = self.stats.get(str(r), 0) + 1
            if r == z3.unsat:
                return vals
            if r != z3.sat:
                return None
            m = s.model()
            x = m.eval(e, model_completion=True).as_long()
            vals.append(x)
            if len(vals) > limit:
                return None
            s.add(e != x)


def model_value(m, conv, name, sort='R'):
    e = conv.vars.get(name)
    if e is None:
        return Fraction(0) if sort == 'R' else 0
    v = m.eval(e, model_completion=True)
    if z3.is_rational_value(v):
        return Fraction(v.numerator_as_long(), v.denominator_as_long())
    if z3.is_algebraic_value(v):
        a = v.approx(30)
        return Fraction(a.numerator_as_long(), a.denominator_as_long())
    if z3.is_bv_value(v):
        return v.as_long()
    if z3.is_true(v):
        return True
    if z3.is_false(v):
        return False
    if z3.is_fp(v):
        return float(eval(str(v))) if False else v
    return v


def run_cvc5(smt2_text, timeout_s=60):
    """second opinion on a dumped query; returns 'sat'/'unsat'/'unknown'/'error'"""
    with tempfile.NamedTemporaryFile('w', suffix='.smt2', delete=False, dir=os.environ.get('VERIF_BUILD', '/verif/build')) as f:
        f.write(smt2_text)
        if '(check-sat)' not in smt2_text:
            f.write('\n(check-sat)\n')
        path = f.name
    try:
        p = subprocess.run(['cvc5', '--tlimit=%d' % (timeout_s * 1000), path], capture_output=True, text=True, timeout=timeout_s + 10)
        out = (p.stdout + p.stderr).strip()
        if '(error' in out or 'rror' in out.split('\n')[0:1][0] if out else False:
            return 'error'
        first = out.split('\n')[0].strip() if out else 'unknown'
        if first in ('sat', 'unsat', 'unknown'):
            return first
        return 'unknown'
    except subprocess.TimeoutExpired:
        return 'unknown'
    finally:
        os.unlink(path)
