"""Build products, always derived from /repo's current working tree (cached by content hash under /verif/build)."""
import hashlib, os, subprocess, glob, sys, time

REPO = os.environ.get('VERIF_REPO', '/repo')
VERIF = os.path.dirname(os.path.dirname(os.path.abspath(__file__)))
BUILD = os.path.join(VERIF, 'build')
CLANG_FLAGS = ['-std=c++11', '-O1', '-ffp-contract=off', '-fno-vectorize', '-fno-slp-vectorize', '-fno-unroll-loops',
               '-Wno-everything']
LIB_SOURCES = ['SUNalg.cpp', 'SQuIDS.cpp', 'const.cpp', 'MatrixExp.cpp']


def sh(cmd, **kw):
    p = subprocess.run(cmd, capture_output=True, text=True, **kw)
    if p.returncode != 0:
        sys.stderr.write('command failed: %s\n%s\n%s\n' % (' '.join(cmd), p.stdout[-3000:], p.stderr[-3000:]))
        raise RuntimeError('build step failed: ' + ' '.join(cmd[:3]))
    return p


def repo_hash():
    h = hashlib.sha1()
    files = sorted(glob.glob(REPO + '/include/SQuIDS/**/*', recursive=True) + glob.glob(REPO + '/src/*.cpp'))
    for f in files:
        if os.path.isfile(f):
            h.update(f.encode())
            with open(f, 'rb') as fh:
                h.update(fh.read())
    return h.hexdigest()[:16]


def file_hash(*paths, extra=''):
    h = hashlib.sha1(extra.encode())
    for p in paths:
        with open(p, 'rb') as fh:
            h.update(fh.read())
    return h.hexdigest()[:16]


def _prune(prefix, keep, keep_n=40):
    """remove stale cached products with the same prefix, keeping the few most recent (other trees may be in use concurrently)"""
    files = [f for f in glob.glob(os.path.join(BUILD, prefix + '*')) if keep not in f and not f.endswith('.lock')]
    files.sort(key=lambda f: os.path.getmtime(f) if os.path.exists(f) else 0, reverse=True)
    for f in files[keep_n:]:
        try:
            os.remove(f)
        except OSError:
            pass


class _Lock:
    def __init__(self, name):
        os.makedirs(BUILD, exist_ok=True)
        self.path = os.path.join(BUILD, name + '.lock')
        for f in glob.glob(os.path.join(BUILD, '*.lock')):      # stale lock files of other trees
            try:
                if time.time() - os.path.getmtime(f) > 6 * 3600:
                    os.remove(f)
            except OSError:
                pass

    def __enter__(self):
        import fcntl
        self.f = open(self.path, 'w')
        fcntl.flock(self.f, fcntl.LOCK_EX)

    def __exit__(self, *a):
        import fcntl
        fcntl.flock(self.f, fcntl.LOCK_UN)
        self.f.close()


def ir_for(harness, lib_sources=(), extra_c=(), defines=(), tag=None):
    # one lock per (harness, tree) so that checks of different trees build concurrently
    with _Lock('ir.' + harness + (tag or '') + '.' + repo_hash()):
        return _ir_for(harness, lib_sources, extra_c, defines, tag)


def _ir_for(harness, lib_sources=(), extra_c=(), defines=(), tag=None):
    """compile harness (a .cpp under /verif/harness) + selected library sources + extra C shims to one linked .ll"""
    os.makedirs(BUILD, exist_ok=True)
    hpath = os.path.join(VERIF, 'harness', harness)
    shim_paths = [os.path.join(VERIF, 'harness', c) for c in extra_c]
    key = file_hash(hpath, *shim_paths, extra=repo_hash() + ','.join(lib_sources) + ','.join(defines))
    base = 'ir.' + os.path.splitext(harness)[0] + (('-' + tag) if tag else '')
    out = os.path.join(BUILD, '%s.%s.ll' % (base, key))
    if os.path.exists(out):
        return out
    _prune(base + '.', key)
    parts = []
    jobs = [(hpath, 'h')] + [(os.path.join(REPO, 'src', s), s) for s in lib_sources]
    procs = []
    for src, nm in jobs:
        o = os.path.join(BUILD, '%s.%s.%s.part.ll' % (base, key, nm.replace('.', '_')))
        cmd = ['clang++-14'] + CLANG_FLAGS + ['-I' + REPO + '/include', '-I' + REPO + '/src', '-I' + os.path.join(VERIF, 'harness')] + \
              ['-D' + d for d in defines] + ['-S', '-emit-llvm', src, '-o', o]
        procs.append((subprocess.Popen(cmd, stdout=subprocess.PIPE, stderr=subprocess.PIPE, text=True), cmd, o))
    for c in shim_paths:
        o = os.path.join(BUILD, '%s.%s.%s.part.ll' % (base, key, os.path.basename(c).replace('.', '_')))
        cmd = ['clang-14', '-O1', '-ffp-contract=off', '-fno-vectorize', '-fno-slp-vectorize', '-fno-unroll-loops',
               '-Wno-everything', '-S', '-emit-llvm', c, '-o', o]
        procs.append((subprocess.Popen(cmd, stdout=subprocess.PIPE, stderr=subprocess.PIPE, text=True), cmd, o))
    for p, cmd, o in procs:
        so, se = p.communicate()
        if p.returncode != 0:
            sys.stderr.write('command failed: %s\n%s\n' % (' '.join(cmd), se[-4000:]))
            raise RuntimeError('IR build failed for ' + cmd[-3])
        parts.append(o)
    if file_hash(hpath, *shim_paths, extra=repo_hash() + ','.join(lib_sources) + ','.join(defines)) != key:
        for p in parts:
            try:
                os.remove(p)
            except OSError:
                pass
        raise RuntimeError('the source tree %s (or the harness) changed during the IR build; nothing was cached' % REPO)
    if len(parts) == 1:
        os.rename(parts[0], out)
    else:
        sh(['llvm-link-14', '-S', '-o', out] + parts)
        for p in parts:
            os.remove(p)
    return out


def native_lib_objects():
    with _Lock('native-lib.' + repo_hash()):
        return _native_lib_objects()


def _native_lib_objects():
    """g++ objects of the four library sources from the current tree (cached by hash); returns list of .o"""
    os.makedirs(BUILD, exist_ok=True)
    key = repo_hash()
    objs = []
    procs = []
    for s in LIB_SOURCES:
        o = os.path.join(BUILD, 'native.%s.%s.o' % (key, s.replace('.cpp', '')))
        objs.append(o)
        if not os.path.exists(o):
            cmd = ['g++', '-std=c++11', '-O2', '-fPIC', '-I' + REPO + '/include', '-c', os.path.join(REPO, 'src', s), '-o', o]
            procs.append((subprocess.Popen(cmd, stdout=subprocess.PIPE, stderr=subprocess.PIPE, text=True), cmd))
    if procs:
        _prune('native.', key)
    for p, cmd in procs:
        so, se = p.communicate()
        if p.returncode != 0:
            sys.stderr.write(se[-4000:])
            raise RuntimeError('native build failed: ' + ' '.join(cmd))
    if procs and repo_hash() != key:
        # the tree changed while it was being compiled: these objects describe neither state
        for o in objs:
            try:
                os.remove(o)
            except OSError:
                pass
        raise RuntimeError('the source tree %s changed during the build; nothing was cached' % REPO)
    return objs


def native_so(harness, defines=(), with_lib=True, sanitize=False, exclude=()):
    with _Lock('so.' + harness + '.' + repo_hash()):
        return _native_so(harness, defines, with_lib, sanitize, exclude)


def _native_so(harness, defines=(), with_lib=True, sanitize=False, exclude=()):
    """shared object with the harness entry points linked against the current library sources"""
    hpath = os.path.join(VERIF, 'harness', harness)
    key = file_hash(hpath, extra=repo_hash() + ','.join(defines) + str(sanitize))
    base = ('san.' if sanitize else 'so.') + os.path.splitext(harness)[0]
    out = os.path.join(BUILD, '%s.%s.so' % (base, key))
    if os.path.exists(out):
        return out
    _prune(base + '.', key)
    objs = [o for o in (native_lib_objects() if with_lib else []) if not any(o.endswith('.%s.o' % e) for e in exclude)]
    cmd = ['g++', '-std=c++11', '-O1', '-fPIC', '-shared', '-I' + REPO + '/include', '-I' + REPO + '/src', '-I' + os.path.join(VERIF, 'harness')] + \
          ['-D' + d for d in defines] + [hpath] + objs + ['-lgsl', '-lgslcblas', '-lm', '-o', out]
    rh = repo_hash()
    sh(cmd)
    if repo_hash() != rh or file_hash(hpath, extra=rh + ','.join(defines) + str(sanitize)) != key:
        try:
            os.remove(out)
        except OSError:
            pass
        raise RuntimeError('the source tree %s changed during the build; nothing was cached' % REPO)
    return out
