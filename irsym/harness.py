"""Driving harness entry points: symbolically (Executor) and natively (ctypes on a g++ build of the same TU)."""
import ctypes, os, math
from fractions import Fraction
from . import build, llparse as L, term as T, solver as S
from .exec import Executor, UNDEF, Bits, ExecError
from .term import Term

_modcache = {}


def load_module(path):
    m = _modcache.get(path)
    if m is None:
        m = L.Module.load(path)
        _modcache[path] = m
    return m


class I:
    """integer argument"""
    def __init__(self, v, bits=32):
        self.v = v
        self.bits = bits


class D:
    """double scalar argument"""
    def __init__(self, v):
        self.v = v


class Buf:
    """double array argument.  values: list (Fraction / float / Term / None for uninitialised)"""
    def __init__(self, name, values=None, n=None, align=32, offset=0):
        self.name = name
        self.values = list(values) if values is not None else [None] * n
        self.align = align
        self.offset = offset    # extra byte offset to control alignment mod 32


class IBuf:
    def __init__(self, name, values, bits=32):
        self.name = name
        self.values = list(values)
        self.bits = bits


class Ptr:
    """raw pointer value (e.g. alias of another Buf: Ptr('a') or Ptr('a', byte_offset))"""
    def __init__(self, name, off=0):
        self.name = name
        self.off = off


class NativeCrash(Exception):
    pass


class Path:
    def __init__(self, res, bufs, ex):
        self.res = res
        self.status = res.status
        self.ret = res.retval
        self.info = res.info
        self.state = res.state
        self.pc = res.state.pc
        self._bufs = bufs
        self._ex = ex

    def out(self, name, n=None):
        base, cnt, kind, bits = self._bufs[name]
        o = self.state.find(base)
        vals = []
        for i in range(n if n is not None else cnt):
            if kind == 'd':
                c = o.cells.get(base - o.base + 8 * i)
                v = None if c is None else c[1]
                if v is UNDEF:
                    v = None          # a copy of an uninitialised value is reported like a cell that was never written
                if isinstance(v, Bits):
                    v = v.v
                if isinstance(v, int) and not isinstance(v, bool):
                    v = self._ex.dom.frombits(v)
                vals.append(v)
            else:
                c = o.cells.get(base - o.base + (bits // 8) * i)
                vals.append(None if (c is None or c[1] is UNDEF) else c[1])
        return vals

    def addr(self, name):
        return self._bufs[name][0]


class Harness:
    def __init__(self, cpp, libs=('SUNalg.cpp',), extra_c=('gsl_shim.c',), domain='R', solver=None, defines=(), tag=None, native_exclude=()):
        self.cpp = cpp
        self.libs = tuple(libs)
        self.defines = tuple(defines)
        self.ir = build.ir_for(cpp, self.libs, extra_c, defines, tag=tag)
        self.mod = load_module(self.ir)
        self.solver = solver if solver is not None else S.Solver()
        self.domain = domain
        self._native = None
        self.native_exclude = tuple(native_exclude)
        self.functions_encoded = set()

    def executor(self, domain=None):
        ex = Executor(self.mod, domain or self.domain, self.solver)
        return ex

    def run(self, fname, args, domain=None, prepare=None, ex=None, max_paths=3000):
        ex = ex or self.executor(domain)
        st = ex.new_state()
        bufs = {}
        vals = []
        pending_ptr = []
        for a in args:
            if isinstance(a, I):
                vals.append(a.v)
            elif isinstance(a, D):
                v = a.v
                if not isinstance(v, Term):
                    v = ex.dom.const(float(v)) if not isinstance(v, Fraction) or ex.dom.name == 'C' else v
                vals.append(v)
            elif isinstance(a, Buf):
                n = len(a.values)
                o = st.user_buffer(8 * n + a.offset, a.name, align=a.align)
                base = o.base + a.offset
                for i, v in enumerate(a.values):
                    if v is None:
                        continue
                    if not isinstance(v, Term):
                        if ex.dom.name == 'C':
                            v = float(v)
                        elif not isinstance(v, Fraction):
                            v = T.R(v)
                    o.cells[a.offset + 8 * i] = (8, v)
                bufs[a.name] = (base, n, 'd', 64)
                vals.append(base)
            elif isinstance(a, IBuf):
                n = len(a.values)
                w = a.bits // 8
                o = st.user_buffer(w * n, a.name)
                for i, v in enumerate(a.values):
                    if v is not None:
                        o.cells[w * i] = (w, v)
                bufs[a.name] = (o.base, n, 'i', a.bits)
                vals.append(o.base)
            elif isinstance(a, Ptr):
                vals.append(None)
                pending_ptr.append((len(vals) - 1, a))
            else:
                raise TypeError(a)
        for i, a in pending_ptr:
            vals[i] = (bufs[a.name][0] + a.off) if a.name is not None else a.off
        if prepare is not None:
            prepare(ex, st, bufs)
        self.last_ex = ex
        try:
            res = ex.run(st, fname, vals, max_paths=max_paths)
        except ExecError as e:
            if 'path explosion' not in str(e):
                raise
            # more feasible paths than the budget: reported as one failed path (the check decides: broken / undecided), never silently truncated
            from .exec import PathResult
            res = [PathResult('error', st, info={'kind': 'path-explosion', 'msg': '%s: more than %d feasible paths' % (fname, max_paths)})]
        return [Path(r, bufs, ex) for r in res]

    # ---------------------------------------------------------------- native
    def native_lib(self):
        if self._native is None:
            so = build.native_so(self.cpp, self.defines, exclude=self.native_exclude)
            self._native = ctypes.CDLL(so)
        return self._native

    def native(self, fname, args):
        """call the g++-built entry point in a forked child (so that aborts / segfaults of the real code are observed,
        not suffered); returns (ret, {buf name: list}) or raises NativeCrash"""
        import pickle
        self.native_lib()
        r, w = os.pipe()
        pid = os.fork()
        if pid == 0:
            code = 0
            try:
                os.close(r)
                res = self._native_call(fname, args)
                with os.fdopen(w, 'wb') as f:
                    pickle.dump(res, f)
            except BaseException:
                code = 97
            finally:
                os._exit(code)
        os.close(w)
        with os.fdopen(r, 'rb') as f:
            data = f.read()
        _, status = os.waitpid(pid, 0)
        if os.WIFSIGNALED(status):
            raise NativeCrash('native %s died with signal %d' % (fname, os.WTERMSIG(status)))
        if os.WEXITSTATUS(status) != 0 or not data:
            raise NativeCrash('native %s exited with status %d' % (fname, os.WEXITSTATUS(status)))
        return pickle.loads(data)

    def _native_call(self, fname, args):
        lib = self.native_lib()
        f = getattr(lib, fname)
        cargs = []
        keep = {}
        argtypes = []
        pend = []
        for a in args:
            if isinstance(a, I):
                cargs.append(int(a.v))
                argtypes.append(ctypes.c_uint64 if a.bits == 64 else ctypes.c_uint32)
            elif isinstance(a, D):
                cargs.append(float(a.v))
                argtypes.append(ctypes.c_double)
            elif isinstance(a, Buf):
                n = len(a.values)
                # over-allocate to honour alignment/offset
                raw = (ctypes.c_char * (8 * n + a.offset + 64))()
                ad = ctypes.addressof(raw)
                al = (ad + a.align - 1) // a.align * a.align + a.offset
                arr = (ctypes.c_double * n).from_address(al)
                for i, v in enumerate(a.values):
                    arr[i] = float(v) if v is not None else math.nan
                keep[a.name] = (raw, arr, al)
                cargs.append(ctypes.c_void_p(al))
                argtypes.append(ctypes.c_void_p)
            elif isinstance(a, IBuf):
                ct = {32: ctypes.c_uint32, 64: ctypes.c_uint64, 8: ctypes.c_uint8}[a.bits]
                arr = (ct * len(a.values))(*[int(v or 0) for v in a.values])
                keep[a.name] = (arr, arr, ctypes.addressof(arr))
                cargs.append(ctypes.c_void_p(ctypes.addressof(arr)))
                argtypes.append(ctypes.c_void_p)
            elif isinstance(a, Ptr):
                cargs.append(None)
                argtypes.append(ctypes.c_void_p)
                pend.append((len(cargs) - 1, a))
        for i, a in pend:
            cargs[i] = ctypes.c_void_p((keep[a.name][2] + a.off) if a.name is not None else a.off)
        f.argtypes = argtypes
        f.restype = ctypes.c_int
        ret = f(*cargs)
        outs = {k: list(v[1]) for k, v in keep.items()}
        return ret, outs
