"""IR -> pointer-free C over a flat word memory (for CBMC's concurrency mode, which refuses pointer dereferences in threads).

Every SSA register becomes an `unsigned long`; memory is `unsigned long M[]` addressed in bytes (8-byte words; 4-byte accesses
by shift/mask inside a word); allocas come from a per-call stack pointer argument; the 8-byte libatomic calls / atomic
instructions that clang emits for std::atomic<list_head> become __CPROVER_atomic sections.  Only the instruction subset that
occurs in detail::cache is supported; anything else raises (never silently skipped)."""
from . import llparse as L


class Unsupported(Exception):
    pass


def cname(name):
    out = []
    for ch in name:
        out.append(ch if ch.isalnum() else '_')
    return 'f_' + ''.join(out)


def reg(name):
    return 'r_' + ''.join(ch if ch.isalnum() else '_' for ch in name)


class Translator:
    def __init__(self, mod, atomic_hook=''):
        self.mod = mod
        self.out = []
        self.done = set()
        self.atomic_hook = atomic_hook      # C statement executed inside every atomic section (e.g. schedule logging)

    def bits(self, ty):
        ty = L.res(ty)
        if isinstance(ty, L.IntT):
            return ty.bits
        if isinstance(ty, L.PtrT):
            return 64
        raise Unsupported('type %r' % (ty,))

    def mask(self, expr, bits):
        if bits >= 64:
            return expr
        return '((%s) & %dUL)' % (expr, (1 << bits) - 1)

    def val(self, ty, v):
        if isinstance(v, L.Reg):
            return reg(v.name)
        if isinstance(v, L.CInt):
            b = self.bits(ty) if ty is not None else 64
            return '%dUL' % (v.v & ((1 << b) - 1))
        if isinstance(v, L.CNull):
            return '0UL'
        if isinstance(v, (L.CUndef, L.CZero)):
            return '0UL'
        if isinstance(v, L.CExpr) and v.op in ('bitcast', 'inttoptr', 'ptrtoint'):
            return self.val(v.args[0][0], v.args[0][1])
        raise Unsupported('operand %r' % (v,))

    def gep(self, sty, base, idx):
        parts = [base]
        t = sty
        first = True
        for (ity, iv) in idx:
            if first:
                first = False
                sz = L.size_of(t)
                parts.append('%s*%dUL' % (self.sx(ity, iv), sz))
                continue
            t = L.res(t)
            if isinstance(t, L.StructT):
                offs, _ = L.struct_layout(t)
                parts.append('%dUL' % offs[iv.v])
                t = t.elems[iv.v]
            elif isinstance(t, (L.ArrayT, L.VecT)):
                t = t.elem
                parts.append('%s*%dUL' % (self.sx(ity, iv), L.size_of(t)))
            else:
                raise Unsupported('gep into %r' % (t,))
        return '(' + ' + '.join(parts) + ')'

    def sx(self, ty, v):
        b = self.bits(ty)
        e = self.val(ty, v)
        if b == 64:
            return e
        if b == 32:
            return '((unsigned long)(long)(int)(%s))' % e
        raise Unsupported('index width %d' % b)

    def load(self, ty, addr):
        b = self.bits(ty)
        if b == 64:
            return 'RD(%s)' % addr
        if b == 32:
            return '((RD(%s) >> ((((%s)&4UL))*8UL)) & 0xffffffffUL)' % (addr, addr)
        if b == 8:
            return '((RD(%s) >> ((((%s)&7UL))*8UL)) & 0xffUL)' % (addr, addr)
        raise Unsupported('load width %d' % b)

    def fload(self, ty, loc):
        w, off = loc
        b = self.bits(ty)
        w += off // 8
        off %= 8
        if b == 64:
            if off:
                raise Unsupported('unaligned frame load')
            return 'F[%d]' % w
        return '((F[%d] >> %dUL) & %dUL)' % (w, off * 8, (1 << b) - 1)

    def fstore(self, ty, loc, v):
        w, off = loc
        b = self.bits(ty)
        w += off // 8
        off %= 8
        if b == 64:
            return 'F[%d] = %s;' % (w, v)
        m = (1 << b) - 1
        return 'F[%d] = (F[%d] & ~(%dUL << %dUL)) | (((%s) & %dUL) << %dUL);' % (w, w, m, off * 8, v, m, off * 8)

    def store(self, ty, addr, v):
        b = self.bits(ty)
        if b == 64:
            return 'WR(%s, %s);' % (addr, v)
        if b in (32, 8):
            m = (1 << b) - 1
            sh = '((((%s)&%dUL))*8UL)' % (addr, 4 if b == 32 else 7)
            return 'WR(%s, (RD(%s) & ~(%dUL << %s)) | (((%s) & %dUL) << %s));' % (addr, addr, m, sh, v, m, sh)
        raise Unsupported('store width %d' % b)

    def function(self, name):
        if name in self.done:
            return
        self.done.add(name)
        fn = self.mod.functions[name]
        fn.parse_body()
        body = []
        decls = set()

        # callees first
        for lab in fn.order:
            for ins in fn.blocks[lab]:
                if ins.op in ('call', 'invoke') and isinstance(ins.a, L.Glob):
                    cal = self.mod.functions.get(ins.a.name)
                    if cal is not None and cal.defined:
                        self.function(ins.a.name)
        self.stack = {}        # register -> (frame word index, byte offset): pointers into this call's private frame
        self.nframe = 0
        self.rtype = {}
        params = ', '.join(['unsigned long %s' % reg(pn) for _, pn in fn.params]) or 'void'
        for lab in fn.order:
            body.append('L_%s: ;' % ''.join(ch if ch.isalnum() else '_' for ch in lab))
            for ins in fn.blocks[lab]:
                body += self.instr(fn, lab, ins, decls)
        self.out.append('unsigned long %s(%s){' % (cname(name), params))
        if self.nframe:
            self.out.append('  unsigned long F[%d];' % self.nframe)
        for d in sorted(decls):
            self.out.append('  %s %s = 0;' % (self.rtype.get(d, 'unsigned long'), d))
        self.out.append('  goto L_%s;' % ''.join(ch if ch.isalnum() else '_' for ch in fn.entry))
        self.out += ['  ' + b for b in body]
        self.out.append('}')

    def goto(self, fn, cur, target):
        """phi copies for the edge cur -> target, then goto"""
        blk = fn.blocks[target]
        copies = []
        k = 0
        while blk[k].op == 'phi':
            p = blk[k]
            copies.append((reg(p.dst), self.val(p.ty, p.a[cur])))
            k += 1
        lab = 'L_' + ''.join(ch if ch.isalnum() else '_' for ch in target)
        if not copies:
            return 'goto %s;' % lab
        s = '{ '
        for i, (d, v) in enumerate(copies):
            s += 'unsigned long t%d = %s; ' % (i, v)
        for i, (d, v) in enumerate(copies):
            s += '%s = t%d; ' % (d, i)
        return s + 'goto %s; }' % lab

    def instr(self, fn, lab, ins, decls):
        op = ins.op
        d = reg(ins.dst) if ins.dst is not None else None
        if d:
            decls.add(d)
            try:
                rt = ins.ty
                if op == 'icmp':
                    rt = L.I1
                if op == 'getelementptr':
                    rt = L.I64
                b_ = self.bits(rt) if rt is not None else 64
                self.rtype[d] = 'unsigned long' if b_ > 32 else ('unsigned int' if b_ > 8 else 'unsigned char')
            except Unsupported:
                pass
        o = []
        if op == 'phi':
            return o
        if op == 'alloca':
            size = (L.size_of(ins.ty) + 7) // 8
            if ins.a is not None:
                raise Unsupported('variable alloca')
            self.stack[ins.dst] = (self.nframe, 0)
            self.nframe += size
            decls.discard(d)
        elif op == 'getelementptr':
            base = ins.a[0][1]
            if isinstance(base, L.Reg) and base.name in self.stack:
                # constant offset into the private frame
                off = 0
                t = ins.ty
                first = True
                for (ity, iv) in ins.a[1:]:
                    if not isinstance(iv, L.CInt):
                        raise Unsupported('variable index into a stack object')
                    if first:
                        first = False
                        off += iv.v * L.size_of(t)
                        continue
                    t = L.res(t)
                    if isinstance(t, L.StructT):
                        off += L.struct_layout(t)[0][iv.v]
                        t = t.elems[iv.v]
                    else:
                        t = t.elem
                        off += iv.v * L.size_of(t)
                w, o0 = self.stack[base.name]
                self.stack[ins.dst] = (w, o0 + off)
                decls.discard(d)
            else:
                o.append('%s = %s;' % (d, self.gep(ins.ty, self.val(ins.a[0][0], ins.a[0][1]), ins.a[1:])))
        elif op in ('bitcast', 'ptrtoint', 'inttoptr'):
            if isinstance(ins.a, L.Reg) and ins.a.name in self.stack:
                if op != 'bitcast':
                    raise Unsupported('stack address escapes to an integer')
                self.stack[ins.dst] = self.stack[ins.a.name]
                decls.discard(d)
            else:
                o.append('%s = %s;' % (d, self.val(ins.b, ins.a)))
        elif op == 'zext':
            o.append('%s = %s;' % (d, self.mask(self.val(ins.b, ins.a), self.bits(ins.b))))
        elif op == 'trunc':
            o.append('%s = %s;' % (d, self.mask(self.val(ins.b, ins.a), self.bits(ins.ty))))
        elif op == 'sext':
            fb = self.bits(ins.b)
            if fb == 32:
                o.append('%s = %s;' % (d, self.mask('(unsigned long)(long)(int)(%s)' % self.val(ins.b, ins.a), self.bits(ins.ty))))
            elif fb == 1:
                o.append('%s = %s;' % (d, self.mask('(%s) ? ~0UL : 0UL' % self.val(ins.b, ins.a), self.bits(ins.ty))))
            else:
                raise Unsupported('sext from %d' % fb)
        elif op == 'load':
            if isinstance(ins.a, L.Reg) and ins.a.name in self.stack:
                o.append('%s = %s;' % (d, self.fload(ins.ty, self.stack[ins.a.name])))
            else:
                o.append('%s = %s;' % (d, self.load(ins.ty, self.val(None, ins.a))))
        elif op == 'store':
            if isinstance(ins.a, L.Reg) and ins.a.name in self.stack:
                raise Unsupported('stack address stored to memory')
            if isinstance(ins.b, L.Reg) and ins.b.name in self.stack:
                o.append(self.fstore(ins.ty, self.stack[ins.b.name], self.val(ins.ty, ins.a)))
            else:
                o.append(self.store(ins.ty, self.val(None, ins.b), self.val(ins.ty, ins.a)))
        elif op in ('add', 'sub', 'mul', 'and', 'or', 'xor', 'shl', 'lshr'):
            b = self.bits(ins.ty)
            c = {'add': '+', 'sub': '-', 'mul': '*', 'and': '&', 'or': '|', 'xor': '^', 'shl': '<<', 'lshr': '>>'}[op]
            o.append('%s = %s;' % (d, self.mask('(%s) %s (%s)' % (self.val(ins.ty, ins.a), c, self.val(ins.ty, ins.b)), b)))
        elif op in ('udiv', 'urem'):
            c = '/' if op == 'udiv' else '%'
            o.append('%s = (%s) %s (%s);' % (d, self.val(ins.ty, ins.a), c, self.val(ins.ty, ins.b)))
        elif op in ('sdiv', 'ashr'):
            b = self.bits(ins.ty)
            if b != 64:
                raise Unsupported('%s width %d' % (op, b))
            c = '/' if op == 'sdiv' else '>>'
            o.append('%s = (unsigned long)((long)(%s) %s (long)(%s));' % (d, self.val(ins.ty, ins.a), c, self.val(ins.ty, ins.b)))
        elif op == 'icmp':
            b = self.bits(ins.ty)
            a_, b_ = self.val(ins.ty, ins.a), self.val(ins.ty, ins.b)
            p = ins.x
            if p[0] == 's':
                cast = '(long)' if b == 64 else '(int)'
                a_, b_ = cast + '(' + a_ + ')', cast + '(' + b_ + ')'
                p = p[1:]
            elif p[0] == 'u':
                p = p[1:]
            c = {'eq': '==', 'ne': '!=', 'gt': '>', 'ge': '>=', 'lt': '<', 'le': '<='}[p]
            o.append('%s = ((%s) %s (%s)) ? 1UL : 0UL;' % (d, a_, c, b_))
        elif op == 'select':
            o.append('%s = (%s) ? (%s) : (%s);' % (d, self.val(L.I1, ins.c), self.val(ins.ty, ins.a), self.val(ins.ty, ins.b)))
        elif op == 'br':
            if ins.c is None:
                o.append(self.goto(fn, lab, ins.a))
            else:
                o.append('if(%s) %s else %s' % (self.val(L.I1, ins.c), self.goto(fn, lab, ins.a), self.goto(fn, lab, ins.b)))
        elif op == 'ret':
            o.append('return %s;' % (self.val(ins.ty, ins.a) if ins.a is not None else '0UL'))
        elif op == 'unreachable':
            o.append('__CPROVER_assert(0, "unreachable executed"); return 0UL;')
        elif op == 'call':
            name = ins.a.name if isinstance(ins.a, L.Glob) else None
            if name is None:
                raise Unsupported('indirect call')
            if name.startswith('llvm.lifetime') or name.startswith('llvm.dbg') or name.startswith('llvm.experimental.noalias'):
                return o

            def lv(k):
                """lvalue of the 8-byte object a pointer argument designates (private frame word or shared memory word)"""
                v = ins.b[k][1]
                if isinstance(v, L.Reg) and v.name in self.stack:
                    w, off = self.stack[v.name]
                    if off:
                        raise Unsupported('unaligned atomic operand in the frame')
                    return ('F', 'F[%d]' % w)
                return ('M', self.val(ins.b[k][0], v))
            if name in ('__atomic_load', '__atomic_store', '__atomic_compare_exchange'):
                args = [None] * len(ins.b)
            else:
                for (t_, v_) in ins.b:
                    if isinstance(v_, L.Reg) and v_.name in self.stack:
                        raise Unsupported('stack address passed to %s' % name)
                args = [self.val(t, v) for t, v in ins.b]
            if name.startswith('llvm.lifetime') or name.startswith('llvm.dbg') or name.startswith('llvm.experimental.noalias'):
                return o
            hook = self.atomic_hook
            def rd(x):
                return x[1] if x[0] == 'F' else 'RD(%s)' % x[1]

            def wr(x, v):
                return ('%s = %s;' % (x[1], v)) if x[0] == 'F' else 'WR(%s, %s);' % (x[1], v)
            if name == '__atomic_load':
                o.append('__CPROVER_atomic_begin(); %s %s __CPROVER_atomic_end();' % (wr(lv(2), rd(lv(1))), hook))
            elif name == '__atomic_store':
                o.append('__CPROVER_atomic_begin(); %s %s __CPROVER_atomic_end();' % (wr(lv(1), rd(lv(2))), hook))
            elif name == '__atomic_compare_exchange':
                o.append('__CPROVER_atomic_begin(); { unsigned long cur_ = %s; if(cur_ == %s){ %s %s = 1; } else { %s %s = 0; } } %s __CPROVER_atomic_end();' % (
                    rd(lv(1)), rd(lv(2)), wr(lv(1), rd(lv(3))), d, wr(lv(2), 'cur_'), d, hook))
            elif name.startswith('llvm.memcpy') or name.startswith('llvm.memmove'):
                n = ins.b[2][1]
                if not isinstance(n, L.CInt) or n.v % 8:
                    raise Unsupported('memcpy length')
                for k in range(n.v // 8):
                    o.append('WR((%s)+%dUL, RD((%s)+%dUL));' % (args[0], 8 * k, args[1], 8 * k))
            else:
                cal = self.mod.functions.get(name)
                if cal is None or not cal.defined:
                    raise Unsupported('call to external %s' % name)
                call = '%s(%s)' % (cname(name), ', '.join(args))
                o.append(('%s = %s;' % (d, call)) if d else (call + ';'))
        elif op == 'cmpxchg':
            raise Unsupported('cmpxchg instruction (extend the translator)')
        else:
            raise Unsupported('instruction %s' % op)
        return o

    def translate(self, entry_points):
        for e in entry_points:
            self.function(e)
        return '\n'.join(self.out)


def memory_prelude(base, nbytes):
    """shared memory as scalar words with switch accessors: constant addresses resolve to a single variable during symbolic
    execution, data-dependent addresses (entries[index]) to a guarded choice among the candidate words"""
    nw = (nbytes + 7) // 8
    w0 = base // 8
    out = ['unsigned long %s;' % ', '.join('W%d' % (w0 + k) for k in range(nw))]
    out.append('unsigned long RD(unsigned long a){ switch(a>>3){')
    for k in range(nw):
        out.append('  case %dUL: return W%d;' % (w0 + k, w0 + k))
    out.append('  default: __CPROVER_assert(0, "shared load outside the cache object"); return 0UL; } }')
    out.append('void WR(unsigned long a, unsigned long v){ switch(a>>3){')
    for k in range(nw):
        out.append('  case %dUL: W%d = v; return;' % (w0 + k, w0 + k))
    out.append('  default: __CPROVER_assert(0, "shared store outside the cache object"); return; } }')
    # the object lives in storage of arbitrary prior content: the constructor must establish everything the operations rely on
    out.append('unsigned long nondet_ulong(void);')
    out.append('void HAVOC(void){ %s }' % ' '.join('W%d = nondet_ulong();' % (w0 + k) for k in range(nw)))
    return '\n'.join(out)
