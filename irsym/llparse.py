"""Parser for the textual LLVM-14 IR subset that clang-14 emits for SQuIDS (typed pointers).

Function bodies are parsed lazily (on first call).  Unknown constructs raise ParseError -- nothing is
silently skipped.
"""
import re, struct
from fractions import Fraction


class ParseError(Exception):
    pass


# ------------------------------------------------------------------------------------------ types
class Ty:
    __slots__ = ()


class IntT(Ty):
    __slots__ = ('bits',)
    _cache = {}

    def __new__(cls, bits):
        o = cls._cache.get(bits)
        if o is None:
            o = object.__new__(cls)
            o.bits = bits
            cls._cache[bits] = o
        return o

    def __repr__(self):
        return 'i%d' % self.bits


class FloatT(Ty):
    __slots__ = ('kind',)
    _cache = {}

    def __new__(cls, kind):
        o = cls._cache.get(kind)
        if o is None:
            o = object.__new__(cls)
            o.kind = kind
            cls._cache[kind] = o
        return o

    def __repr__(self):
        return self.kind


class VoidT(Ty):
    def __repr__(self):
        return 'void'


class LabelT(Ty):
    def __repr__(self):
        return 'label'


class MetaT(Ty):
    def __repr__(self):
        return 'metadata'


class PtrT(Ty):
    __slots__ = ('to',)

    def __init__(self, to):
        self.to = to

    def __repr__(self):
        return '%r*' % (self.to,)


class ArrayT(Ty):
    __slots__ = ('n', 'elem')

    def __init__(self, n, elem):
        self.n = n
        self.elem = elem

    def __repr__(self):
        return '[%d x %r]' % (self.n, self.elem)


class VecT(Ty):
    __slots__ = ('n', 'elem')

    def __init__(self, n, elem):
        self.n = n
        self.elem = elem

    def __repr__(self):
        return '<%d x %r>' % (self.n, self.elem)


class StructT(Ty):
    __slots__ = ('elems', 'packed', '_layout')

    def __init__(self, elems, packed):
        self.elems = elems
        self.packed = packed
        self._layout = None

    def __repr__(self):
        return ('<{%s}>' if self.packed else '{%s}') % ', '.join(map(repr, self.elems))


class NamedT(Ty):
    __slots__ = ('name', 'mod')

    def __init__(self, name, mod):
        self.name = name
        self.mod = mod

    def resolve(self):
        t = self.mod.types.get(self.name)
        if t is None:
            raise ParseError('opaque or unknown type %s' % self.name)
        return t

    def __repr__(self):
        return '%' + self.name


class FuncT(Ty):
    __slots__ = ('ret', 'params', 'vararg')

    def __init__(self, ret, params, vararg):
        self.ret = ret
        self.params = params
        self.vararg = vararg

    def __repr__(self):
        return '%r (%s%s)' % (self.ret, ', '.join(map(repr, self.params)), ', ...' if self.vararg else '')


VOID = VoidT()
LABEL = LabelT()
META = MetaT()
I1, I8, I32, I64 = IntT(1), IntT(8), IntT(32), IntT(64)
DOUBLE = FloatT('double')
FLOAT = FloatT('float')


def res(t):
    while isinstance(t, NamedT):
        t = t.resolve()
    return t


def align_of(t):
    t = res(t)
    if isinstance(t, IntT):
        if t.bits <= 8:
            return 1
        if t.bits <= 16:
            return 2
        if t.bits <= 32:
            return 4
        if t.bits <= 64:
            return 8
        return 16
    if isinstance(t, FloatT):
        return {'double': 8, 'float': 4, 'x86_fp80': 16, 'half': 2, 'fp128': 16}[t.kind]
    if isinstance(t, PtrT):
        return 8
    if isinstance(t, ArrayT):
        return align_of(t.elem)
    if isinstance(t, VecT):
        return min(size_of(t), 16) or 1
    if isinstance(t, StructT):
        if t.packed:
            return 1
        return max([align_of(e) for e in t.elems] or [1])
    raise ParseError('align_of %r' % (t,))


def size_of(t):
    t = res(t)
    if isinstance(t, IntT):
        if t.bits <= 8:
            return 1
        if t.bits <= 16:
            return 2
        if t.bits <= 32:
            return 4
        if t.bits <= 64:
            return 8
        return 16
    if isinstance(t, FloatT):
        return {'double': 8, 'float': 4, 'x86_fp80': 16, 'half': 2, 'fp128': 16}[t.kind]
    if isinstance(t, PtrT):
        return 8
    if isinstance(t, ArrayT):
        return t.n * size_of(t.elem)
    if isinstance(t, VecT):
        return t.n * size_of(t.elem)
    if isinstance(t, StructT):
        return struct_layout(t)[1]
    raise ParseError('size_of %r' % (t,))


def struct_layout(t):
    """-> (offsets list, total size)"""
    if t._layout is None:
        off = 0
        offs = []
        mx = 1
        for e in t.elems:
            a = 1 if t.packed else align_of(e)
            mx = max(mx, a)
            off = (off + a - 1) // a * a
            offs.append(off)
            off += size_of(e)
        if not t.packed:
            off = (off + mx - 1) // mx * mx
        t._layout = (offs, off)
    return t._layout


# ------------------------------------------------------------------------------------------ values
class Reg:
    __slots__ = ('name',)

    def __init__(self, name):
        self.name = name

    def __repr__(self):
        return '%' + self.name


class Glob:
    __slots__ = ('name',)

    def __init__(self, name):
        self.name = name

    def __repr__(self):
        return '@' + self.name


class CInt:
    __slots__ = ('v',)

    def __init__(self, v):
        self.v = v

    def __repr__(self):
        return str(self.v)


class CFloat:
    """a double constant: python float (exact)"""
    __slots__ = ('v',)

    def __init__(self, v):
        self.v = v

    def __repr__(self):
        return repr(self.v)


class CNull:
    def __repr__(self):
        return 'null'


class CUndef:
    def __repr__(self):
        return 'undef'


class CZero:
    def __repr__(self):
        return 'zeroinitializer'


class CAgg:
    """array/struct constant: list of (type, value)"""
    __slots__ = ('kind', 'elems')

    def __init__(self, kind, elems):
        self.kind = kind
        self.elems = elems

    def __repr__(self):
        return '%s%r' % (self.kind, self.elems)


class CStr:
    __slots__ = ('data',)

    def __init__(self, data):
        self.data = data


class CExpr:
    __slots__ = ('op', 'args', 'ty', 'extra')

    def __init__(self, op, args, ty=None, extra=None):
        self.op = op
        self.args = args      # list of (type, value)
        self.ty = ty          # result type for casts / source elem type for gep
        self.extra = extra

    def __repr__(self):
        return '%s(%r)' % (self.op, self.args)


class MetaV:
    def __repr__(self):
        return 'meta'


NULL = CNull()
UNDEF = CUndef()
ZERO = CZero()
METAV = MetaV()

# ------------------------------------------------------------------------------------------ lexer
TOK = re.compile(r'''
    \s+
  | ;[^\n]*
  | (?P<lname>%(?:"(?:[^"\\]|\\.)*"|[-a-zA-Z$._0-9]+))
  | (?P<gname>@(?:"(?:[^"\\]|\\.)*"|[-a-zA-Z$._0-9]+))
  | (?P<cstr>c"(?:[^"\\]|\\.)*")
  | (?P<str>"(?:[^"\\]|\\.)*")
  | (?P<meta>!(?:[-a-zA-Z$._0-9]+|"(?:[^"\\]|\\.)*")?)
  | (?P<attr>\#\d+)
  | (?P<comdat>\$(?:"(?:[^"\\]|\\.)*"|[-a-zA-Z$._0-9]+))
  | (?P<hex>0x[KMLHR]?[0-9A-Fa-f]+)
  | (?P<flt>[-+]?\d+\.\d*(?:[eE][-+]?\d+)?)
  | (?P<int>-?\d+)
  | (?P<dots>\.\.\.)
  | (?P<id>[a-zA-Z_][a-zA-Z0-9_.]*)
  | (?P<p>[()\[\]{}<>,=*:|])
''', re.X)


def lex(s):
    out = []
    pos = 0
    n = len(s)
    m = TOK.match
    while pos < n:
        mo = m(s, pos)
        if mo is None:
            raise ParseError('lex error at %r' % s[pos:pos + 40])
        k = mo.lastgroup
        if k is not None:
            out.append((k, mo.group(k)))
        pos = mo.end()
    return out


def unq(name):
    """strip sigil and quotes from %name / @name"""
    name = name[1:]
    if name.startswith('"'):
        name = name[1:-1]
        name = re.sub(r'\\([0-9A-Fa-f]{2})', lambda m: chr(int(m.group(1), 16)), name)
    return name


def cstr_bytes(tok):
    s = tok[2:-1]
    out = bytearray()
    i = 0
    while i < len(s):
        ch = s[i]
        if ch == '\\':
            if s[i + 1] == '\\':
                out.append(92)
                i += 2
            else:
                out.append(int(s[i + 1:i + 3], 16))
                i += 3
        else:
            out.append(ord(ch))
            i += 1
    return bytes(out)


PARAM_ATTRS = {
    'noundef', 'nonnull', 'noalias', 'nocapture', 'readonly', 'writeonly', 'readnone', 'signext', 'zeroext',
    'returned', 'inreg', 'nest', 'immarg', 'nofree', 'swiftself', 'swifterror', 'inalloca', 'noreturn'}
PARAM_ATTRS_ARG = {'align', 'dereferenceable', 'dereferenceable_or_null', 'sret', 'byval', 'byref', 'preallocated',
                   'elementtype'}
FMF = {'fast', 'nnan', 'ninf', 'nsz', 'arcp', 'contract', 'afn', 'reassoc'}
CCONV = {'ccc', 'fastcc', 'coldcc'}
LINKAGE = {'private', 'internal', 'available_externally', 'linkonce', 'weak', 'common', 'appending', 'extern_weak',
           'linkonce_odr', 'weak_odr', 'external', 'dso_local', 'dso_preemptable', 'default', 'hidden', 'protected',
           'unnamed_addr', 'local_unnamed_addr', 'dllimport', 'dllexport'}
CASTS = {'bitcast', 'ptrtoint', 'inttoptr', 'trunc', 'zext', 'sext', 'fptosi', 'fptoui', 'sitofp', 'uitofp', 'fpext',
         'fptrunc', 'addrspacecast'}
BINOPS = {'add', 'sub', 'mul', 'udiv', 'sdiv', 'urem', 'srem', 'and', 'or', 'xor', 'shl', 'lshr', 'ashr',
          'fadd', 'fsub', 'fmul', 'fdiv', 'frem'}


class P:
    """token stream cursor"""

    def __init__(self, toks, mod):
        self.t = toks
        self.i = 0
        self.mod = mod

    def peek(self, k=0):
        j = self.i + k
        return self.t[j] if j < len(self.t) else (None, None)

    def next(self):
        tk = self.t[self.i]
        self.i += 1
        return tk

    def at_end(self):
        return self.i >= len(self.t)

    def accept(self, val):
        if self.i < len(self.t) and self.t[self.i][1] == val:
            self.i += 1
            return True
        return False

    def expect(self, val):
        if not self.accept(val):
            raise ParseError('expected %r, got %r (ctx %r)' % (val, self.peek(), self.t[max(0, self.i - 6):self.i + 4]))

    # ---- types
    def parse_type(self):
        k, v = self.next()
        if k == 'id':
            if v[0] == 'i' and v[1:].isdigit():
                t = IntT(int(v[1:]))
            elif v in ('double', 'float', 'x86_fp80', 'half', 'fp128'):
                t = FloatT(v)
            elif v == 'void':
                t = VOID
            elif v == 'label':
                t = LABEL
            elif v == 'metadata':
                t = META
            elif v == 'opaque':
                t = None
            elif v == 'ptr':
                raise ParseError('opaque pointers not supported')
            else:
                raise ParseError('unknown type keyword %r' % v)
        elif k == 'lname':
            t = NamedT(unq(v), self.mod)
        elif v == '[':
            n = int(self.next()[1])
            self.expect('x')
            e = self.parse_type()
            self.expect(']')
            t = ArrayT(n, e)
        elif v == '{':
            t = StructT(self._type_list('}'), False)
        elif v == '<':
            if self.accept('{'):
                el = self._type_list('}')
                self.expect('>')
                t = StructT(el, True)
            else:
                n = int(self.next()[1])
                self.expect('x')
                e = self.parse_type()
                self.expect('>')
                t = VecT(n, e)
        else:
            raise ParseError('bad type start %r' % ((k, v),))
        # suffixes
        while True:
            k, v = self.peek()
            if v == '*':
                self.i += 1
                t = PtrT(t)
            elif v == '(' and k == 'p':
                self.i += 1
                params = []
                vararg = False
                if not self.accept(')'):
                    while True:
                        if self.peek()[0] == 'dots':
                            self.i += 1
                            vararg = True
                        else:
                            params.append(self.parse_type())
                            self.skip_param_attrs()
                        if self.accept(')'):
                            break
                        self.expect(',')
                t = FuncT(t, params, vararg)
            elif k == 'id' and v == 'addrspace':
                raise ParseError('addrspace')
            else:
                break
        return t

    def _type_list(self, close):
        out = []
        if self.accept(close):
            return out
        while True:
            out.append(self.parse_type())
            if self.accept(close):
                return out
            self.expect(',')

    def skip_param_attrs(self):
        while True:
            k, v = self.peek()
            if k == 'id' and v in PARAM_ATTRS:
                self.i += 1
            elif k == 'id' and v in PARAM_ATTRS_ARG:
                self.i += 1
                if self.accept('('):
                    depth = 1
                    while depth:
                        kk, vv = self.next()
                        if vv == '(':
                            depth += 1
                        elif vv == ')':
                            depth -= 1
                else:
                    self.i += 1  # align N
            else:
                break

    # ---- values
    def parse_value(self, ty):
        k, v = self.next()
        if k == 'lname':
            return Reg(unq(v))
        if k == 'gname':
            return Glob(unq(v))
        if k == 'int':
            rt = res(ty) if ty is not None else None
            if isinstance(rt, FloatT):
                return CFloat(float(v))
            return CInt(int(v))
        if k == 'flt':
            return CFloat(float(v))
        if k == 'hex':
            if v[2] in 'KMLHR':
                if v[2] == 'K':   # x86_fp80: 20 hex digits
                    return CFloat(_fp80(v[3:]))
                raise ParseError('hex float kind %s' % v)
            bits = int(v[2:], 16)
            rt = res(ty) if ty is not None else None
            if isinstance(rt, FloatT) and rt.kind == 'float':
                return CFloat(struct.unpack('<d', struct.pack('<Q', bits))[0])
            return CFloat(struct.unpack('<d', struct.pack('<Q', bits))[0])
        if k == 'cstr':
            return CStr(cstr_bytes(v))
        if k == 'meta':
            # metadata operand: !N or !{...} or !DIExpression(...)
            if self.peek()[1] == '{':
                self._skip_balanced('{', '}')
            return METAV
        if k == 'id':
            if v == 'true':
                return CInt(1)
            if v == 'false':
                return CInt(0)
            if v == 'null':
                return NULL
            if v in ('undef', 'poison'):
                return UNDEF
            if v == 'zeroinitializer':
                return ZERO
            if v == 'none':
                return NULL
            if v == 'getelementptr':
                inb = self.accept('inbounds')
                self.expect('(')
                sty = self.parse_type()
                self.expect(',')
                args = [self.parse_tv()]
                while self.accept(','):
                    self.accept('inrange')
                    args.append(self.parse_tv())
                self.expect(')')
                return CExpr('getelementptr', args, sty)
            if v in CASTS:
                self.expect('(')
                a = self.parse_tv()
                self.expect('to')
                t2 = self.parse_type()
                self.expect(')')
                return CExpr(v, [a], t2)
            if v in BINOPS:
                while self.peek()[1] in ('nuw', 'nsw', 'exact'):
                    self.i += 1
                self.expect('(')
                a = self.parse_tv()
                self.expect(',')
                b = self.parse_tv()
                self.expect(')')
                return CExpr(v, [a, b])
            if v == 'icmp':
                pred = self.next()[1]
                self.expect('(')
                a = self.parse_tv()
                self.expect(',')
                b = self.parse_tv()
                self.expect(')')
                return CExpr('icmp', [a, b], None, pred)
            if v == 'select':
                self.expect('(')
                a = self.parse_tv()
                self.expect(',')
                b = self.parse_tv()
                self.expect(',')
                c = self.parse_tv()
                self.expect(')')
                return CExpr('select', [a, b, c])
            raise ParseError('unknown value keyword %r' % v)
        if v == '[':
            el = []
            if not self.accept(']'):
                while True:
                    el.append(self.parse_tv())
                    if self.accept(']'):
                        break
                    self.expect(',')
            return CAgg('array', el)
        if v == '{':
            el = []
            if not self.accept('}'):
                while True:
                    el.append(self.parse_tv())
                    if self.accept('}'):
                        break
                    self.expect(',')
            return CAgg('struct', el)
        if v == '<':
            if self.accept('{'):
                el = []
                if not self.accept('}'):
                    while True:
                        el.append(self.parse_tv())
                        if self.accept('}'):
                            break
                        self.expect(',')
                self.expect('>')
                return CAgg('struct', el)
            el = []
            while True:
                el.append(self.parse_tv())
                if self.accept('>'):
                    break
                self.expect(',')
            return CAgg('vector', el)
        raise ParseError('bad value %r' % ((k, v),))

    def _skip_balanced(self, o, c):
        self.expect(o)
        depth = 1
        while depth:
            v = self.next()[1]
            if v == o:
                depth += 1
            elif v == c:
                depth -= 1

    def parse_tv(self):
        """typed value with optional param attrs"""
        t = self.parse_type()
        self.skip_param_attrs()
        v = self.parse_value(t)
        return (t, v)


def _fp80(h):
    v = int(h, 16)
    sign = (v >> 79) & 1
    e = (v >> 64) & 0x7fff
    m = v & ((1 << 64) - 1)
    if e == 0 and m == 0:
        return -0.0 if sign else 0.0
    val = float(Fraction(m, 1 << 63) * (Fraction(2) ** (e - 16383)))
    return -val if sign else val


# ------------------------------------------------------------------------------------------ instructions
class Ins:
    __slots__ = ('op', 'dst', 'ty', 'a', 'b', 'c', 'x', 'line')

    def __init__(self, op, dst=None, ty=None, a=None, b=None, c=None, x=None, line=None):
        self.op = op
        self.dst = dst
        self.ty = ty
        self.a = a
        self.b = b
        self.c = c
        self.x = x
        self.line = line

    def __repr__(self):
        return 'Ins(%s dst=%s) <%s>' % (self.op, self.dst, (self.line or '').strip()[:120])


class Function:
    def __init__(self, mod, name, ret, params, vararg, lines, linkage):
        self.mod = mod
        self.name = name
        self.ret = ret
        self.params = params       # list of (type, regname)
        self.vararg = vararg
        self.lines = lines         # raw body lines or None (declaration)
        self.linkage = linkage
        self.blocks = None         # label -> list[Ins]
        self.entry = None
        self.order = None

    @property
    def defined(self):
        return self.lines is not None

    def parse_body(self):
        if self.blocks is not None:
            return
        blocks = {}
        order = []
        cur = None
        # implicit entry label: number after params
        nparams_unnamed = 0
        for (_, rn) in self.params:
            pass
        pending = None
        i = 0
        lines = self.lines
        n = len(lines)
        first_label = None
        while i < n:
            ln = lines[i]
            i += 1
            s = ln.strip()
            if not s or s.startswith(';'):
                continue
            m = re.match(r'^((?:"(?:[^"\\]|\\.)*"|[-a-zA-Z$._0-9]+)):', s)
            if m and not ln.startswith('  '):
                lab = m.group(1)
                if lab.startswith('"'):
                    lab = lab[1:-1]
                cur = []
                blocks[lab] = cur
                order.append(lab)
                continue
            if cur is None:
                lab = self._entry_label()
                cur = []
                blocks[lab] = cur
                order.append(lab)
            # join continuation lines (invoke ... \n to label, switch [...], landingpad clauses)
            while i < n:
                nxt = lines[i].strip()
                if s.endswith('[') or nxt.startswith(('to label', 'catch ', 'cleanup', 'filter ', ']')) or \
                        (self._open_switch(s)):
                    s = s + ' ' + nxt
                    i += 1
                else:
                    break
            cur.append(parse_instruction(s, self.mod))
        self.blocks = blocks
        self.order = order
        self.entry = order[0]

    @staticmethod
    def _open_switch(s):
        return s.startswith('switch') and s.count('[') > s.count(']')

    def _entry_label(self):
        # unnamed entry block gets the next number after unnamed params
        k = 0
        for (_, rn) in self.params:
            if rn.isdigit():
                k = max(k, int(rn) + 1)
        # if all params named, first unnamed is 0
        return str(k)


def parse_instruction(s, mod):
    toks = lex(s)
    p = P(toks, mod)
    dst = None
    if p.peek()[0] == 'lname' and p.peek(1)[1] == '=':
        dst = unq(p.next()[1])
        p.next()
    k, op = p.next()
    while op in ('tail', 'musttail', 'notail'):
        k, op = p.next()
    ins = Ins(op, dst, line=s)
    if op in BINOPS:
        while p.peek()[1] in ('nuw', 'nsw', 'exact') or p.peek()[1] in FMF:
            fl = p.next()[1]
            if fl in ('nuw', 'nsw', 'exact'):
                ins.x = (ins.x or ()) + (fl,)
        ins.ty = p.parse_type()
        ins.a = p.parse_value(ins.ty)
        p.expect(',')
        ins.b = p.parse_value(ins.ty)
    elif op == 'fneg':
        while p.peek()[1] in FMF:
            p.next()
        ins.ty = p.parse_type()
        ins.a = p.parse_value(ins.ty)
    elif op == 'load':
        if p.accept('atomic'):
            ins.x = 'atomic'
        p.accept('volatile')
        ins.ty = p.parse_type()
        p.expect(',')
        pt = p.parse_type()
        ins.a = p.parse_value(pt)
    elif op == 'store':
        if p.accept('atomic'):
            ins.x = 'atomic'
        p.accept('volatile')
        ins.ty = p.parse_type()
        ins.a = p.parse_value(ins.ty)
        p.expect(',')
        pt = p.parse_type()
        ins.b = p.parse_value(pt)
    elif op == 'getelementptr':
        p.accept('inbounds')
        ins.ty = p.parse_type()
        p.expect(',')
        args = [p.parse_tv()]
        while p.accept(','):
            if p.peek()[0] == 'meta':
                break
            args.append(p.parse_tv())
        ins.a = args
    elif op in CASTS:
        t1 = p.parse_type()
        ins.a = p.parse_value(t1)
        ins.b = t1
        p.expect('to')
        ins.ty = p.parse_type()
    elif op == 'icmp' or op == 'fcmp':
        while p.peek()[1] in FMF:
            p.next()
        ins.x = p.next()[1]
        ins.ty = p.parse_type()
        ins.a = p.parse_value(ins.ty)
        p.expect(',')
        ins.b = p.parse_value(ins.ty)
    elif op == 'br':
        if p.accept('label'):
            ins.a = unq(p.next()[1])
        else:
            t = p.parse_type()
            ins.c = p.parse_value(t)
            p.expect(',')
            p.expect('label')
            ins.a = unq(p.next()[1])
            p.expect(',')
            p.expect('label')
            ins.b = unq(p.next()[1])
    elif op == 'switch':
        t = p.parse_type()
        ins.ty = t
        ins.a = p.parse_value(t)
        p.expect(',')
        p.expect('label')
        ins.b = unq(p.next()[1])
        p.expect('[')
        cases = []
        while not p.accept(']'):
            ct = p.parse_type()
            cv = p.parse_value(ct)
            p.expect(',')
            p.expect('label')
            cases.append((cv.v, unq(p.next()[1])))
        ins.c = cases
    elif op == 'ret':
        t = p.parse_type()
        ins.ty = t
        if t is not VOID:
            ins.a = p.parse_value(t)
    elif op == 'alloca':
        p.accept('inalloca')
        ins.ty = p.parse_type()
        ins.a = None
        ins.x = 1
        while p.accept(','):
            if p.accept('align'):
                ins.x = int(p.next()[1])
            elif p.peek()[0] == 'meta':
                break
            else:
                ct = p.parse_type()
                ins.a = (ct, p.parse_value(ct))
    elif op == 'phi':
        while p.peek()[1] in FMF:
            p.next()
        ins.ty = p.parse_type()
        inc = []
        while True:
            p.expect('[')
            v = p.parse_value(ins.ty)
            p.expect(',')
            lab = unq(p.next()[1])
            p.expect(']')
            inc.append((lab, v))
            if not p.accept(','):
                break
            if p.peek()[0] == 'meta':
                break
        ins.a = dict(inc)
    elif op == 'select':
        while p.peek()[1] in FMF:
            p.next()
        ct = p.parse_type()
        ins.c = p.parse_value(ct)
        p.expect(',')
        ins.ty = p.parse_type()
        ins.a = p.parse_value(ins.ty)
        p.expect(',')
        t2 = p.parse_type()
        ins.b = p.parse_value(t2)
    elif op in ('call', 'invoke'):
        while p.peek()[1] in FMF or p.peek()[1] in CCONV:
            p.next()
        p.skip_param_attrs()
        t = p.parse_type()
        if isinstance(t, FuncT):
            ins.ty = t.ret
        else:
            ins.ty = t
        ins.a = p.parse_value(None)   # callee
        p.expect('(')
        args = []
        if not p.accept(')'):
            while True:
                args.append(p.parse_tv())
                if p.accept(')'):
                    break
                p.expect(',')
        ins.b = args
        if op == 'call' and '[ "' in s:
            # operand bundles, e.g.  [ "align"(i8* %p, i64 32) ]  on llvm.assume
            bundles = []
            while not p.at_end() and p.peek()[1] != '[':
                p.next()
            if p.accept('['):
                while not p.accept(']'):
                    tag = p.next()[1].strip('"')
                    p.expect('(')
                    bargs = []
                    if not p.accept(')'):
                        while True:
                            bargs.append(p.parse_tv())
                            if p.accept(')'):
                                break
                            p.expect(',')
                    bundles.append((tag, bargs))
                    p.accept(',')
            ins.x = bundles
        if op == 'invoke':
            # skip fn attrs up to 'to'
            while p.peek()[1] != 'to':
                p.next()
            p.expect('to')
            p.expect('label')
            normal = unq(p.next()[1])
            p.expect('unwind')
            p.expect('label')
            unwind = unq(p.next()[1])
            ins.c = (normal, unwind)
    elif op == 'landingpad':
        ins.ty = p.parse_type()
        clauses = []
        cleanup = False
        while not p.at_end():
            k2, v2 = p.peek()
            if v2 == 'cleanup':
                p.next()
                cleanup = True
            elif v2 == 'catch':
                p.next()
                ct = p.parse_type()
                clauses.append(('catch', p.parse_value(ct)))
            elif v2 == 'filter':
                p.next()
                ct = p.parse_type()
                clauses.append(('filter', p.parse_value(ct)))
            else:
                break
        ins.a = clauses
        ins.x = cleanup
    elif op == 'resume':
        t = p.parse_type()
        ins.ty = t
        ins.a = p.parse_value(t)
    elif op == 'unreachable':
        pass
    elif op == 'extractvalue':
        t = p.parse_type()
        ins.ty = t
        ins.a = p.parse_value(t)
        idx = []
        while p.accept(','):
            if p.peek()[0] == 'meta':
                break
            idx.append(int(p.next()[1]))
        ins.b = idx
    elif op == 'insertvalue':
        t = p.parse_type()
        ins.ty = t
        ins.a = p.parse_value(t)
        p.expect(',')
        t2 = p.parse_type()
        ins.c = (t2, p.parse_value(t2))
        idx = []
        while p.accept(','):
            if p.peek()[0] == 'meta':
                break
            idx.append(int(p.next()[1]))
        ins.b = idx
    elif op == 'freeze':
        ins.ty = p.parse_type()
        ins.a = p.parse_value(ins.ty)
    elif op == 'fence':
        pass
    elif op == 'cmpxchg':
        p.accept('weak')
        p.accept('volatile')
        pt = p.parse_type()
        ins.a = p.parse_value(pt)
        p.expect(',')
        t = p.parse_type()
        ins.ty = t
        ins.b = p.parse_value(t)
        p.expect(',')
        t2 = p.parse_type()
        ins.c = p.parse_value(t2)
    elif op == 'atomicrmw':
        p.accept('volatile')
        ins.x = p.next()[1]
        pt = p.parse_type()
        ins.a = p.parse_value(pt)
        p.expect(',')
        t = p.parse_type()
        ins.ty = t
        ins.b = p.parse_value(t)
    else:
        raise ParseError('unknown instruction %r in %r' % (op, s))
    return ins


# ------------------------------------------------------------------------------------------ module
class GlobalVar:
    def __init__(self, name, ty, init, const, tls, align, external):
        self.name = name
        self.ty = ty
        self.init = init
        self.const = const
        self.tls = tls
        self.align = align
        self.external = external


class Module:
    def __init__(self):
        self.types = {}
        self.globals = {}
        self.functions = {}
        self.aliases = {}
        self.ctors = []

    @staticmethod
    def load(path):
        mod = Module()
        with open(path) as f:
            text = f.read()
        lines = text.split('\n')
        i = 0
        n = len(lines)
        while i < n:
            ln = lines[i]
            i += 1
            if not ln or ln[0] in ';!' or ln.startswith(('target', 'source_filename', 'attributes', '$', 'module asm')):
                continue
            if ln[0] == '%':
                toks = lex(ln)
                p = P(toks, mod)
                name = unq(p.next()[1])
                p.expect('=')
                p.expect('type')
                t = p.parse_type()
                mod.types[name] = t
                continue
            if ln[0] == '@':
                mod._parse_global(ln)
                continue
            if ln.startswith('declare'):
                mod._parse_fn_header(ln, None)
                continue
            if ln.startswith('define'):
                body = []
                while i < n and lines[i] != '}':
                    body.append(lines[i])
                    i += 1
                i += 1
                mod._parse_fn_header(ln, body)
                continue
            if ln.startswith('}'):
                continue
            raise ParseError('unknown top-level line: %r' % ln[:100])
        return mod

    def _parse_global(self, ln):
        toks = lex(ln)
        p = P(toks, self)
        name = unq(p.next()[1])
        p.expect('=')
        external = False
        tls = False
        const = False
        while True:
            k, v = p.peek()
            if k == 'id' and v in LINKAGE:
                if v in ('external', 'extern_weak'):
                    external = True
                p.next()
            elif k == 'id' and v == 'thread_local':
                p.next()
                tls = True
                if p.accept('('):
                    p.next()
                    p.expect(')')
            elif k == 'id' and v in ('global', 'constant', 'alias', 'ifunc'):
                break
            elif k == 'id' and v == 'externally_initialized':
                p.next()
            else:
                raise ParseError('global decl: unexpected %r in %r' % ((k, v), ln[:120]))
        kind = p.next()[1]
        if kind == 'alias':
            t = p.parse_type()
            p.expect(',')
            tv = p.parse_tv()
            self.aliases[name] = tv[1]
            return
        const = (kind == 'constant')
        ty = p.parse_type()
        init = None
        if not external:
            init = p.parse_value(ty)
        align = 1
        while p.accept(','):
            k, v = p.next()
            if v == 'align':
                align = int(p.next()[1])
            elif v in ('comdat', 'section'):
                if p.peek()[1] == '(':
                    p._skip_balanced('(', ')')
                elif p.peek()[0] == 'str':
                    p.next()
            elif k == 'meta':
                p.next()
            else:
                raise ParseError('global trailer %r in %r' % (v, ln[:100]))
        self.globals[name] = GlobalVar(name, ty, init, const, tls, align, external)

    def _parse_fn_header(self, ln, body):
        toks = lex(ln)
        p = P(toks, self)
        p.next()  # define/declare
        linkage = []
        while True:
            k, v = p.peek()
            if k == 'id' and (v in LINKAGE or v in CCONV):
                linkage.append(v)
                p.next()
            else:
                break
        p.skip_param_attrs()
        ret = p.parse_type()
        name = unq(p.next()[1])
        p.expect('(')
        params = []
        vararg = False
        idx = 0
        if not p.accept(')'):
            while True:
                if p.peek()[0] == 'dots':
                    p.next()
                    vararg = True
                else:
                    t = p.parse_type()
                    p.skip_param_attrs()
                    if p.peek()[0] == 'lname':
                        rn = unq(p.next()[1])
                    else:
                        rn = str(idx)
                    if rn.isdigit():
                        idx = int(rn) + 1
                    params.append((t, rn))
                if p.accept(')'):
                    break
                p.expect(',')
        old = self.functions.get(name)
        if old is not None and old.defined and body is None:
            return
        self.functions[name] = Function(self, name, ret, params, vararg, body, linkage)
