"""Symbolic terms (hash-consed DAG), conversion to z3, evaluation, and polynomial normal form.

Sorts: 'R' (a double, interpreted as a real / or as Float64 / or with (1+delta) rounding, at conversion time),
       ('bv', n) bit-vectors, 'B' booleans.
Concrete doubles in the R world are python Fractions (exact value of the IEEE double); concrete ints python ints.
"""
from fractions import Fraction
import math

_table = {}
_next_id = [0]


class Term:
    __slots__ = ('op', 'args', 'sort', 'id', 'aux')

    def __repr__(self):
        return show(self, 4)

    def __hash__(self):
        return self.id

    def __eq__(self, other):
        return self is other

    # no __lt__ etc: terms are compared by identity only


def mk(op, args, sort, aux=None):
    key = (op, tuple(a.id if isinstance(a, Term) else ('c', a) for a in args), sort, aux)
    t = _table.get(key)
    if t is None:
        t = Term()
        t.op = op
        t.args = tuple(args)
        t.sort = sort
        t.aux = aux
        t.id = _next_id[0]
        _next_id[0] += 1
        _table[key] = t
    return t


def is_term(x):
    return isinstance(x, Term)


def show(t, depth=3):
    if not isinstance(t, Term):
        if isinstance(t, Fraction):
            return repr(float(t))
        return repr(t)
    if t.op == 'var':
        return t.aux
    if depth == 0:
        return '...'
    return '%s(%s)' % (t.op if t.aux is None else '%s[%s]' % (t.op, t.aux), ', '.join(show(a, depth - 1) for a in t.args))


# ------------------------------------------------------------------------------------ constructors
def var(name, sort='R'):
    return mk('var', (), sort, name)


def R(x):
    """lift a concrete value to the real domain (Fraction)"""
    if isinstance(x, Term):
        return x
    if isinstance(x, Fraction):
        return x
    if isinstance(x, float):
        if x != x or x in (math.inf, -math.inf):
            return mk('special', (), 'R', repr(x))
        return Fraction(x)
    if isinstance(x, int):
        return Fraction(x)
    raise TypeError(x)


def _isc(x):
    return not isinstance(x, Term)


def fadd(a, b):
    if _isc(a) and _isc(b):
        return a + b
    if _isc(a) and a == 0:
        return b
    if _isc(b) and b == 0:
        return a
    return mk('fadd', (a, b), 'R')


def fsub(a, b):
    if _isc(a) and _isc(b):
        return a - b
    if _isc(b) and b == 0:
        return a
    return mk('fsub', (a, b), 'R')


def fmul(a, b):
    if _isc(a) and _isc(b):
        return a * b
    if _isc(a) and a == 1:
        return b
    if _isc(b) and b == 1:
        return a
    # NB: 0*x is not folded to 0 (x could be a symbolic value; in R it is 0 anyway, keep it simple & sound for R)
    if _isc(a) and a == 0:
        return Fraction(0)
    if _isc(b) and b == 0:
        return Fraction(0)
    return mk('fmul', (a, b), 'R')


def fdiv(a, b):
    if _isc(a) and _isc(b):
        if b == 0:
            return mk('special', (), 'R', 'div0')
        return a / b
    if _isc(b) and b == 1:
        return a
    return mk('fdiv', (a, b), 'R')


def fneg(a):
    if _isc(a):
        return -a
    if a.op == 'fneg':
        return a.args[0]
    return mk('fneg', (a,), 'R')


def fabs_(a):
    if _isc(a):
        return abs(a)
    return mk('fabs', (a,), 'R')


def fun(name, *args):
    """uninterpreted / libm function on reals: sin cos exp log sqrt ..."""
    return mk(name, args, 'R')


def ite(c, a, b, sort=None):
    if _isc(c):
        return a if c else b
    if a is b:
        return a
    if _isc(a) and _isc(b) and a == b and type(a) == type(b):
        return a
    if sort is None:
        sort = a.sort if isinstance(a, Term) else (b.sort if isinstance(b, Term) else None)
    if sort is None:
        if isinstance(a, Fraction):
            sort = 'R'
        elif isinstance(a, bool):
            sort = 'B'
        else:
            raise TypeError('ite on concrete ints needs an explicit sort')
    if sort == 'B':
        # boolean ite -> logic
        return bor(band(c, _tob(a)), band(bnot(c), _tob(b)))
    return mk('ite', (c, a, b), sort)


def fcmp(pred, a, b):
    """ordered comparisons (NaN excluded by assumption in R domain)"""
    if _isc(a) and _isc(b):
        return {'oeq': a == b, 'ueq': a == b, 'one': a != b, 'une': a != b, 'olt': a < b, 'ult': a < b,
                'ole': a <= b, 'ule': a <= b, 'ogt': a > b, 'ugt': a > b, 'oge': a >= b, 'uge': a >= b,
                'ord': True, 'uno': False, 'true': True, 'false': False}[pred]
    if pred in ('ord',):
        return True
    if pred in ('uno',):
        return False
    p = {'oeq': 'eq', 'ueq': 'eq', 'one': 'ne', 'une': 'ne', 'olt': 'lt', 'ult': 'lt', 'ole': 'le', 'ule': 'le',
         'ogt': 'gt', 'ugt': 'gt', 'oge': 'ge', 'uge': 'ge'}[pred]
    return mk('fcmp', (a, b), 'B', p)


def biteq(a, b):
    """bit-for-bit equality of two doubles (memcmp): distinguishes +0 and -0; in the exact-real domain it degenerates to ==.  Concrete operands are
    compared as IEEE doubles"""
    if _isc(a) and _isc(b):
        import struct
        return struct.pack('<d', float(a)) == struct.pack('<d', float(b))
    if a is b:
        return True
    return mk('biteq', (a, b), 'B')


def bnot(c):
    if _isc(c):
        return not c
    if c.op == 'not':
        return c.args[0]
    return mk('not', (c,), 'B')


def band(a, b):
    if _isc(a):
        return b if a else False
    if _isc(b):
        return a if b else False
    return mk('and', (a, b), 'B')


def bor(a, b):
    if _isc(a):
        return True if a else b
    if _isc(b):
        return True if b else a
    return mk('or', (a, b), 'B')


def bxor(a, b):
    if _isc(a) and _isc(b):
        return bool(a) != bool(b)
    if _isc(a):
        return bnot(b) if a else b
    if _isc(b):
        return bnot(a) if b else a
    return mk('xor', (a, b), 'B')


# ---- bit-vectors
def mask(v, bits):
    return v & ((1 << bits) - 1)


def tosigned(v, bits):
    v = mask(v, bits)
    return v - (1 << bits) if v >> (bits - 1) else v


def bvvar(name, bits):
    return mk('var', (), ('bv', bits), name)


def bvop(op, a, b, bits):
    """op in add sub mul udiv sdiv urem srem and or xor shl lshr ashr"""
    if _isc(a) and _isc(b):
        a = mask(a, bits)
        b = mask(b, bits)
        if op == 'add':
            r = a + b
        elif op == 'sub':
            r = a - b
        elif op == 'mul':
            r = a * b
        elif op == 'udiv':
            if b == 0:
                raise ZeroDivisionError('udiv by zero')
            r = a // b
        elif op == 'urem':
            if b == 0:
                raise ZeroDivisionError('urem by zero')
            r = a % b
        elif op == 'sdiv':
            sa, sb = tosigned(a, bits), tosigned(b, bits)
            if sb == 0:
                raise ZeroDivisionError('sdiv by zero')
            q = abs(sa) // abs(sb)
            r = q if (sa < 0) == (sb < 0) else -q
        elif op == 'srem':
            sa, sb = tosigned(a, bits), tosigned(b, bits)
            if sb == 0:
                raise ZeroDivisionError('srem by zero')
            q = abs(sa) % abs(sb)
            r = q if sa >= 0 else -q
        elif op == 'and':
            r = a & b
        elif op == 'or':
            r = a | b
        elif op == 'xor':
            r = a ^ b
        elif op == 'shl':
            r = a << b if b < bits else 0
        elif op == 'lshr':
            r = a >> b if b < bits else 0
        elif op == 'ashr':
            r = tosigned(a, bits) >> min(b, bits - 1)
        else:
            raise ValueError(op)
        return mask(r, bits)
    if bits == 1 and op in ('and', 'or', 'xor'):
        # i1 logic on booleans
        return {'and': band, 'or': bor, 'xor': bxor}[op](_tob(a), _tob(b))
    if _isc(a):
        a = mask(a, bits)
    if _isc(b):
        b = mask(b, bits)
    # cheap identities
    if op in ('add', 'or', 'xor', 'shl', 'lshr', 'ashr', 'sub') and _isc(b) and b == 0:
        return a
    if op in ('add', 'or', 'xor') and _isc(a) and a == 0:
        return b
    if op == 'mul' and _isc(b) and b == 1:
        return a
    if op == 'mul' and _isc(a) and a == 1:
        return b
    if op == 'and' and ((_isc(a) and a == 0) or (_isc(b) and b == 0)):
        return 0
    return mk('bv' + op, (a, b), ('bv', bits))


def _tob(x):
    if _isc(x):
        return bool(x)
    return x


def icmp(pred, a, b, bits):
    if _isc(a) and _isc(b):
        a = mask(a, bits)
        b = mask(b, bits)
        if pred[0] == 's':
            a = tosigned(a, bits)
            b = tosigned(b, bits)
        return {'eq': a == b, 'ne': a != b, 'ugt': a > b, 'uge': a >= b, 'ult': a < b, 'ule': a <= b,
                'sgt': a > b, 'sge': a >= b, 'slt': a < b, 'sle': a <= b}[pred]
    if bits == 1:
        a, b = _tob(a), _tob(b)
        if pred == 'eq':
            return bnot(bxor(a, b))
        if pred == 'ne':
            return bxor(a, b)
    if _isc(a):
        a = mask(a, bits)
    if _isc(b):
        b = mask(b, bits)
    return mk('icmp', (a, b), 'B', (pred, bits))


def zext(a, frm, to):
    if _isc(a):
        return mask(int(a), frm)
    if a.sort == 'B':
        return mk('ite', (a, 1, 0), ('bv', to))
    return mk('zext', (a,), ('bv', to), frm)


def sext(a, frm, to):
    if _isc(a):
        return mask(tosigned(int(a), frm), to)
    if a.sort == 'B':
        return mk('ite', (a, mask(-1, to), 0), ('bv', to))
    return mk('sext', (a,), ('bv', to), frm)


def trunc(a, frm, to):
    if _isc(a):
        return mask(a, to)
    if to == 1:
        return mk('icmp', (mk('bvand', (a, 1), ('bv', frm)), 1), 'B', ('eq', frm))
    if a.op == 'zext' and a.aux == to:
        return a.args[0]
    return mk('trunc', (a,), ('bv', to), frm)


def itofp(a, bits, signed):
    if _isc(a):
        return Fraction(tosigned(a, bits) if signed else mask(a, bits))
    if a.sort == 'B':
        return mk('ite', (a, Fraction(-1 if signed else 1), Fraction(0)), 'R')
    return mk('itofp', (a,), 'R', (bits, signed))


# ------------------------------------------------------------------------------------ traversal
def subterms(roots):
    seen = set()
    order = []
    stack = [r for r in roots if isinstance(r, Term)]
    while stack:
        t = stack.pop()
        if t.id in seen:
            continue
        seen.add(t.id)
        order.append(t)
        for a in t.args:
            if isinstance(a, Term) and a.id not in seen:
                stack.append(a)
    return order


def free_vars(roots):
    return [t for t in subterms(roots) if t.op == 'var']


def atoms_of(roots, ops=('sin', 'cos')):
    return [t for t in subterms(roots) if t.op in ops]


def topo(roots):
    """post-order (children first) list of subterms"""
    out = []
    seen = set()
    for r in roots:
        if not isinstance(r, Term) or r.id in seen:
            continue
        stack = [(r, 0)]
        while stack:
            t, i = stack.pop()
            if i == 0 and t.id in seen:
                continue
            args = [a for a in t.args if isinstance(a, Term)]
            if i < len(args):
                stack.append((t, i + 1))
                if args[i].id not in seen:
                    stack.append((args[i], 0))
            else:
                if t.id not in seen:
                    seen.add(t.id)
                    out.append(t)
    return out


# ------------------------------------------------------------------------------------ evaluation (floats)
def evaluate(t, env, real=False):
    """env: var name -> python value (float or Fraction for R vars; int for bv; bool).
    real=False: IEEE double arithmetic with python floats; real=True: exact Fractions (sin/cos unsupported
    unless provided as env['sin',id])."""
    if not isinstance(t, Term):
        if isinstance(t, Fraction) and not real:
            return float(t)
        return t
    memo = {}

    def cv(x):
        if isinstance(x, Term):
            return memo[x.id]
        if isinstance(x, Fraction) and not real:
            return float(x)
        return x

    for n in topo([t]):
        op = n.op
        a = [cv(x) for x in n.args]
        if op == 'var':
            v = env[n.aux]
            if n.sort == 'R':
                v = Fraction(v) if real else float(v)
        elif op == 'fadd':
            v = a[0] + a[1]
        elif op == 'fsub':
            v = a[0] - a[1]
        elif op == 'fmul':
            v = a[0] * a[1]
        elif op == 'fdiv':
            if a[1] == 0:
                v = math.nan if not real else None
                if real:
                    raise ZeroDivisionError
            else:
                v = a[0] / a[1]
        elif op == 'fneg':
            v = -a[0]
        elif op == 'fabs':
            v = abs(a[0])
        elif op == 'ite':
            v = a[1] if a[0] else a[2]
        elif op == 'fcmp':
            p = n.aux
            v = {'eq': a[0] == a[1], 'ne': a[0] != a[1], 'lt': a[0] < a[1], 'le': a[0] <= a[1],
                 'gt': a[0] > a[1], 'ge': a[0] >= a[1]}[p]
        elif op == 'biteq':
            v = biteq(a[0], a[1]) if not real else a[0] == a[1]
        elif op == 'not':
            v = not a[0]
        elif op == 'and':
            v = bool(a[0]) and bool(a[1])
        elif op == 'or':
            v = bool(a[0]) or bool(a[1])
        elif op == 'xor':
            v = bool(a[0]) != bool(a[1])
        elif op == 'icmp':
            v = icmp(n.aux[0], int(a[0]), int(a[1]), n.aux[1])
        elif op.startswith('bv'):
            v = bvop(op[2:], int(a[0]), int(a[1]), n.sort[1])
        elif op == 'zext':
            v = mask(int(a[0]), n.aux)
        elif op == 'sext':
            v = mask(tosigned(int(a[0]), n.aux), n.sort[1])
        elif op == 'trunc':
            v = mask(int(a[0]), n.sort[1])
        elif op == 'itofp':
            bits, signed = n.aux
            v = tosigned(int(a[0]), bits) if signed else mask(int(a[0]), bits)
            v = Fraction(v) if real else float(v)
        elif op in ('sin', 'cos', 'exp', 'log', 'sqrt'):
            if real:
                raise ValueError('transcendental in exact evaluation')
            v = getattr(math, op)(a[0])
        elif op == 'special':
            v = math.nan
        else:
            raise ValueError('evaluate: op %s' % op)
        memo[n.id] = v
    return memo[t.id]


# ------------------------------------------------------------------------------------ polynomials
class Poly:
    """sparse multivariate polynomial with Fraction coefficients.  monomial = tuple of (atom_id, power) sorted."""
    __slots__ = ('d',)

    def __init__(self, d=None):
        self.d = d if d is not None else {}

    @staticmethod
    def const(c):
        c = Fraction(c)
        return Poly({(): c} if c != 0 else {})

    @staticmethod
    def atom(i):
        return Poly({((i, 1),): Fraction(1)})

    def __add__(self, o):
        d = dict(self.d)
        for m, c in o.d.items():
            v = d.get(m)
            if v is None:
                d[m] = c
            else:
                v = v + c
                if v == 0:
                    del d[m]
                else:
                    d[m] = v
        return Poly(d)

    def __neg__(self):
        return Poly({m: -c for m, c in self.d.items()})

    def __sub__(self, o):
        return self + (-o)

    def scale(self, c):
        c = Fraction(c)
        if c == 0:
            return Poly()
        return Poly({m: v * c for m, v in self.d.items()})

    def __mul__(self, o):
        if len(self.d) > len(o.d):
            self, o = o, self
        d = {}
        for m1, c1 in self.d.items():
            for m2, c2 in o.d.items():
                m = mono_mul(m1, m2)
                c = c1 * c2
                v = d.get(m)
                if v is None:
                    d[m] = c
                else:
                    v += c
                    if v == 0:
                        del d[m]
                    else:
                        d[m] = v
        return Poly(d)

    def is_zero(self):
        return not self.d

    def l1(self):
        return sum(abs(c) for c in self.d.values())

    def degree(self):
        return max((sum(p for _, p in m) for m in self.d), default=0)

    def atoms(self):
        s = set()
        for m in self.d:
            for a, _ in m:
                s.add(a)
        return s


def mono_mul(m1, m2):
    if not m1:
        return m2
    if not m2:
        return m1
    d = dict(m1)
    for a, p in m2:
        d[a] = d.get(a, 0) + p
    return tuple(sorted(d.items()))


class PolyCtx:
    """Term -> Poly conversion.  Non-polynomial subterms (sin, cos, fdiv by non-constant, ite, fabs...) become
    atoms.  `rewrite` maps atom term ids to polynomials (e.g. cos^2 -> 1 - sin^2 is applied on monomials through
    `reduce_squares`)."""

    def __init__(self):
        self.atom_of = {}      # term id -> atom index
        self.atom_terms = []   # atom index -> Term
        self.memo = {}
        self.subst = {}        # atom index -> Poly (substitution applied when atom is created)
        self.rmemo = {}
        self.canon_trig = False    # identify sin/cos atoms whose arguments are equal polynomials (up to sign: parity lemmas)
        self.trig_keys = {}

    def atom(self, t):
        i = self.atom_of.get(t.id)
        if i is None:
            i = len(self.atom_terms)
            self.atom_of[t.id] = i
            self.atom_terms.append(t)
        return i

    def poly(self, t):
        if not isinstance(t, Term):
            return Poly.const(t)
        memo = self.memo
        for n in topo([t]):
            if n.id in memo:
                continue
            op = n.op
            if n.sort != 'R':
                continue

            def g(x):
                return memo[x.id] if isinstance(x, Term) else Poly.const(x)

            if op == 'fadd':
                p = g(n.args[0]) + g(n.args[1])
            elif op == 'fsub':
                p = g(n.args[0]) - g(n.args[1])
            elif op == 'fmul':
                p = g(n.args[0]) * g(n.args[1])
            elif op == 'fneg':
                p = -g(n.args[0])
            elif op == 'fdiv' and not isinstance(n.args[1], Term):
                p = g(n.args[0]).scale(1 / Fraction(n.args[1]))
            elif self.canon_trig and op in ('sin', 'cos') and isinstance(n.args[0], Term):
                ap = memo[n.args[0].id]
                items = sorted(ap.d.items())
                sign = 1
                if items and items[0][1] < 0:
                    sign = -1
                    items = [(m, -c) for m, c in items]
                key = (op, tuple(items))
                i = self.trig_keys.get(key)
                if i is None:
                    i = self.atom(n)
                    self.trig_keys[key] = i
                else:
                    self.atom_of[n.id] = i
                p = Poly.atom(i)
                if op == 'sin' and sign < 0:
                    p = -p
            else:
                i = self.atom(n)
                p = self.subst.get(i)
                if p is None:
                    p = Poly.atom(i)
            memo[n.id] = p
        return memo[t.id]

    def rat(self, t):
        """rational normal form (num Poly, den Poly): divisions by non-constant terms are kept as denominators"""
        if not isinstance(t, Term):
            return Poly.const(t), Poly.const(1)
        memo = self.rmemo
        one = Poly.const(1)
        for n in topo([t]):
            if n.id in memo or n.sort != 'R':
                continue

            def g(x):
                return memo[x.id] if isinstance(x, Term) else (Poly.const(x), one)

            op = n.op
            if op in ('fadd', 'fsub'):
                (n1, d1), (n2, d2) = g(n.args[0]), g(n.args[1])
                if d1.d == d2.d:
                    r = ((n1 + n2) if op == 'fadd' else (n1 - n2), d1)
                else:
                    r = ((n1 * d2 + n2 * d1) if op == 'fadd' else (n1 * d2 - n2 * d1), d1 * d2)
            elif op == 'fmul':
                (n1, d1), (n2, d2) = g(n.args[0]), g(n.args[1])
                r = (n1 * n2, d1 * d2)
            elif op == 'fneg':
                n1, d1 = g(n.args[0])
                r = (-n1, d1)
            elif op == 'fdiv':
                (n1, d1), (n2, d2) = g(n.args[0]), g(n.args[1])
                r = (n1 * d2, d1 * n2)
            else:
                r = (self.poly(n), one)
            memo[n.id] = r
        return memo[t.id]

    def reduce_squares(self, p, pairs):
        """pairs: list of (cos_atom_index, sin_atom_index): rewrite cos^2k -> (1 - sin^2)^k in every monomial"""
        cs = dict(pairs)
        changed = True
        while changed:
            changed = False
            out = Poly()
            for m, c in p.d.items():
                hit = None
                for a, pw in m:
                    if a in cs and pw >= 2:
                        hit = (a, pw)
                        break
                if hit is None:
                    out = out + Poly({m: c})
                    continue
                a, pw = hit
                rest = tuple((x, q) for x, q in m if x != a)
                if pw - 2 > 0:
                    rest = mono_mul(rest, ((a, pw - 2),))
                s = cs[a]
                # c * rest * (1 - s^2)
                out = out + Poly({rest: c}) - Poly({mono_mul(rest, ((s, 2),)): c})
                changed = True
            p = out
        return p


def rebuild(t, choose):
    """rebuild the DAG of t; for every ite node choose(cond) may return True/False to select a branch (None keeps it)"""
    if not isinstance(t, Term):
        return t
    memo = {}

    def g(x):
        return memo[x.id] if isinstance(x, Term) else x

    for n in topo([t]):
        op = n.op
        a = [g(x) for x in n.args]
        if op == 'ite':
            c = choose(n.args[0])
            if c is True:
                r = a[1]
            elif c is False:
                r = a[2]
            else:
                r = ite(a[0], a[1], a[2], n.sort)
        elif op == 'fadd':
            r = fadd(a[0], a[1])
        elif op == 'fsub':
            r = fsub(a[0], a[1])
        elif op == 'fmul':
            r = fmul(a[0], a[1])
        elif op == 'fdiv':
            r = fdiv(a[0], a[1])
        elif op == 'fneg':
            r = fneg(a[0])
        elif op == 'var':
            r = n
        elif op == 'fabs':
            r = fabs_(a[0])
        elif op == 'fcmp':
            r = fcmp({'eq': 'oeq', 'ne': 'one', 'lt': 'olt', 'le': 'ole', 'gt': 'ogt', 'ge': 'oge'}[n.aux], a[0], a[1])
        elif op == 'biteq':
            r = biteq(a[0], a[1])
        elif op == 'not':
            r = bnot(a[0])
        elif op == 'and':
            r = band(a[0], a[1])
        elif op == 'or':
            r = bor(a[0], a[1])
        elif op == 'xor':
            r = bxor(a[0], a[1])
        elif op == 'icmp':
            r = icmp(n.aux[0], a[0], a[1], n.aux[1])
        elif op.startswith('bv'):
            r = bvop(op[2:], a[0], a[1], n.sort[1])
        elif op == 'zext':
            r = zext(a[0], n.aux, n.sort[1])
        elif op == 'sext':
            r = sext(a[0], n.aux, n.sort[1])
        elif op == 'trunc':
            r = trunc(a[0], n.aux, n.sort[1])
        elif op == 'itofp':
            r = itofp(a[0], n.aux[0], n.aux[1])
        else:
            r = mk(op, a, n.sort, n.aux)
        memo[n.id] = r
    return memo[t.id]
