"""External functions and LLVM intrinsics understood by the executor.  Each is part of the claim."""
from fractions import Fraction
from . import llparse as L
from . import term as T
from .term import Term
from . import exec as X


def install(ex):
    I = ex.intr
    ex.intr_prefix = []

    def reg(*names):
        def deco(f):
            for n in names:
                I[n] = f
            return f
        return deco

    def regp(*prefixes):
        def deco(f):
            for n in prefixes:
                ex.intr_prefix.append((n, f))
            return f
        return deco

    # ---------------------------------------------------------------- no-ops
    @regp('llvm.lifetime.', 'llvm.dbg.', 'llvm.experimental.noalias.scope.decl', 'llvm.invariant.',
          'llvm.prefetch', 'llvm.donothing')
    def _noop(ex, st, args, ins, name):
        return None

    @regp('llvm.stacksave')
    def _stacksave(ex, st, args, ins, name):
        return 0

    @regp('llvm.stackrestore')
    def _stackrestore(ex, st, args, ins, name):
        return None

    @regp('llvm.expect.')
    def _expect(ex, st, args, ins, name):
        return args[0]

    @regp('llvm.assume')
    def _assume(ex, st, args, ins, name):
        c = args[0]
        if ex.assume_mode == 'ignore':
            return None
        # operand bundles: "align"(ptr, alignment [, offset]) -- what __builtin_assume_aligned tells the optimiser
        for tag, bargs in (ins.x or ()):
            if tag == 'align':
                fr = st.frames[-1]
                vals = [ex.val(st, fr, t_, v_) for t_, v_ in bargs]
                ptr, al = vals[0], vals[1]
                off = vals[2] if len(vals) > 2 else 0
                if isinstance(ptr, Term) or isinstance(al, Term) or isinstance(off, Term):
                    raise X.ExecError('symbolic alignment assumption')
                if al and (ptr - off) % al != 0:
                    raise X.PathError('assume-violated', 'the optimiser is told that address %#x is %d-byte aligned, which is false: misaligned vector access (%s)' % (ptr, al, st.frames[-1].fn.name[:80]))
            elif tag not in ('nonnull', 'dereferenceable', 'noundef', 'ignore'):
                raise X.ExecError('unsupported operand bundle %r on llvm.assume' % tag)
        if c is X.UNDEF:
            raise X.PathError('ub', 'llvm.assume on uninitialised value')
        if isinstance(c, Term):
            if ex.feasible(st, T.bnot(c)):
                raise X.PathError('assume-violated', 'optimiser assumption can be false: %r' % (c,))
            return None
        if not (c & 1 if isinstance(c, int) else c):
            raise X.PathError('assume-violated', 'optimiser assumption is false (%s)' % ins.line[:120])
        return None

    @regp('llvm.trap')
    def _trap(ex, st, args, ins, name):
        raise X.PathError('trap', 'llvm.trap')

    # ---------------------------------------------------------------- memory intrinsics
    def _len(ex, st, n):
        if isinstance(n, Term):
            n = ex.concretize(st, n, 'memory intrinsic length')
        return n

    @regp('llvm.memcpy.')
    def _memcpy(ex, st, args, ins, name):
        n = _len(ex, st, args[2])
        ex.memcpy(st, args[0], args[1], n, move=False)

    @regp('llvm.memmove.')
    def _memmove(ex, st, args, ins, name):
        n = _len(ex, st, args[2])
        ex.memcpy(st, args[0], args[1], n, move=True)

    @reg('memmove', 'memcpy')
    def _memmove_c(ex, st, args, ins, name):
        n = _len(ex, st, args[2])
        ex.memcpy(st, args[0], args[1], n, move=True)
        return args[0]

    @regp('llvm.memset.')
    def _memset(ex, st, args, ins, name):
        n = _len(ex, st, args[2])
        ex.memset(st, args[0], args[1], n)

    @reg('memset')
    def _memset_c(ex, st, args, ins, name):
        n = _len(ex, st, args[2])
        ex.memset(st, args[0], args[1], n)
        return args[0]

    @reg('strlen')
    def _strlen(ex, st, args, ins, name):
        return len(ex.read_cstr(st, args[0]))

    @reg('memcmp', 'bcmp')
    def _memcmp(ex, st, args, ins, name):
        n = _len(ex, st, args[2])
        for i in range(n):
            try:
                a = ex.load(st, args[0] + i, L.I8)
                b = ex.load(st, args[1] + i, L.I8)
            except X.ExecError:
                a = b = None
            if a is None or isinstance(a, (Term, X.Bits)) or isinstance(b, (Term, X.Bits)):
                # symbolic doubles: compare the remaining region cell by cell (8-byte aligned doubles), result 0 iff all are bit-identical
                if i != 0 or n % 8 != 0:
                    raise X.ExecError('memcmp on symbolic bytes (not a whole array of doubles)')
                c = True
                for k in range(0, n, 8):
                    c = T.band(c, T.biteq(ex.load(st, args[0] + k, L.DOUBLE), ex.load(st, args[1] + k, L.DOUBLE)))
                if not isinstance(c, Term):
                    return 0 if c else 1
                return T.ite(c, 0, 1, ('bv', 32))
            if a != b:
                return T.mask(-1 if a < b else 1, 32)
        return 0

    # ---------------------------------------------------------------- math
    @regp('llvm.fabs.')
    def _fabs(ex, st, args, ins, name):
        return ex.dom.abs(args[0])

    @reg('fabs')
    def _fabs2(ex, st, args, ins, name):
        return ex.dom.abs(args[0])

    def _fminmax(kind):
        def h(ex, st, args, ins, name):
            a, b = args
            for v in (a, b):
                if v is X.UNDEF:
                    raise X.PathError('uninit', '%s on uninitialised value' % name)
            isnan = lambda v: isinstance(v, float) and v != v
            if isnan(a):          # IEEE maxNum/minNum: a quiet NaN operand is ignored
                return b
            if isnan(b):
                return a
            c = T.fcmp('ogt' if kind == 'max' else 'olt', a, b)
            if isinstance(c, Term):
                return T.ite(c, a, b, 'R')
            return a if c else b
        return h

    for nm_, kd_ in (('llvm.maxnum.f64', 'max'), ('llvm.minnum.f64', 'min'), ('fmax', 'max'), ('fmin', 'min')):
        I[nm_] = _fminmax(kd_)

    def _mk_libm(fname):
        def h(ex, st, args, ins, name):
            for a in args:
                if a is X.UNDEF:
                    raise X.PathError('uninit', 'libm call on uninitialised value')
            return ex.dom.libm(fname, args)
        return h

    for fname in ('sin', 'cos', 'exp', 'log', 'sqrt', 'pow', 'cbrt', 'atan2', 'exp2', 'acos', 'asin', 'atan', 'tan',
                  'ceil', 'floor', 'log2', 'log10', 'fmod', 'hypot', 'sinh', 'cosh', 'tanh', 'expm1', 'log1p', 'round', 'trunc', 'remainder'):
        I[fname] = _mk_libm(fname)
        I['llvm.%s.f64' % fname] = _mk_libm(fname)

    def _minmax(kind):
        def h(ex, st, args, ins, name):
            bits = int(name.rsplit('.i', 1)[1])
            a, b = args
            pred = {'umax': 'ugt', 'umin': 'ult', 'smax': 'sgt', 'smin': 'slt'}[kind]
            c = T.icmp(pred, a, b, bits)
            if isinstance(c, Term):
                return T.ite(c, a, b, ('bv', bits))
            return a if c else b
        return h

    for k in ('umax', 'umin', 'smax', 'smin'):
        ex.intr_prefix.append(('llvm.%s.' % k, _minmax(k)))

    @regp('llvm.abs.')
    def _iabs(ex, st, args, ins, name):
        bits = int(name.rsplit('.i', 1)[1])
        a = args[0]
        if isinstance(a, Term):
            raise X.ExecError('llvm.abs symbolic')
        return T.mask(abs(T.tosigned(a, bits)), bits)

    @regp('llvm.ctlz.')
    def _ctlz(ex, st, args, ins, name):
        bits = int(name.rsplit('.i', 1)[1])
        a = T.mask(args[0], bits)
        return bits - a.bit_length()

    @regp('llvm.cttz.')
    def _cttz(ex, st, args, ins, name):
        bits = int(name.rsplit('.i', 1)[1])
        a = T.mask(args[0], bits)
        if a == 0:
            return bits
        return (a & -a).bit_length() - 1

    @regp('llvm.umul.with.overflow.')
    def _umulo(ex, st, args, ins, name):
        bits = int(name.rsplit('.i', 1)[1])
        a, b = args
        if isinstance(a, Term) or isinstance(b, Term):
            raise X.ExecError('umul.with.overflow symbolic')
        r = a * b
        return [T.mask(r, bits), 1 if r >> bits else 0]

    # ---------------------------------------------------------------- allocation
    def _new(kind):
        def h(ex, st, args, ins, name):
            n = args[0]
            if isinstance(n, Term):
                n = ex.concretize(st, n, 'allocation size')
            # residue choice first (fork discipline: before any mutation)
            pol = st.align_policy
            residue = 0
            if pol == 'fork':
                f = ex.choose(st)
                if f is None:
                    raise X.Fork([([], 0), ([], 16)])
                residue = f
            elif pol == 'misaligned':
                residue = 16
            elif isinstance(pol, list):
                residue = pol.pop(0) if pol else 0
            st.nalloc += 1
            if st.fail_alloc is not None and st.nalloc == st.fail_alloc:
                st.notes.append('allocation #%d failed (injected)' % st.nalloc)
                eo = st.heap_alloc(8, 'exc')
                return ex.throw(st, eo.base, '_ZTISt9bad_alloc', 'injected bad_alloc')
            if n > (1 << 40):
                eo = st.heap_alloc(8, 'exc')
                return ex.throw(st, eo.base, '_ZTISt9bad_alloc', 'huge allocation')
            o = st.heap_alloc(n, kind, residue)
            return o.base
        return h

    I['_Znam'] = _new('new[]')
    I['_Znwm'] = _new('new')

    def _delete(kind):
        def h(ex, st, args, ins, name):
            p = args[0]
            if isinstance(p, Term):
                p = ex.concretize(st, p, 'delete argument')
            if p is X.UNDEF:
                raise X.PathError('invalid-free', 'delete of an uninitialised pointer')
            if p == 0:
                return None
            o = st.find(p)
            if o is None or o.base != p:
                raise X.PathError('invalid-free', 'operator delete%s on %#x which is not the start of an allocation%s'
                                  % ('[]' if kind == 'new[]' else '', p, (' (inside %s %s)' % (o.kind, o.name)) if o else ''))
            if o.kind not in ('new[]', 'new'):
                raise X.PathError('invalid-free', 'operator delete on %s object %s' % (o.kind, o.name))
            if not o.live:
                raise X.PathError('double-free', 'operator delete on already released block %#x' % p)
            if o.kind != kind:
                raise X.PathError('invalid-free', 'mismatched new/delete form for %#x (%s released as %s)' % (p, o.kind, kind))
            o.live = False
            o.cells = {}
            st.ledger.append(('free', kind, p, o.size))
            return None
        return h

    I['_ZdaPv'] = _delete('new[]')
    I['_ZdlPv'] = _delete('new')
    I['_ZdlPvm'] = _delete('new')
    I['_ZdaPvm'] = _delete('new[]')

    @reg('malloc')
    def _malloc(ex, st, args, ins, name):
        n = args[0]
        if isinstance(n, Term):
            n = ex.concretize(st, n, 'malloc size')
        return st.heap_alloc(n, 'malloc').base

    @reg('calloc')
    def _calloc(ex, st, args, ins, name):
        n = args[0] * args[1]
        o = st.heap_alloc(n, 'malloc')
        o.zero = True
        return o.base

    @reg('free')
    def _free(ex, st, args, ins, name):
        p = args[0]
        if p == 0:
            return None
        o = st.find(p)
        if o is None or o.base != p or o.kind != 'malloc':
            raise X.PathError('invalid-free', 'free(%#x): not a malloc block' % p)
        if not o.live:
            raise X.PathError('double-free', 'free(%#x) twice' % p)
        o.live = False
        o.cells = {}
        st.ledger.append(('free', 'malloc', p, o.size))
        return None

    # ---------------------------------------------------------------- C++ runtime
    @reg('__cxa_allocate_exception')
    def _alloc_exc(ex, st, args, ins, name):
        return st.heap_alloc(max(args[0], 8), 'exc').base

    @reg('__cxa_free_exception')
    def _free_exc(ex, st, args, ins, name):
        o = st.find(args[0])
        if o is not None:
            o.live = False
        return None

    def _tinfo_name(ex, st, addr):
        for (n, th), a in st.gaddr.items():
            if a == addr:
                return n
        return 'typeinfo@%#x' % addr

    @reg('__cxa_throw')
    def _throw(ex, st, args, ins, name):
        return ex.throw(st, args[0], _tinfo_name(ex, st, args[1]), st.exc_msgs.get(args[0]))

    @reg('__cxa_begin_catch')
    def _begin_catch(ex, st, args, ins, name):
        if st.exc is None:
            raise X.ExecError('begin_catch without exception')
        st.caught.append(st.exc)
        st.exc = None
        return args[0]

    @reg('__cxa_end_catch')
    def _end_catch(ex, st, args, ins, name):
        if not st.caught:
            raise X.ExecError('end_catch without caught exception')
        e = st.caught.pop()
        o = st.find(e['obj'])
        if o is not None and not e.get('rethrown'):
            o.live = False
        return None

    @reg('__cxa_rethrow')
    def _rethrow(ex, st, args, ins, name):
        e = st.caught[-1]
        e['rethrown'] = True
        st.exc = dict(e)
        st.exc.pop('rethrown', None)
        return X.THROW

    @reg('_ZSt9terminatev')
    def _terminate(ex, st, args, ins, name):
        raise X.PathError('terminate', 'std::terminate called')

    @reg('__assert_fail')
    def _assert_fail(ex, st, args, ins, name):
        raise X.PathError('assert', 'assertion failed: %s (%s:%d)' % (ex.read_cstr(st, args[0]), ex.read_cstr(st, args[1]), args[2]))

    @reg('abort')
    def _abort(ex, st, args, ins, name):
        raise X.PathError('abort', 'abort called')

    @regp('llvm.eh.typeid.for')
    def _typeid_for(ex, st, args, ins, name):
        return ex.typeid(args[0])

    @reg('__cxa_atexit')
    def _atexit(ex, st, args, ins, name):
        return 0

    @reg('__cxa_thread_atexit')
    def _thread_atexit(ex, st, args, ins, name):
        st.tls_dtors.append((st.thread, args[0], args[1]))
        return 0

    @reg('__cxa_guard_acquire')
    def _guard_acq(ex, st, args, ins, name):
        b = ex.load(st, args[0], L.I8)
        return 0 if (b is not X.UNDEF and b) else 1

    @reg('__cxa_guard_release')
    def _guard_rel(ex, st, args, ins, name):
        ex.store(st, args[0], L.I8, 1)
        return None

    @reg('__cxa_guard_abort')
    def _guard_abort(ex, st, args, ins, name):
        return None

    # std::runtime_error & friends: construction records the message, nothing else
    def _exc_ctor(ex, st, args, ins, name):
        try:
            msg = ex.read_cstr(st, args[1])
        except Exception:
            msg = '?'
        st.exc_msgs[args[0]] = msg
        return None

    for n in ('_ZNSt13runtime_errorC1EPKc', '_ZNSt13runtime_errorC2EPKc', '_ZNSt11logic_errorC1EPKc',
              '_ZNSt12length_errorC1EPKc', '_ZNSt12out_of_rangeC1EPKc', '_ZNSt16invalid_argumentC1EPKc'):
        I[n] = _exc_ctor

    def _exc_ctor_str(ex, st, args, ins, name):
        st.exc_msgs[args[0]] = '<std::string message>'
        return None

    for n in ('_ZNSt13runtime_errorC1ERKNSt7__cxx1112basic_stringIcSt11char_traitsIcESaIcEEE',
              '_ZNSt13runtime_errorC2ERKNSt7__cxx1112basic_stringIcSt11char_traitsIcESaIcEEE'):
        I[n] = _exc_ctor_str

    for n in ('_ZNSt13runtime_errorD1Ev', '_ZNSt13runtime_errorD2Ev', '_ZNSt9exceptionD2Ev', '_ZNSt9exceptionD1Ev'):
        I[n] = _noop

    def _throw_std(tinfo):
        def h(ex, st, args, ins, name):
            eo = st.heap_alloc(8, 'exc')
            msg = None
            if args:
                try:
                    msg = ex.read_cstr(st, args[0])
                except Exception:
                    pass
            return ex.throw(st, eo.base, tinfo, msg)
        return h

    I['_ZSt20__throw_length_errorPKc'] = _throw_std('_ZTISt12length_error')
    I['_ZSt19__throw_logic_errorPKc'] = _throw_std('_ZTISt11logic_error')
    I['_ZSt17__throw_bad_allocv'] = _throw_std('_ZTISt9bad_alloc')
    I['_ZSt28__throw_bad_array_new_lengthv'] = _throw_std('_ZTISt20bad_array_new_length')
    I['_ZSt24__throw_out_of_range_fmtPKcz'] = _throw_std('_ZTISt12out_of_range')
    I['_ZSt20__throw_out_of_rangePKc'] = _throw_std('_ZTISt12out_of_range')
    install_gsl_error(ex)
    install_complex(ex)
    install_rng(ex)
    install_string(ex)


def install_gsl_error(ex):
    def h(ex_, st, args, ins, name):
        raise X.PathError('gsl-error', 'GSL range/size error (shim code %d): the real library aborts here' % args[0])
    ex.intr['__verif_gsl_error'] = h


# ---------------------------------------------------------------------------------------- std::string (libstdc++ SSO layout)
def _str_read(ex, st, this):
    p = ex.load(st, this, L.I64)
    n = ex.load(st, this + 8, L.I64)
    if isinstance(p, Term) or isinstance(n, Term) or p is X.UNDEF or n is X.UNDEF:
        raise X.ExecError('symbolic/uninitialised std::string')
    data = bytearray()
    for i in range(n):
        b = ex.load(st, p + i, L.I8)
        if isinstance(b, Term) or b is X.UNDEF:
            raise X.ExecError('symbolic std::string contents')
        data.append(b)
    return p, n, bytes(data)


def _str_write(ex, st, this, data, fresh=False):
    n = len(data)
    local = this + 16
    if fresh:
        cap = 15
        p = local
    else:
        p = ex.load(st, this, L.I64)
        cap = 15 if p == local else ex.load(st, this + 16, L.I64)
    if n > cap:
        newcap = max(n, 2 * cap)
        o = st.heap_alloc(newcap + 1, 'new')
        if not fresh and p != local:
            old = st.find(p)
            old.live = False
            st.ledger.append(('free', 'new', p, old.size))
        p = o.base
        ex.store(st, this, L.I64, p)
        ex.store(st, this + 16, L.I64, newcap)
    elif fresh:
        ex.store(st, this, L.I64, p)
    for i, b in enumerate(data):
        ex.store(st, p + i, L.I8, b)
    ex.store(st, p + n, L.I8, 0)
    ex.store(st, this + 8, L.I64, n)


def install_string(ex):
    I = ex.intr

    def ctor_cstr(ex_, st, args, ins, name):
        s = ex.read_cstr(st, args[1]).encode('latin1')
        _str_write(ex, st, args[0], s, fresh=True)
        return None
    I['_ZNSt7__cxx1112basic_stringIcSt11char_traitsIcESaIcEEC2EPKcRKS3_'] = ctor_cstr
    I['_ZNSt7__cxx1112basic_stringIcSt11char_traitsIcESaIcEEC1EPKcRKS3_'] = ctor_cstr

    def compare(ex_, st, args, ins, name):
        _, _, a = _str_read(ex, st, args[0])
        b = ex.read_cstr(st, args[1]).encode('latin1')
        r = (a > b) - (a < b)
        return T.mask(r, 32)
    I['_ZNKSt7__cxx1112basic_stringIcSt11char_traitsIcESaIcEE7compareEPKc'] = compare

    def append(ex_, st, args, ins, name):
        _, _, a = _str_read(ex, st, args[0])
        add = bytes(ex.load(st, args[1] + i, L.I8) for i in range(args[2]))
        _str_write(ex, st, args[0], a + add)
        return args[0]
    I['_ZNSt7__cxx1112basic_stringIcSt11char_traitsIcESaIcEE9_M_appendEPKcm'] = append

    def replace(ex_, st, args, ins, name):
        this, pos, len1, s, len2 = args
        _, _, a = _str_read(ex, st, this)
        new = bytes(ex.load(st, s + i, L.I8) for i in range(len2))
        _str_write(ex, st, this, a[:pos] + new + a[pos + len1:])
        return this
    I['_ZNSt7__cxx1112basic_stringIcSt11char_traitsIcESaIcEE10_M_replaceEmmPKcm'] = replace

    def construct_fill(ex_, st, args, ins, name):
        this, n, c = args
        _str_write(ex, st, this, bytes([c & 0xff]) * n, fresh=True)
        return None
    I['_ZNSt7__cxx1112basic_stringIcSt11char_traitsIcESaIcEE12_M_constructEmc'] = construct_fill

    def create(ex_, st, args, ins, name):
        # _M_create(size_type& capacity, size_type old_capacity) -> pointer
        this, capref, oldcap = args
        cap = ex.load(st, capref, L.I64)
        if cap > oldcap and cap < 2 * oldcap:
            cap = 2 * oldcap
            ex.store(st, capref, L.I64, cap)
        return st.heap_alloc(cap + 1, 'new').base
    I['_ZNSt7__cxx1112basic_stringIcSt11char_traitsIcESaIcEE9_M_createERmm'] = create

    def to_string(ex_, st, args, ins, name):
        # std::to_string(int/unsigned): formatting is never the subject; produce the decimal text for concrete values, '?' otherwise
        v = args[1]
        txt = b'?' if isinstance(v, Term) or v is X.UNDEF else str(v).encode()
        _str_write(ex, st, args[0], txt, fresh=True)
        return None
    for n_ in ('_ZNSt7__cxx119to_stringEj', '_ZNSt7__cxx119to_stringEi', '_ZNSt7__cxx119to_stringEm', '_ZNSt7__cxx119to_stringEl'):
        ex.summaries[n_] = lambda e, st, args, ins, _h=to_string: _h(e, st, args, ins, None)

    def gsl_strerror(ex_, st, args, ins, name):
        o = st.alloc(16, 'global', 'gsl_strerror', 'global')
        for i, b in enumerate(b'gsl error\0'):
            o.cells[i] = (1, b)
        return o.base
    I['gsl_strerror'] = gsl_strerror

    # iostream: formatting is not the subject anywhere -> empty bodies (recorded as stubs)
    def ret_arg0(ex_, st, args, ins, name):
        return args[0]
    for n in ('_ZNSo9_M_insertIdEERSoT_', '_ZSt16__ostream_insertIcSt11char_traitsIcEERSt13basic_ostreamIT_T0_ES6_PKS3_l',
              '_ZNSo3putEc', '_ZNSo5flushEv', '_ZNSolsEi', '_ZNSolsEj', '_ZNSo9_M_insertImEERSoT_', '_ZNSo9_M_insertIlEERSoT_'):
        I[n] = ret_arg0

    def none(ex_, st, args, ins, name):
        return None
    for n in ('_ZNSt8ios_base4InitC1Ev', '_ZNSt8ios_base4InitD1Ev', '_ZNKSt5ctypeIcE13_M_widen_initEv'):
        I[n] = none


def install_complex(ex):
    I = ex.intr

    def cexp(ex_, st, args, ins, name):
        re, im = args
        d = ex.dom
        c = d.libm('cos', [im])
        s = d.libm('sin', [im])
        if not isinstance(re, Term) and re == 0:
            return [c, s]
        e = d.libm('exp', [re])
        return [d.mul(e, c), d.mul(e, s)]
    I['cexp'] = cexp

    def muldc3(ex_, st, args, ins, name):
        a, b, c, d_ = args
        d = ex.dom
        return [d.sub(d.mul(a, c), d.mul(b, d_)), d.add(d.mul(a, d_), d.mul(b, c))]
    I['__muldc3'] = muldc3

    def divdc3(ex_, st, args, ins, name):
        a, b, c, d_ = args
        d = ex.dom
        den = d.add(d.mul(c, c), d.mul(d_, d_))
        if ex.record_divs and isinstance(den, Term):
            st.divs.append((list(st.pc), den, '__divdc3 (complex division)'))
        return [d.div(d.add(d.mul(a, c), d.mul(b, d_)), den), d.div(d.sub(d.mul(b, c), d.mul(a, d_)), den)]
    I['__divdc3'] = divdc3


def install_rng(ex):
    I = ex.intr

    def env_setup(ex_, st, args, ins, name):
        return ex.global_addr(st, 'gsl_rng_default') if 'gsl_rng_default' in ex.mod.globals else 0x2000

    def alloc(ex_, st, args, ins, name):
        return st.heap_alloc(16, 'malloc').base

    def free(ex_, st, args, ins, name):
        o = st.find(args[0]) if args[0] else None
        if o is not None:
            o.live = False
            st.ledger.append(('free', 'malloc', args[0], o.size))
        return None

    def uniform_int(ex_, st, args, ins, name):
        # environment: an arbitrary value in [0, n)
        st.fresh += 1
        if ex.dom.name == 'C' or getattr(ex, 'concrete_rng', False):
            x = (st.fresh * 0x9E3779B97F4A7C15) & ((1 << 64) - 1)
            x ^= x >> 29
            x = (x * 0xBF58476D1CE4E5B9) & ((1 << 64) - 1)
            x ^= x >> 32
            return x % max(int(args[1]), 1)
        v = T.bvvar('rng!%d' % st.fresh, 64)
        n = args[1]
        st.pc.append(T.icmp('ult', v, n, 64))
        return v
    I['gsl_rng_env_setup'] = env_setup
    I['gsl_rng_alloc'] = alloc
    I['gsl_rng_free'] = free
    I['gsl_rng_uniform_int'] = uniform_int
