"""Symbolic executor for LLVM-14 IR (the subset parsed by llparse).

Concrete 64-bit addresses, object table with bounds/lifetime checks, heap ledger, exception unwinding,
forking on symbolic branches.  Doubles live in a pluggable domain: 'R' (exact reals: Fractions and Terms) or
'C' (python floats, used to diff the interpreter against the native build).
"""
import bisect, math, struct, sys
from fractions import Fraction
from . import llparse as L
from . import term as T
from .term import Term


class ExecError(Exception):
    """infrastructure problem (unsupported construct) -- never a verdict"""


class PathError(Exception):
    """the path under execution hit an error state (UB, invalid access, ...): a finding candidate"""

    def __init__(self, kind, msg):
        Exception.__init__(self, '%s: %s' % (kind, msg))
        self.kind = kind
        self.msg = msg


class Fork(Exception):
    def __init__(self, options):
        self.options = options   # list of (extra_pc_list, forced_value)


class StopAtJoin(Exception):
    pass


class NestedReturn(Exception):
    def __init__(self, value):
        self.value = value


class _Undef:
    def __repr__(self):
        return 'UNDEF'


UNDEF = _Undef()


class Bits:
    """an i64 that is the bit pattern of a (symbolic) double"""
    __slots__ = ('v',)

    def __init__(self, v):
        self.v = v


# ---------------------------------------------------------------------------------------- float domains
class RealDomain:
    name = 'R'

    def const(self, f):
        return T.R(f)

    def add(self, a, b):
        return T.fadd(a, b)

    def sub(self, a, b):
        return T.fsub(a, b)

    def mul(self, a, b):
        return T.fmul(a, b)

    def div(self, a, b):
        return T.fdiv(a, b)

    def neg(self, a):
        return T.fneg(a)

    def abs(self, a):
        return T.fabs_(a)

    def cmp(self, pred, a, b):
        return T.fcmp(pred, a, b)

    def fromint(self, a, bits, signed):
        return T.itofp(a, bits, signed)

    def toint(self, a, bits, signed):
        if isinstance(a, Term):
            raise ExecError('fptoint of symbolic real')
        v = int(a)   # truncation toward zero
        if signed:
            if not (-(1 << (bits - 1)) <= v < (1 << (bits - 1))):
                raise PathError('ub', 'fptosi out of range')
        else:
            if not (0 <= v < (1 << bits)):
                raise PathError('ub', 'fptoui out of range')
        return T.mask(v, bits)

    def libm(self, name, args):
        if all(not isinstance(a, Term) for a in args):
            fa = [float(a) for a in args]
            try:
                if name == 'pow':
                    r = math.pow(*fa)
                elif name == 'cbrt':
                    r = math.copysign(abs(fa[0]) ** (1.0 / 3), fa[0])
                elif name == 'atan2':
                    r = math.atan2(*fa)
                elif name == 'ceil':
                    r = float(math.ceil(fa[0]))
                elif name == 'floor':
                    r = float(math.floor(fa[0]))
                elif name == 'exp2':
                    r = 2.0 ** fa[0]
                else:
                    r = getattr(math, name)(*fa)
            except (ValueError, OverflowError):
                r = math.nan
            return T.R(r)
        return T.fun(name, *args)

    def tobits(self, a):
        if isinstance(a, Term):
            return Bits(a)
        return struct.unpack('<Q', struct.pack('<d', float(a)))[0]

    def frombits(self, b):
        return T.R(struct.unpack('<d', struct.pack('<Q', b))[0])

    def zero(self):
        return Fraction(0)


class FloatDomain:
    name = 'C'

    def const(self, f):
        return float(f)

    def add(self, a, b):
        return a + b

    def sub(self, a, b):
        return a - b

    def mul(self, a, b):
        return a * b

    def div(self, a, b):
        try:
            return a / b
        except ZeroDivisionError:
            if a != a or a == 0:
                return math.nan
            return math.copysign(math.inf, a) * math.copysign(1.0, b)

    def neg(self, a):
        return -a

    def abs(self, a):
        return abs(a)

    def cmp(self, pred, a, b):
        un = (a != a) or (b != b)
        if pred == 'ord':
            return not un
        if pred == 'uno':
            return un
        base = {'eq': a == b, 'ne': a != b, 'lt': a < b, 'le': a <= b, 'gt': a > b, 'ge': a >= b}[pred[1:]]
        if pred[0] == 'o':
            return (not un) and base
        return un or base

    def fromint(self, a, bits, signed):
        return float(T.tosigned(a, bits) if signed else T.mask(a, bits))

    def toint(self, a, bits, signed):
        if a != a or abs(a) == math.inf:
            raise PathError('ub', 'fptoint of nan/inf')
        v = int(a)
        return T.mask(v, bits)

    def libm(self, name, args):
        try:
            if name == 'cbrt':
                return math.copysign(abs(args[0]) ** (1.0 / 3), args[0])
            if name == 'exp2':
                return 2.0 ** args[0]
            if name == 'ceil':
                return float(math.ceil(args[0]))
            if name == 'floor':
                return float(math.floor(args[0]))
            return getattr(math, name)(*args)
        except (ValueError, OverflowError):
            return math.nan

    def tobits(self, a):
        return struct.unpack('<Q', struct.pack('<d', a))[0]

    def frombits(self, b):
        return struct.unpack('<d', struct.pack('<Q', b))[0]

    def zero(self):
        return 0.0


# ---------------------------------------------------------------------------------------- memory
class Obj:
    __slots__ = ('base', 'size', 'kind', 'name', 'live', 'cells', 'ro', 'zero', 'owner', 'shared')

    def __init__(self, base, size, kind, name, zero=False, ro=False):
        self.base = base
        self.size = size
        self.kind = kind
        self.name = name
        self.live = True
        self.cells = {}
        self.ro = ro
        self.zero = zero
        self.shared = False

    def clone(self):
        if self.ro:
            return self
        o = Obj(self.base, self.size, self.kind, self.name, self.zero, self.ro)
        o.live = self.live
        o.cells = dict(self.cells)
        return o


class Frame:
    __slots__ = ('fn', 'label', 'idx', 'regs', 'prev', 'allocas', 'block', 'saved')

    def __init__(self, fn):
        self.fn = fn
        self.label = fn.entry
        self.block = fn.blocks[fn.entry]
        self.idx = 0
        self.regs = {}
        self.prev = None
        self.allocas = []
        self.saved = None

    def clone(self):
        f = Frame.__new__(Frame)
        f.fn = self.fn
        f.label = self.label
        f.block = self.block
        f.idx = self.idx
        f.regs = dict(self.regs)
        f.prev = self.prev
        f.allocas = list(self.allocas)
        f.saved = self.saved
        return f


GLOBAL_BASE = 0x10000
FUNC_BASE = 0x1000
STACK_BASE = 0x7f0000000000
HEAP_BASE = 0x500000000000
USER_BASE = 0x600000000000


class State:
    def __init__(self):
        self.objs = []        # sorted by base
        self.bases = []
        self.frames = []
        self.pc = []          # list of boolean Terms
        self.exc = None       # in-flight exception
        self.caught = []
        self.forced = []
        self.next_stack = STACK_BASE
        self.next_heap = HEAP_BASE
        self.next_user = USER_BASE
        self.next_global = None
        self.gaddr = {}       # (global name, thread or None) -> address
        self.thread = 0
        self.ledger = []      # heap events (op, kind, addr, size)
        self.log = []         # summaries' call log
        self.nalloc = 0       # count of operator new calls (for failure injection)
        self.fail_alloc = None
        self.align_policy = 'aligned'   # 'aligned' | 'misaligned' | 'fork' | list of residues
        self.tls_dtors = []
        self.steps = 0
        self.notes = []
        self.retval = None
        self.fresh = 0
        self.exc_msgs = {}
        self.access_hook = None
        self.stop_at = None
        self.pending_phi = None
        self.reuse_freed = False
        self.nested = []      # frame depths at which nested (re-entrant) calls made by environment stubs return
        self.divs = []        # recorded (pc, denominator, where) of floating divisions by symbolic values

    def clone(self):
        s = State.__new__(State)
        s.__dict__.update(self.__dict__)
        s.objs = [o.clone() for o in self.objs]
        s.bases = list(self.bases)
        s.frames = [f.clone() for f in self.frames]
        s.pc = list(self.pc)
        s.caught = list(self.caught)
        s.forced = list(self.forced)
        s.gaddr = dict(self.gaddr)
        s.ledger = list(self.ledger)
        s.log = list(self.log)
        s.tls_dtors = list(self.tls_dtors)
        s.notes = list(self.notes)
        s.exc_msgs = dict(self.exc_msgs)
        s.divs = list(self.divs)
        s.nested = list(self.nested)
        if isinstance(self.align_policy, list):
            s.align_policy = list(self.align_policy)
        return s

    # ---- object table
    def add_obj(self, o):
        i = bisect.bisect_left(self.bases, o.base)
        self.bases.insert(i, o.base)
        self.objs.insert(i, o)
        return o

    def find(self, addr):
        i = bisect.bisect_right(self.bases, addr) - 1
        if i < 0:
            return None
        o = self.objs[i]
        if o.base <= addr <= o.base + o.size:
            return o
        return None

    def alloc(self, size, kind, name, region, align=16, zero=False):
        if region == 'stack':
            base = (self.next_stack + align - 1) // align * align
            self.next_stack = base + size + 64
        elif region == 'user':
            base = (self.next_user + align - 1) // align * align
            self.next_user = base + size + 256
        elif region == 'global':
            base = (self.next_global + align - 1) // align * align
            self.next_global = base + size + 64
        else:
            raise ValueError(region)
        return self.add_obj(Obj(base, size, kind, name, zero=zero))

    def heap_alloc(self, size, kind, residue=0):
        """residue: address mod 32 (0 or 16)"""
        if self.reuse_freed:
            # model an allocator that hands a just-released block of the same size out again (address reuse)
            for ev in reversed(self.ledger):
                if ev[0] == 'free' and ev[1] == kind and ev[3] == size:
                    o = self.find(ev[2])
                    if o is not None and not o.live and o.base == ev[2] and (o.base % 32) == residue:
                        o.live = True
                        o.cells = {}
                        o.zero = False
                        self.ledger.append(('alloc', kind, o.base, size))
                        return o
        base = (self.next_heap + 31) // 32 * 32 + residue
        self.next_heap = base + size + 64
        o = self.add_obj(Obj(base, size, kind, 'heap#%d' % len(self.ledger)))
        self.ledger.append(('alloc', kind, base, size))
        return o

    def live_heap(self, kinds=('new[]', 'new', 'malloc')):
        return [o for o in self.objs if o.kind in kinds and o.live]

    # ---- typed access for harness drivers
    def user_buffer(self, nbytes, name, align=32):
        return self.alloc(nbytes, 'user', name, 'user', align=align)


class PathResult:
    def __init__(self, status, state, retval=None, info=None):
        self.status = status      # 'ok' | 'exception' | 'error'
        self.state = state
        self.retval = retval
        self.info = info

    def __repr__(self):
        return 'PathResult(%s, ret=%r, info=%r)' % (self.status, self.retval, self.info)


EXC_BASES = {
    '_ZTISt13runtime_error': ['_ZTISt9exception'],
    '_ZTISt9bad_alloc': ['_ZTISt9exception'],
    '_ZTISt11logic_error': ['_ZTISt9exception'],
    '_ZTISt12length_error': ['_ZTISt11logic_error', '_ZTISt9exception'],
    '_ZTISt12out_of_range': ['_ZTISt11logic_error', '_ZTISt9exception'],
    '_ZTISt16invalid_argument': ['_ZTISt11logic_error', '_ZTISt9exception'],
    '_ZTISt20bad_array_new_length': ['_ZTISt9bad_alloc', '_ZTISt9exception'],
}


class Executor:
    def __init__(self, mod, domain='R', solver=None, max_steps=5_000_000):
        self.mod = mod
        self.dom = RealDomain() if domain == 'R' else FloatDomain()
        self.solver = solver
        self.max_steps = max_steps
        self.intr = {}
        self.summaries = {}        # function name -> python handler(ex, st, args, ins) -> value
        self.func_addr = {}
        self.addr_func = {}
        self.assume_mode = 'assert'   # llvm.assume: 'assert' (report if violable) | 'ignore'
        self.branch_hook = None
        self.trace = False
        self.typeids = {}
        self.merge = False
        self.call_log_names = set()
        self.record_divs = False
        self.merge_budget = 4000
        self._ipdom = {}
        self.stats = {'steps': 0, 'forks': 0, 'paths': 0, 'feas_queries': 0}
        from . import intrinsics
        intrinsics.install(self)
        for i, name in enumerate(sorted(mod.functions)):
            a = FUNC_BASE + 16 * i
            self.func_addr[name] = a
            self.addr_func[a] = name
        self._ops = {}
        for k in dir(self):
            if k.startswith('op_'):
                self._ops[k[3:]] = getattr(self, k)

    # ------------------------------------------------------------------ state set-up
    def new_state(self):
        st = State()
        st.next_global = GLOBAL_BASE + 0x100000
        return st

    def global_addr(self, st, name):
        al = self.mod.aliases.get(name)
        if al is not None:
            v = al
            if isinstance(v, L.Glob):
                return self.global_addr(st, v.name)
            return self.constval(st, None, v)
        if name in self.mod.functions and name not in self.mod.globals:
            return self.func_addr[name]
        g = self.mod.globals.get(name)
        if g is None:
            raise ExecError('unknown global @%s' % name)
        key = (name, st.thread if g.tls else None)
        a = st.gaddr.get(key)
        if a is not None:
            return a
        size = L.size_of(g.ty)
        if g.external:
            # external data (typeinfo objects etc.): an opaque 8-byte-aligned object
            o = st.alloc(max(size, 8), 'global', name, 'global', align=max(g.align, 8), zero=True)
            st.gaddr[key] = o.base
            return o.base
        o = st.alloc(size, 'tls' if g.tls else 'global', name, 'global', align=max(g.align, 1), zero=True)
        st.gaddr[key] = o.base
        if g.init is not None and not isinstance(g.init, L.CZero):
            self.store_const(st, o.base, g.ty, g.init)
        if g.const:
            o.ro = True
        return o.base

    def store_const(self, st, addr, ty, c):
        ty = L.res(ty)
        if isinstance(c, L.CZero) or isinstance(c, L.CUndef):
            return
        if isinstance(c, L.CStr):
            o = st.find(addr)
            for i, b in enumerate(c.data):
                if b:
                    o.cells[addr - o.base + i] = (1, b)
            return
        if isinstance(c, L.CAgg):
            if isinstance(ty, L.StructT):
                offs, _ = L.struct_layout(ty)
                for (et, ev), off in zip(c.elems, offs):
                    self.store_const(st, addr + off, et, ev)
            elif isinstance(ty, (L.ArrayT, L.VecT)):
                es = L.size_of(ty.elem)
                for i, (et, ev) in enumerate(c.elems):
                    self.store_const(st, addr + i * es, et, ev)
            else:
                raise ExecError('aggregate constant for %r' % ty)
            return
        v = self.constval(st, ty, c)
        o = st.find(addr)
        sz = L.size_of(ty)
        if isinstance(v, int) and v == 0 and o.zero:
            return
        o.cells[addr - o.base] = (sz, v)

    # ------------------------------------------------------------------ operand evaluation
    def constval(self, st, ty, c):
        if isinstance(c, L.CInt):
            return c.v
        if isinstance(c, L.CFloat):
            return self.dom.const(c.v)
        if isinstance(c, L.CNull):
            return 0
        if isinstance(c, L.Glob):
            return self.global_addr(st, c.name)
        if isinstance(c, L.CUndef):
            return UNDEF
        if isinstance(c, L.CZero):
            return self.zero_of(ty)
        if isinstance(c, L.CExpr):
            return self.cexpr(st, c)
        if isinstance(c, L.CAgg):
            return [self.constval(st, et, ev) for et, ev in c.elems]
        if isinstance(c, L.MetaV):
            return None
        raise ExecError('constval %r' % (c,))

    def zero_of(self, ty):
        ty = L.res(ty)
        if isinstance(ty, L.IntT) or isinstance(ty, L.PtrT):
            return 0
        if isinstance(ty, L.FloatT):
            return self.dom.zero()
        if isinstance(ty, L.StructT):
            return [self.zero_of(e) for e in ty.elems]
        if isinstance(ty, (L.ArrayT, L.VecT)):
            return [self.zero_of(ty.elem) for _ in range(ty.n)]
        raise ExecError('zero_of %r' % ty)

    def cexpr(self, st, c):
        if c.op == 'getelementptr':
            (pt, pv) = c.args[0]
            base = self.constval(st, pt, pv)
            idx = [self.constval(st, t, v) for t, v in c.args[1:]]
            return self.gep(c.ty, base, idx)
        if c.op in ('bitcast', 'inttoptr', 'ptrtoint', 'addrspacecast'):
            return self.constval(st, c.args[0][0], c.args[0][1])
        if c.op in ('trunc', 'zext', 'sext'):
            v = self.constval(st, c.args[0][0], c.args[0][1])
            fb = L.res(c.args[0][0]).bits
            tb = L.res(c.ty).bits
            return {'trunc': T.trunc, 'zext': T.zext, 'sext': T.sext}[c.op](v, fb, tb)
        if c.op in L.BINOPS:
            a = self.constval(st, c.args[0][0], c.args[0][1])
            b = self.constval(st, c.args[1][0], c.args[1][1])
            t = L.res(c.args[0][0])
            bits = 64 if isinstance(t, L.PtrT) else t.bits
            return T.bvop(c.op, a, b, bits)
        if c.op == 'icmp':
            a = self.constval(st, c.args[0][0], c.args[0][1])
            b = self.constval(st, c.args[1][0], c.args[1][1])
            t = L.res(c.args[0][0])
            bits = 64 if isinstance(t, L.PtrT) else t.bits
            return int(T.icmp(c.extra, a, b, bits))
        if c.op == 'select':
            cnd = self.constval(st, *c.args[0])
            return self.constval(st, *c.args[1]) if cnd else self.constval(st, *c.args[2])
        raise ExecError('constant expression %s' % c.op)

    def val(self, st, fr, ty, v):
        if v.__class__ is L.Reg:
            try:
                return fr.regs[v.name]
            except KeyError:
                raise ExecError('undefined register %%%s in %s' % (v.name, fr.fn.name))
        return self.constval(st, ty, v)

    def gep(self, sty, base, idx):
        """sty: source element type; idx: list of index values (ints or Terms)"""
        addr = base
        t = sty
        first = True
        for i in idx:
            if first:
                sz = L.size_of(t)
                first = False
                addr = self._addmul(addr, i, sz)
                continue
            t = L.res(t)
            if isinstance(t, L.StructT):
                if isinstance(i, Term):
                    raise ExecError('symbolic struct index')
                offs, _ = L.struct_layout(t)
                addr = self._addmul(addr, offs[i], 1)
                t = t.elems[i]
            elif isinstance(t, (L.ArrayT, L.VecT)):
                t = t.elem
                addr = self._addmul(addr, i, L.size_of(t))
            else:
                raise ExecError('gep into %r' % (t,))
        return addr

    @staticmethod
    def _addmul(addr, i, sz):
        if isinstance(i, Term) or isinstance(addr, Term):
            if isinstance(i, Term) and i.sort[1] != 64:
                i = T.sext(i, i.sort[1], 64)
            return T.bvop('add', addr, T.bvop('mul', i, sz, 64), 64)
        if isinstance(i, int):
            # indices are signed
            if i >= 1 << 63:
                i -= 1 << 64
            return (addr + i * sz) & ((1 << 64) - 1)
        raise ExecError('gep index %r' % (i,))

    # ------------------------------------------------------------------ memory access
    def check_access(self, st, addr, n, write, what):
        if isinstance(addr, Term):
            raise ExecError('symbolic address reached memory access (should have been concretised)')
        if addr is UNDEF:
            raise PathError('invalid-access', '%s through an uninitialised pointer' % what)
        if addr == 0 or addr < 4096:
            raise PathError('invalid-access', '%s of %d bytes at null/low address %#x' % (what, n, addr))
        o = st.find(addr)
        if o is None or addr + n > o.base + o.size:
            near = o.name if o else None
            raise PathError('invalid-access', '%s of %d bytes at %#x outside any object (nearest: %s)' % (what, n, addr, near))
        if not o.live:
            raise PathError('use-after-free', '%s of %d bytes at %#x in dead object %s (%s)' % (what, n, addr, o.name, o.kind))
        if write and o.ro:
            raise PathError('invalid-access', 'write to constant %s' % o.name)
        if o.kind == 'func':
            raise PathError('invalid-access', 'data access to function')
        return o

    def load(self, st, addr, ty):
        ty = L.res(ty)
        if isinstance(ty, (L.StructT, L.ArrayT)):
            return self.load_agg(st, addr, ty)
        n = L.size_of(ty)
        o = self.check_access(st, addr, n, False, 'load')
        if st.access_hook is not None:
            st.access_hook(st, 'load', addr, n, o)
        off = addr - o.base
        c = o.cells.get(off)
        if c is not None and c[0] == n:
            return self.coerce(c[1], ty)
        return self.load_slow(st, o, off, n, ty)

    def load_agg(self, st, addr, ty):
        if isinstance(ty, L.StructT):
            offs, _ = L.struct_layout(ty)
            return [self.load(st, addr + o, e) for o, e in zip(offs, ty.elems)]
        es = L.size_of(ty.elem)
        return [self.load(st, addr + i * es, ty.elem) for i in range(ty.n)]

    def coerce(self, v, ty):
        """value stored in memory -> value of requested type"""
        if v is UNDEF:
            return v
        if isinstance(ty, L.FloatT):
            if isinstance(v, Bits):
                return v.v
            if isinstance(v, int) and not isinstance(v, bool):
                if ty.kind == 'double':
                    return self.dom.frombits(v)
                raise ExecError('int->float coercion for %s' % ty.kind)
            return v
        # want int / pointer
        if isinstance(v, (Fraction, float)):
            return self.dom.tobits(v)
        if isinstance(v, Term) and v.sort == 'R':
            return Bits(v)
        if isinstance(v, Term) and v.sort == 'B':
            bits = ty.bits if isinstance(ty, L.IntT) else 64
            return T.zext(v, 1, bits)
        return v

    def load_slow(self, st, o, off, n, ty):
        # assemble from bytes of overlapping concrete cells
        cells = o.cells
        touched = [(k, c) for k, c in cells.items() if k < off + n and k + c[0] > off]
        if not touched:
            if o.zero:
                return self.zero_of(ty)
            return UNDEF
        by = [None] * n
        for k, (sz, v) in touched:
            if v is UNDEF:
                continue
            if isinstance(v, (Fraction, float)):
                v = self.dom.tobits(v)
            if isinstance(v, bool):
                v = int(v)
            if not isinstance(v, int):
                # a symbolic value partially read
                if isinstance(ty, L.IntT) and isinstance(v, Term) and v.sort[0] == 'bv' and k == off and n < sz:
                    return T.trunc(v, sz * 8, n * 8)
                raise ExecError('partial load of symbolic cell (obj %s off %d size %d, load %d@%d)' % (o.name, k, sz, n, off))
            for j in range(sz):
                p = k + j - off
                if 0 <= p < n:
                    by[p] = (v >> (8 * j)) & 0xff
        if any(b is None for b in by):
            if o.zero:
                by = [0 if b is None else b for b in by]
            else:
                if all(b is None for b in by):
                    return UNDEF
                by = [0 if b is None else b for b in by]   # partially initialised (padding): treat as 0
        v = 0
        for j, b in enumerate(by):
            v |= b << (8 * j)
        return self.coerce(v, ty)

    def store(self, st, addr, ty, v):
        ty = L.res(ty)
        if isinstance(ty, (L.StructT, L.ArrayT)):
            if isinstance(ty, L.StructT):
                offs, _ = L.struct_layout(ty)
                for o_, e, x in zip(offs, ty.elems, v):
                    self.store(st, addr + o_, e, x)
            else:
                es = L.size_of(ty.elem)
                for i, x in enumerate(v):
                    self.store(st, addr + i * es, ty.elem, x)
            return
        n = L.size_of(ty)
        o = self.check_access(st, addr, n, True, 'store')
        if st.access_hook is not None:
            st.access_hook(st, 'store', addr, n, o)
        off = addr - o.base
        if isinstance(ty, L.IntT) and isinstance(v, int):
            v = T.mask(v, ty.bits)
        self.write_cell(o, off, n, v)

    def write_cell(self, o, off, n, v):
        cells = o.cells
        c = cells.get(off)
        if c is not None and c[0] == n:
            cells[off] = (n, v)
            return
        # remove / split overlapping cells
        for k in [k for k, c in cells.items() if k < off + n and k + c[0] > off]:
            sz, old = cells.pop(k)
            if k >= off and k + sz <= off + n:
                continue
            # partial overwrite: split old into bytes (concrete only)
            if isinstance(old, (Fraction, float)):
                old = self.dom.tobits(old)
            if old is UNDEF:
                continue
            if not isinstance(old, int):
                # part of a symbolic value is overwritten (e.g. a memset counted in bytes instead of elements): what remains of the cell is an
                # arbitrary value of its width -- a fresh symbol, so nothing can be proved about it
                Executor._clobber = getattr(Executor, '_clobber', 0) + 1
                rest_lo, rest_hi = k, k + sz
                cells[k] = (sz, T.var('clobbered%d' % Executor._clobber) if (isinstance(old, Term) and old.sort == 'R') or isinstance(old, (Fraction, float)) else UNDEF)
                # the freshly written range is stored by the caller below; make room for it by shrinking nothing: the caller's cell wins on lookup order
                del cells[k]
                if k < off:
                    cells[k] = (off - k, UNDEF) if (off - k) != 8 else (8, T.var('clobbered%d' % Executor._clobber))
                if k + sz > off + n:
                    cells[off + n] = (k + sz - off - n, UNDEF) if (k + sz - off - n) != 8 else (8, T.var('clobbered%dh' % Executor._clobber))
                continue
            for j in range(sz):
                p = k + j
                if p < off or p >= off + n:
                    cells[p] = (1, (old >> (8 * j)) & 0xff)
        cells[off] = (n, v)

    def memcpy(self, st, dst, src, n, move=False):
        if n == 0:
            return
        so = self.check_access(st, src, n, False, 'memcpy-read')
        do = self.check_access(st, dst, n, True, 'memcpy-write')
        if st.access_hook is not None:
            st.access_hook(st, 'load', src, n, so)
            st.access_hook(st, 'store', dst, n, do)
        if not move and so is do and not (src + n <= dst or dst + n <= src) and src != dst:
            raise PathError('ub', 'memcpy with overlapping ranges')
        soff = src - so.base
        doff = dst - do.base
        items = []
        for k, (sz, v) in so.cells.items():
            if k < soff + n and k + sz > soff:
                if k >= soff and k + sz <= soff + n:
                    items.append((k - soff, sz, v))
                else:
                    # partial: split bytes
                    if isinstance(v, (Fraction, float)):
                        v = self.dom.tobits(v)
                    if v is UNDEF:
                        continue
                    if not isinstance(v, int):
                        raise ExecError('memcpy splits a symbolic cell')
                    for j in range(sz):
                        p = k + j
                        if soff <= p < soff + n:
                            items.append((p - soff, 1, (v >> (8 * j)) & 0xff))
        # clear destination range
        for k in [k for k, c in do.cells.items() if k < doff + n and k + c[0] > doff]:
            sz, old = do.cells[k]
            if k >= doff and k + sz <= doff + n:
                del do.cells[k]
            else:
                self.write_cell(do, max(k, doff), min(k + sz, doff + n) - max(k, doff), 0)
                # the partially-overwritten bytes are replaced below or zeroed; remove the filler
                do.cells.pop(max(k, doff), None)
        if so.zero and not do.zero:
            # bytes not covered by cells are zero in the source: materialise zeros
            covered = [False] * n
            for (off, sz, v) in items:
                for j in range(sz):
                    covered[off + j] = True
            j = 0
            while j < n:
                if not covered[j]:
                    # emit zero bytes in 8-byte chunks where possible
                    if j % 8 == 0 and j + 8 <= n and not any(covered[j:j + 8]):
                        do.cells[doff + j] = (8, 0)
                        j += 8
                        continue
                    do.cells[doff + j] = (1, 0)
                j += 1
        for (off, sz, v) in items:
            do.cells[doff + off] = (sz, v)

    def memset(self, st, dst, byte, n):
        if n == 0:
            return
        o = self.check_access(st, dst, n, True, 'memset')
        if st.access_hook is not None:
            st.access_hook(st, 'store', dst, n, o)
        if isinstance(byte, Term):
            raise ExecError('symbolic memset value')
        byte &= 0xff
        off = dst - o.base
        for k in [k for k, c in o.cells.items() if k < off + n and k + c[0] > off]:
            sz, old = o.cells[k]
            if k >= off and k + sz <= off + n:
                del o.cells[k]
            else:
                self.write_cell(o, max(k, off), min(k + sz, off + n) - max(k, off), 0)
                o.cells.pop(max(k, off), None)
        if byte == 0 and o.zero:
            return
        j = 0
        while j < n:
            if (off + j) % 8 == 0 and j + 8 <= n:
                o.cells[off + j] = (8, int.from_bytes(bytes([byte]) * 8, 'little'))
                j += 8
            else:
                o.cells[off + j] = (1, byte)
                j += 1

    def read_cstr(self, st, addr, maxlen=4096):
        out = bytearray()
        for i in range(maxlen):
            b = self.load(st, addr + i, L.I8)
            if b is UNDEF or isinstance(b, Term):
                break
            if b == 0:
                break
            out.append(b)
        return out.decode('latin1')

    # ------------------------------------------------------------------ solver glue
    def feasible(self, st, cond):
        """is pc & cond satisfiable?  unknown counts as feasible (over-approximation)."""
        if not isinstance(cond, Term):
            return bool(cond)
        self.stats['feas_queries'] += 1
        if self.solver is None:
            raise ExecError('symbolic branch but no solver configured: %r' % (cond,))
        r = self.solver.check(st.pc + [cond])
        return r != 'unsat'

    def choose(self, st):
        if st.forced:
            return st.forced.pop(0)
        return None

    def concretize(self, st, v, what, limit=64):
        """v: bit-vector Term.  Returns a concrete int, forking over all feasible values."""
        if not isinstance(v, Term):
            return v
        f = self.choose(st)
        if f is not None:
            return f
        vals = self.solver.enumerate(st.pc, v, limit)
        if vals is None:
            raise ExecError('cannot enumerate values of %s (%r)' % (what, v))
        if not vals:
            raise ExecError('infeasible path reached concretize')
        bits = v.sort[1]
        raise Fork([([T.icmp('eq', v, x, bits)], x) for x in vals])

    # ------------------------------------------------------------------ running
    def run(self, st0, fname, args, max_paths=100000):
        """execute function fname(args) from state st0 on all paths; returns list of PathResult"""
        fn = self.mod.functions.get(fname)
        if fn is None or not fn.defined:
            raise ExecError('no definition of %s' % fname)
        fn.parse_body()
        st = st0.clone()
        fr = Frame(fn)
        if len(args) != len(fn.params):
            raise ExecError('%s expects %d args' % (fname, len(fn.params)))
        for (pt, pn), a in zip(fn.params, args):
            fr.regs[pn] = a
        st.frames = [fr]
        work = [st]
        results = []
        while work:
            s = work.pop()
            r = self.run_path(s)
            if isinstance(r, list):
                self.stats['forks'] += 1
                work.extend(r)
                if len(work) + len(results) > max_paths:
                    raise ExecError('path explosion (> %d)' % max_paths)
            else:
                self.stats['paths'] += 1
                results.append(r)
        return results

    def run_path(self, st):
        ops = self._ops
        try:
            while True:
                fr = st.frames[-1]
                ins = fr.block[fr.idx]
                st.steps += 1
                if st.steps > self.max_steps:
                    raise ExecError('step limit exceeded in %s' % fr.fn.name)
                if self.trace:
                    print('   [%s] %s' % (fr.fn.name[:40], ins.line[:150]), file=sys.stderr)
                try:
                    h = ops[ins.op]
                except KeyError:
                    raise ExecError('unsupported instruction %s' % ins.op)
                r = h(st, fr, ins)
                if r is not None:
                    self.stats['steps'] += st.steps
                    return r
        except Fork as f:
            out = []
            for (pc, forced) in f.options:
                s2 = st.clone()
                s2.pc.extend(pc)
                s2.forced.append(forced)
                out.append(s2)
            return out
        except PathError as e:
            fr = st.frames[-1] if st.frames else None
            where = '%s: %s' % (fr.fn.name, fr.block[fr.idx].line[:160]) if fr else ''
            stack = [f.fn.name for f in st.frames]
            return PathResult('error', st, info={'kind': e.kind, 'msg': e.msg, 'where': where, 'stack': stack})
        except ZeroDivisionError as e:
            fr = st.frames[-1]
            return PathResult('error', st, info={'kind': 'ub', 'msg': 'integer division by zero',
                                                 'where': '%s: %s' % (fr.fn.name, fr.block[fr.idx].line[:160])})

    # ------------------------------------------------------------------ instructions
    def _set(self, fr, ins, v):
        if ins.dst is not None:
            fr.regs[ins.dst] = v
        fr.idx += 1

    def _ibits(self, ty):
        ty = L.res(ty)
        if isinstance(ty, L.IntT):
            return ty.bits
        if isinstance(ty, L.PtrT):
            return 64
        raise ExecError('integer op on %r' % (ty,))

    def _chk_undef(self, *vs):
        for v in vs:
            if v is UNDEF:
                raise PathError('uninit', 'use of an uninitialised value')

    def _binop(self, st, fr, ins):
        ty = L.res(ins.ty)
        a = self.val(st, fr, ty, ins.a)
        b = self.val(st, fr, ty, ins.b)
        op = ins.op
        if isinstance(ty, L.FloatT):
            self._chk_undef(a, b)
            d = self.dom
            if op == 'fadd':
                r = d.add(a, b)
            elif op == 'fsub':
                r = d.sub(a, b)
            elif op == 'fmul':
                r = d.mul(a, b)
            elif op == 'fdiv':
                if self.record_divs and isinstance(b, Term):
                    st.divs.append((list(st.pc), b, fr.fn.name))
                r = d.div(a, b)
            else:
                raise ExecError(op)
            self._set(fr, ins, r)
            return
        if isinstance(ty, L.VecT):
            raise ExecError('vector arithmetic')
        bits = ty.bits
        if a is UNDEF or b is UNDEF:
            # and/or with constants on partially-undefined bytes (bit-fields, bools) are tolerated as undef
            if op in ('and', 'or', 'xor', 'shl', 'lshr'):
                self._set(fr, ins, UNDEF)
                return
            raise PathError('uninit', 'arithmetic on an uninitialised value')
        if isinstance(a, Bits) or isinstance(b, Bits):
            raise ExecError('integer arithmetic on the bit pattern of a symbolic double')
        if ins.x and not isinstance(a, Term) and not isinstance(b, Term):
            self._check_wrap(op, a, b, bits, ins.x)
        if op in ('shl', 'lshr', 'ashr') and not isinstance(b, Term) and T.mask(b, bits) >= bits:
            raise PathError('ub', 'shift by %d >= width %d' % (b, bits))
        if op in ('udiv', 'sdiv', 'urem', 'srem') and isinstance(b, Term):
            if self.feasible(st, T.icmp('eq', b, 0, bits)):
                raise PathError('ub', 'integer division by a possibly-zero symbolic value')
        r = T.bvop(op, a, b, bits)
        self._set(fr, ins, r)

    def _check_wrap(self, op, a, b, bits, flags):
        if op not in ('add', 'sub', 'mul', 'shl'):
            return
        if 'nsw' in flags:
            sa, sb = T.tosigned(a, bits), T.tosigned(b, bits)
            r = {'add': sa + sb, 'sub': sa - sb, 'mul': sa * sb, 'shl': sa << (sb if 0 <= sb < bits else 0)}[op]
            if not (-(1 << (bits - 1)) <= r < (1 << (bits - 1))):
                raise PathError('ub', 'signed overflow in %s nsw i%d %d, %d' % (op, bits, sa, sb))
        if 'nuw' in flags:
            ua, ub = T.mask(a, bits), T.mask(b, bits)
            r = {'add': ua + ub, 'sub': ua - ub, 'mul': ua * ub, 'shl': ua << (ub if ub < bits else 0)}[op]
            if not (0 <= r < (1 << bits)):
                raise PathError('ub', 'unsigned overflow in %s nuw i%d %d, %d' % (op, bits, ua, ub))

    op_add = op_sub = op_mul = op_udiv = op_sdiv = op_urem = op_srem = _binop
    op_and = op_or = op_xor = op_shl = op_lshr = op_ashr = _binop
    op_fadd = op_fsub = op_fmul = op_fdiv = _binop

    def op_fneg(self, st, fr, ins):
        a = self.val(st, fr, ins.ty, ins.a)
        self._chk_undef(a)
        self._set(fr, ins, self.dom.neg(a))

    def op_load(self, st, fr, ins):
        addr = self.val(st, fr, None, ins.a)
        if isinstance(addr, Term):
            addr = self.concretize(st, addr, 'load address')
        self._set(fr, ins, self.load(st, addr, ins.ty))

    def op_store(self, st, fr, ins):
        addr = self.val(st, fr, None, ins.b)
        if isinstance(addr, Term):
            addr = self.concretize(st, addr, 'store address')
        v = self.val(st, fr, ins.ty, ins.a)
        self.store(st, addr, ins.ty, v)
        fr.idx += 1

    def op_getelementptr(self, st, fr, ins):
        (pt, pv) = ins.a[0]
        base = self.val(st, fr, pt, pv)
        if base is UNDEF:
            raise PathError('uninit', 'address computation from an uninitialised pointer')
        idx = [self.val(st, fr, t, v) for t, v in ins.a[1:]]
        for k, i in enumerate(idx):
            if i is UNDEF:
                raise PathError('uninit', 'uninitialised index in address computation')
            if isinstance(i, int):
                bits = self._ibits(ins.a[1 + k][0])
                idx[k] = T.tosigned(i, bits)
        self._set(fr, ins, self.gep(ins.ty, base, idx))

    def _cast(self, st, fr, ins):
        v = self.val(st, fr, ins.b, ins.a)
        op = ins.op
        ft = L.res(ins.b)
        tt = L.res(ins.ty)
        if op in ('bitcast', 'addrspacecast'):
            if isinstance(ft, L.PtrT) and isinstance(tt, L.PtrT):
                r = v
            elif isinstance(ft, L.FloatT) and isinstance(tt, L.IntT):
                r = v if v is UNDEF else self.coerce(v, tt)
            elif isinstance(ft, L.IntT) and isinstance(tt, L.FloatT):
                r = v if v is UNDEF else self.coerce(v, tt)
            else:
                raise ExecError('bitcast %r -> %r' % (ft, tt))
        elif op in ('ptrtoint', 'inttoptr'):
            fb = self._ibits(ft)
            tb = self._ibits(tt)
            if v is UNDEF:
                r = v
            elif tb < fb:
                r = T.trunc(v, fb, tb)
            elif tb > fb:
                r = T.zext(v, fb, tb)
            else:
                r = v
        elif op in ('trunc', 'zext', 'sext'):
            if v is UNDEF:
                r = UNDEF
            else:
                if isinstance(v, Bits):
                    raise ExecError('int cast of double bit pattern')
                r = {'trunc': T.trunc, 'zext': T.zext, 'sext': T.sext}[op](v, ft.bits, tt.bits)
        elif op in ('sitofp', 'uitofp'):
            self._chk_undef(v)
            r = self.dom.fromint(v, ft.bits, op == 'sitofp')
        elif op in ('fptosi', 'fptoui'):
            self._chk_undef(v)
            r = self.dom.toint(v, tt.bits, op == 'fptosi')
        elif op in ('fpext', 'fptrunc'):
            if op == 'fptrunc':
                # narrowing to float rounds: an uninterpreted rounding function for symbolic values (so that nothing downstream can be
                # proved equal to the unrounded value), the IEEE single-precision value for concrete ones
                if isinstance(v, Term):
                    r = T.fun('round_to_float', v)
                elif v is UNDEF:
                    r = v
                else:
                    import struct as _st
                    r = self.dom.const(_st.unpack('<f', _st.pack('<f', float(v)))[0])
            else:
                r = v
        else:
            raise ExecError(op)
        self._set(fr, ins, r)

    op_bitcast = op_ptrtoint = op_inttoptr = op_trunc = op_zext = op_sext = _cast
    op_sitofp = op_uitofp = op_fptosi = op_fptoui = op_fpext = op_fptrunc = op_addrspacecast = _cast

    def op_icmp(self, st, fr, ins):
        a = self.val(st, fr, ins.ty, ins.a)
        b = self.val(st, fr, ins.ty, ins.b)
        if a is UNDEF or b is UNDEF:
            self._set(fr, ins, UNDEF)
            return
        if isinstance(a, Bits) or isinstance(b, Bits):
            raise ExecError('icmp on double bit pattern')
        self._set(fr, ins, T.icmp(ins.x, a, b, self._ibits(ins.ty)))

    def op_fcmp(self, st, fr, ins):
        a = self.val(st, fr, ins.ty, ins.a)
        b = self.val(st, fr, ins.ty, ins.b)
        self._chk_undef(a, b)
        self._set(fr, ins, self.dom.cmp(ins.x, a, b))

    def goto(self, fr, label):
        fr.prev = fr.label
        fr.label = label
        try:
            fr.block = fr.fn.blocks[label]
        except KeyError:
            raise ExecError('no block %s in %s' % (label, fr.fn.name))
        fr.idx = 0
        # evaluate phis atomically
        blk = fr.block
        if blk and blk[0].op == 'phi':
            vals = []
            k = 0
            while blk[k].op == 'phi':
                k += 1
            return k
        return 0

    def _enter(self, st, fr, label):
        if st.stop_at is not None and st.stop_at[1] == label and st.stop_at[0] == len(st.frames) and st.stop_at[2] is fr.fn:
            fr.prev = fr.label
            raise StopAtJoin()
        fr.prev = fr.label
        fr.label = label
        try:
            blk = fr.fn.blocks[label]
        except KeyError:
            raise ExecError('no block %s in %s' % (label, fr.fn.name))
        fr.block = blk
        k = 0
        if blk[0].op == 'phi':
            new = []
            while blk[k].op == 'phi':
                p = blk[k]
                try:
                    src = p.a[fr.prev]
                except KeyError:
                    raise ExecError('phi has no incoming for %s in %s' % (fr.prev, fr.fn.name))
                new.append((p.dst, self.val(st, fr, p.ty, src)))
                k += 1
            for d, v in new:
                fr.regs[d] = v
        fr.idx = k

    def op_br(self, st, fr, ins):
        if ins.c is None:
            self._enter(st, fr, ins.a)
            return
        c = self.val(st, fr, L.I1, ins.c)
        if c is UNDEF:
            raise PathError('uninit', 'branch on an uninitialised value')
        if isinstance(c, Term):
            f = self.choose(st)
            if f is None:
                if self.branch_hook is not None:
                    r = self.branch_hook(self, st, fr, ins, c)
                    if r is not None:
                        return r
                t_ok = self.feasible(st, c)
                f_ok = self.feasible(st, T.bnot(c))
                if t_ok and f_ok:
                    if self.merge:
                        m = self.try_merge(st, fr, ins, c)
                        if m:
                            return None
                    raise Fork([([c], True), ([T.bnot(c)], False)])
                if not t_ok and not f_ok:
                    raise ExecError('both branch directions infeasible (inconsistent path condition)')
                f = t_ok
            c = f
        elif isinstance(c, int):
            c = c & 1
        self._enter(st, fr, ins.a if c else ins.b)

    def call_nested(self, st, name, args):
        """re-entrant call of an IR function from an environment stub (e.g. the ODE driver calling the RHS callback).
        Runs to completion on the current path; forking inside is not supported (the caller keeps control flow concrete)."""
        fn = self.mod.functions.get(name)
        if fn is None or not fn.defined:
            raise ExecError('call_nested: no definition of %s' % name)
        fn.parse_body()
        nf = Frame(fn)
        for (pt, pn), a in zip(fn.params, args):
            nf.regs[pn] = a
        st.nested.append(len(st.frames))
        st.frames.append(nf)
        ops = self._ops
        try:
            while True:
                fr = st.frames[-1]
                ins = fr.block[fr.idx]
                st.steps += 1
                r = ops[ins.op](st, fr, ins)
                if r is not None:
                    raise ExecError('path ended inside a nested call: %r' % (r,))
        except NestedReturn as e:
            st.nested.pop()
            return e.value
        except Fork:
            raise ExecError('symbolic fork inside a nested call (%s)' % name)

    # ---- diamond merging -------------------------------------------------------------------
    def ipdom(self, fn):
        """immediate post-dominators of fn's blocks (dict label -> label or None)"""
        r = self._ipdom.get(fn.name)
        if r is not None:
            return r
        succ = {}
        for lab, blk in fn.blocks.items():
            t = blk[-1]
            if t.op == 'br':
                succ[lab] = [t.a] if t.c is None else [t.a, t.b]
            elif t.op == 'switch':
                succ[lab] = [t.b] + [l for _, l in t.c]
            elif t.op == 'invoke':
                succ[lab] = [t.c[0], t.c[1]]
            else:
                succ[lab] = []
        labels = list(fn.blocks)
        EXIT = '<exit>'
        allset = set(labels) | {EXIT}
        pdom = {l: set(allset) for l in labels}
        pdom[EXIT] = {EXIT}
        changed = True
        order = list(reversed(labels))
        while changed:
            changed = False
            for l in order:
                ss = succ[l] or [EXIT]
                new = set.intersection(*[pdom[x] for x in ss]) | {l}
                if new != pdom[l]:
                    pdom[l] = new
                    changed = True
        ip = {}
        for l in labels:
            cands = pdom[l] - {l}
            best = None
            for c_ in cands:
                # the immediate post-dominator is the one post-dominated by all the other candidates
                if all((o == c_) or (o in pdom.get(c_, {EXIT})) for o in cands):
                    best = c_
                    break
            ip[l] = None if best in (None, EXIT) else best
        self._ipdom[fn.name] = ip
        return ip

    def try_merge(self, st, fr, ins, c):
        """execute both arms of a symbolic branch up to the immediate post-dominator and merge the states with ite.
        Returns True (st has been replaced in place by the merged state, positioned in the join block) or False."""
        join = self.ipdom(fr.fn).get(fr.label)
        if join is None:
            return False
        depth = len(st.frames)
        arms = []
        for cond, target in ((c, ins.a), (T.bnot(c), ins.b)):
            s2 = st.clone()
            s2.pc.append(cond)
            s2.forced = []
            s2.stop_at = (depth, join, fr.fn)
            s2.pending_phi = None
            s2.steps = 0
            f2 = s2.frames[-1]
            try:
                if target == join:
                    f2.prev = f2.label
                else:
                    self._enter(s2, f2, target)
                    budget = self.merge_budget
                    ops = self._ops
                    while True:
                        ff = s2.frames[-1]
                        i2 = ff.block[ff.idx]
                        budget -= 1
                        if budget < 0:
                            return False
                        r = ops[i2.op](s2, ff, i2)
                        if r is not None:
                            return False      # path ended inside the arm
            except StopAtJoin:
                pass
            except (Fork, PathError, ZeroDivisionError):
                return False
            if len(s2.frames) != depth or s2.exc is not None:
                return False
            arms.append(s2)
        A, B = arms
        if len(A.objs) != len(B.objs) or len(A.ledger) != len(B.ledger) or len(A.log) != len(B.log) or A.nalloc != B.nalloc:
            return False
        fa, fb = A.frames[-1], B.frames[-1]
        # phis of the join block, per arm
        blk = fr.fn.blocks[join]
        k = 0
        phivals = []
        while blk[k].op == 'phi':
            p = blk[k]
            try:
                va = A.pending_phi[p.dst] if A.pending_phi is not None else self.val(A, fa, p.ty, p.a[fa.prev])
                vb = B.pending_phi[p.dst] if B.pending_phi is not None else self.val(B, fb, p.ty, p.a[fb.prev])
            except KeyError:
                return False
            mv = self._merge_val(c, va, vb, p.ty)
            if mv is _NOMERGE:
                return False
            phivals.append((p.dst, mv))
            k += 1
        # memory
        newcells = []
        for oa, ob in zip(A.objs, B.objs):
            if oa is ob:
                continue
            if oa.base != ob.base or oa.live != ob.live or oa.size != ob.size:
                return False
            if oa.cells == ob.cells:
                continue
            keys = set(oa.cells) | set(ob.cells)
            upd = {}
            for kk in keys:
                ca, cb = oa.cells.get(kk), ob.cells.get(kk)
                if ca is not None and cb is not None and ca[0] == cb[0] and (ca[1] is cb[1] or (not isinstance(ca[1], Term) and not isinstance(cb[1], Term) and type(ca[1]) == type(cb[1]) and ca[1] == cb[1])):
                    continue
                if ca is None or cb is None:
                    other = ca or cb
                    if not oa.zero:
                        return False
                    z = Fraction(0) if isinstance(other[1], (Fraction, float)) or (isinstance(other[1], Term) and other[1].sort == 'R') else 0
                    if self.dom.name == 'C' and isinstance(z, Fraction):
                        z = 0.0
                    ca = ca or (other[0], z)
                    cb = cb or (other[0], z)
                if ca[0] != cb[0]:
                    return False
                mv = self._merge_raw(c, ca[1], cb[1], ca[0])
                if mv is _NOMERGE:
                    return False
                upd[kk] = (ca[0], mv)
            newcells.append((oa, upd))
        # commit: A becomes the merged state
        for oa, upd in newcells:
            oa.cells.update(upd)
        nested_same_join = st.stop_at is not None and st.stop_at[1] == join and st.stop_at[0] == depth and st.stop_at[2] is fr.fn
        fa.regs = dict(fr.regs)
        A.pending_phi = None
        if nested_same_join:
            # the enclosing merge stops at the same join block: hand the merged phi values over instead of entering it
            A.pending_phi = dict(phivals)
            fa.label = fr.label
            fa.block = fr.block
            fa.idx = fr.idx
            fa.prev = fr.prev
        else:
            for d_, v_ in phivals:
                fa.regs[d_] = v_
            fa.prev = None
            fa.label = join
            fa.block = blk
            fa.idx = k
        A.pc = list(st.pc)
        A.divs = A.divs + B.divs[len(st.divs):]
        A.stop_at = st.stop_at
        A.forced = list(st.forced)
        A.steps = st.steps + A.steps + B.steps
        A.notes = st.notes
        st.__dict__.update(A.__dict__)
        self.stats['merges'] = self.stats.get('merges', 0) + 1
        if nested_same_join:
            raise StopAtJoin()
        return True

    def _merge_val(self, c, va, vb, ty):
        ty = L.res(ty)
        if va is vb:
            return va
        if va is UNDEF or vb is UNDEF:
            return _NOMERGE
        if isinstance(ty, L.FloatT):
            return T.ite(c, va, vb, 'R')
        if isinstance(ty, L.IntT) and ty.bits == 1:
            return T.ite(c, T._tob(va), T._tob(vb), 'B')
        if isinstance(ty, (L.IntT, L.PtrT)):
            if isinstance(va, Bits) or isinstance(vb, Bits):
                return _NOMERGE
            if not isinstance(va, Term) and not isinstance(vb, Term) and va == vb:
                return va
            return T.ite(c, va, vb, ('bv', self._ibits(ty)))
        return _NOMERGE

    def _merge_raw(self, c, va, vb, size):
        if va is vb:
            return va
        if va is UNDEF or vb is UNDEF or isinstance(va, Bits) or isinstance(vb, Bits):
            return _NOMERGE
        isr = lambda v: isinstance(v, (Fraction, float)) or (isinstance(v, Term) and v.sort == 'R')
        if isr(va) and isr(vb):
            if self.dom.name == 'C':
                return _NOMERGE
            return T.ite(c, va, vb, 'R')
        if isr(va) or isr(vb):
            return _NOMERGE
        isb = lambda v: isinstance(v, bool) or (isinstance(v, Term) and v.sort == 'B')
        if isb(va) or isb(vb):
            va = T.zext(va, 1, size * 8) if isinstance(va, Term) and va.sort == 'B' else int(va)
            vb = T.zext(vb, 1, size * 8) if isinstance(vb, Term) and vb.sort == 'B' else int(vb)
        return T.ite(c, va, vb, ('bv', size * 8))

    def op_switch(self, st, fr, ins):
        v = self.val(st, fr, ins.ty, ins.a)
        self._chk_undef(v)
        if isinstance(v, Term):
            v = self.concretize(st, v, 'switch value')
        bits = self._ibits(ins.ty)
        v = T.mask(v, bits)
        for cv, lab in ins.c:
            if T.mask(cv, bits) == v:
                self._enter(st, fr, lab)
                return
        self._enter(st, fr, ins.b)

    def op_phi(self, st, fr, ins):
        raise ExecError('phi reached outside block entry')

    def op_select(self, st, fr, ins):
        c = self.val(st, fr, L.I1, ins.c)
        a = self.val(st, fr, ins.ty, ins.a)
        b = self.val(st, fr, ins.ty, ins.b)
        if c is UNDEF:
            raise PathError('uninit', 'select on an uninitialised value')
        if isinstance(c, Term):
            ty = L.res(ins.ty)
            if a is UNDEF or b is UNDEF:
                raise ExecError('symbolic select of undef')
            if isinstance(ty, L.FloatT):
                r = T.ite(c, a, b, 'R')
            elif isinstance(ty, L.IntT) and ty.bits == 1:
                r = T.ite(c, T._tob(a), T._tob(b), 'B')
            elif isinstance(ty, (L.IntT, L.PtrT)):
                if isinstance(a, Bits) or isinstance(b, Bits):
                    raise ExecError('select on bit patterns')
                r = T.ite(c, a, b, ('bv', self._ibits(ty)))
            else:
                raise ExecError('symbolic select on %r' % ty)
        else:
            r = a if (c & 1 if isinstance(c, int) else c) else b
        self._set(fr, ins, r)

    def op_alloca(self, st, fr, ins):
        n = 1
        if ins.a is not None:
            n = self.val(st, fr, ins.a[0], ins.a[1])
            if isinstance(n, Term):
                n = self.concretize(st, n, 'alloca size')
            n = T.mask(n, self._ibits(ins.a[0]))
        size = L.size_of(ins.ty) * n
        o = st.alloc(size, 'stack', '%s:%%%s' % (fr.fn.name[:30], ins.dst), 'stack', align=max(ins.x, 1))
        fr.allocas.append(o.base)
        self._set(fr, ins, o.base)

    def op_extractvalue(self, st, fr, ins):
        v = self.val(st, fr, ins.ty, ins.a)
        for i in ins.b:
            if v is UNDEF:
                break
            v = v[i]
        self._set(fr, ins, v)

    def op_insertvalue(self, st, fr, ins):
        v = self.val(st, fr, ins.ty, ins.a)
        x = self.val(st, fr, ins.c[0], ins.c[1])
        if v is UNDEF:
            v = self.undef_agg(ins.ty)

        def setp(agg, idx):
            agg = list(agg)
            if len(idx) == 1:
                agg[idx[0]] = x
            else:
                agg[idx[0]] = setp(agg[idx[0]], idx[1:])
            return agg

        self._set(fr, ins, setp(v, ins.b))

    def undef_agg(self, ty):
        ty = L.res(ty)
        if isinstance(ty, L.StructT):
            return [self.undef_agg(e) if isinstance(L.res(e), (L.StructT, L.ArrayT)) else UNDEF for e in ty.elems]
        if isinstance(ty, L.ArrayT):
            return [UNDEF] * ty.n
        return UNDEF

    def op_freeze(self, st, fr, ins):
        v = self.val(st, fr, ins.ty, ins.a)
        if v is UNDEF:
            v = self.zero_of(ins.ty)
        self._set(fr, ins, v)

    def op_fence(self, st, fr, ins):
        fr.idx += 1

    def op_unreachable(self, st, fr, ins):
        raise PathError('ub', 'unreachable executed in %s' % fr.fn.name)

    # ---- calls
    def resolve_callee(self, st, fr, ins):
        c = ins.a
        if isinstance(c, L.Glob):
            name = c.name
            al = self.mod.aliases.get(name)
            while al is not None:
                if isinstance(al, L.CExpr):
                    al = al.args[0][1]
                name = al.name
                al = self.mod.aliases.get(name)
            return name
        v = self.val(st, fr, None, c)
        if isinstance(v, Term):
            v = self.concretize(st, v, 'callee')
        if v is UNDEF:
            raise PathError('uninit', 'call through uninitialised function pointer')
        name = self.addr_func.get(v)
        if name is None:
            raise PathError('invalid-access', 'indirect call to non-function address %#x' % v)
        return name

    def op_call(self, st, fr, ins):
        name = self.resolve_callee(st, fr, ins)
        args = [self.val(st, fr, t, v) for t, v in ins.b]
        if name in self.call_log_names:
            st.log.append((name, list(args)))
        h = self.summaries.get(name)
        if h is not None:
            r = h(self, st, args, ins)
            return self._after_call(st, fr, ins, r)
        fn = self.mod.functions.get(name)
        if fn is not None and fn.defined:
            fn.parse_body()
            nf = Frame(fn)
            if len(args) < len(fn.params):
                raise ExecError('too few arguments calling %s' % name)
            for (pt, pn), a in zip(fn.params, args):
                nf.regs[pn] = a
            st.frames.append(nf)
            if len(st.frames) > 400:
                raise ExecError('call depth')
            return None
        h = self.intr.get(name)
        if h is None:
            for pre, hh in self.intr_prefix:
                if name.startswith(pre):
                    h = hh
                    break
        if h is None:
            raise ExecError('unsupported external function %s' % name)
        r = h(self, st, args, ins, name)
        return self._after_call(st, fr, ins, r)

    op_invoke = op_call

    def _after_call(self, st, fr, ins, r):
        """r: return value, or the marker THROW when an exception is now in flight, or a PathResult"""
        if r is THROW:
            return self.unwind(st)
        if isinstance(r, PathResult):
            return r
        if st.frames and st.frames[-1] is not fr:
            raise ExecError('frame mismatch after call')
        if ins.dst is not None:
            fr.regs[ins.dst] = r
        if ins.op == 'invoke':
            self._enter(st, fr, ins.c[0])
        else:
            fr.idx += 1
        return None

    def op_ret(self, st, fr, ins):
        v = None
        if ins.a is not None:
            v = self.val(st, fr, ins.ty, ins.a)
        self.pop_frame(st)
        if st.nested and st.nested[-1] == len(st.frames):
            raise NestedReturn(v)
        if not st.frames:
            st.retval = v
            return PathResult('ok', st, retval=v)
        caller = st.frames[-1]
        cins = caller.block[caller.idx]
        if cins.dst is not None:
            caller.regs[cins.dst] = v
        if cins.op == 'invoke':
            self._enter(st, caller, cins.c[0])
        else:
            caller.idx += 1
        return None

    def pop_frame(self, st):
        fr = st.frames.pop()
        for a in fr.allocas:
            o = st.find(a)
            o.live = False
            o.cells = {}

    # ---- exceptions
    def throw(self, st, obj, tinfo_name, msg=None):
        st.exc = {'obj': obj, 'type': tinfo_name, 'msg': msg}
        return THROW

    def _matches(self, st, exc, clause_val):
        """does the in-flight exception match a catch clause value (address of typeinfo or 0)?"""
        if clause_val == 0:
            return True
        tname = None
        for (n, th), a in st.gaddr.items():
            if a == clause_val:
                tname = n
                break
        if tname is None:
            return False
        if tname == exc['type']:
            return True
        return tname in EXC_BASES.get(exc['type'], [])

    def unwind(self, st):
        """an exception is in flight and the top frame's current instruction is the call that raised it"""
        while st.frames:
            if st.nested and len(st.frames) <= st.nested[-1]:
                raise PathError('exception-through-c', 'a C++ exception propagates out of a callback into the (C) GSL driver')
            fr = st.frames[-1]
            ins = fr.block[fr.idx]
            if ins.op == 'invoke':
                lp_label = ins.c[1]
                blk = fr.fn.blocks[lp_label]
                k = 0
                while blk[k].op == 'phi':
                    k += 1
                lp = blk[k]
                if lp.op != 'landingpad':
                    raise ExecError('unwind target without landingpad')
                sel = 0
                for kind, cv in lp.a:
                    if kind == 'catch':
                        a = self.constval(st, None, cv)
                        if self._matches(st, st.exc, a):
                            sel = self.typeid(a)
                            break
                    else:
                        raise ExecError('filter clause')
                if sel or lp.x:
                    self._enter(st, fr, lp_label)
                    st.exc['sel'] = sel
                    return None
            self.pop_frame(st)
        e = st.exc
        return PathResult('exception', st, info={'type': e['type'], 'msg': e.get('msg')})

    def typeid(self, addr):
        if addr == 0:
            return 1
        t = self.typeids.get(addr)
        if t is None:
            t = len(self.typeids) + 2
            self.typeids[addr] = t
        return t

    def op_landingpad(self, st, fr, ins):
        e = st.exc
        if e is None:
            raise ExecError('landingpad without exception')
        self._set(fr, ins, [e['obj'], e.get('sel', 0)])

    def op_resume(self, st, fr, ins):
        if st.exc is None:
            raise ExecError('resume without exception')
        self.pop_frame(st)
        return self.unwind(st)


class _Throw:
    pass


class _NoMerge:
    pass


_NOMERGE = _NoMerge()


THROW = _Throw()
