"""C03 -- Evolve by a diagonal operator is exp(iHt) A exp(-iHt), a one-parameter group; two-step form agrees (d=2..6)."""
import sys, time, os, json, math
from fractions import Fraction
from multiprocessing import Pool
import numpy as np
import z3
from common import *
from irsym.harness import Harness, I, D, Buf
from irsym import solver as S

PID = 'C03'
CPP = 'c03.cpp'
LIBS = ('SUNalg.cpp',)
TOL = Fraction(1, 10 ** 13)
FUNCS = ['SU_vector::Evolve(const SU_vector&,double) -> EvolutionProxy::compute (EvolutionSUN kernels)', 'SU_vector::PrepareEvolve(double*,double) (PreSinCosEvolSUN)',
         'SU_vector::Evolve(const double*) -> FastEvolutionProxy::compute (SinCosEvolSUN)', 'SU_vector::assignProxy', 'SUTrace / operator*', 'SU_vector::GetGSLMatrix']


def diag_indices(d):
    return [0] + [d * l + l for l in range(1, d)]


def setup(h, d, ctx, solver, times):
    """returns dict with S2M map, symbolic H (diagonal generators only), levels E_j, angle table for the given time Polys"""
    n = d * d
    re, im, xat, st = s2m_map(h, d, ctx)
    hv = [Fraction(0)] * n
    for k in diag_indices(d):
        hv[k] = T.var('h%d' % k)
    ph = [ctx.poly(x) for x in hv]
    MH = apply_map(re, im, xat, ph, d)
    E = [MH[j][j][0] for j in range(d)]
    angles = {}
    for tn, tp in times.items():
        for j in range(d):
            for k in range(j + 1, d):
                angles['%s:%d,%d' % (tn, j, k)] = (E[j] - E[k]) * tp
    trig = Trig(ctx, solver, angles)
    return re, im, xat, hv, E, trig, st


def work(item):
    d, tier = item
    solver = S.Solver(timeout_ms=120000)
    h = Harness(CPP, LIBS, solver=solver)
    out = new_out(d=d)
    exstats = []
    n = d * d
    npairs = d * (d - 1) // 2
    ctx = PolyCtx()
    t1, t2 = T.var('t1'), T.var('t2')
    t12 = T.fadd(t1, t2)
    times = {'t1': ctx.poly(t1), 't2': ctx.poly(t2)}
    re, im, xat, hv, E, trig, st = setup(h, d, ctx, solver, times)
    exstats.append(st)
    dec = Decider(solver, ctx, out, tol=TOL)
    trig.bounds(dec.res)
    a = sym_vec('a', n)
    b = sym_vec('b', n)
    pa = [ctx.poly(x) for x in a]
    pb = [ctx.poly(x) for x in b]
    MA = apply_map(re, im, xat, pa, d)

    GEN = None

    def generic(ps):
        """the path taken by generic arguments (no special-case branch)"""
        pins = [T.fcmp('oeq', t1, Fraction(37, 100)), T.fcmp('oeq', t2, Fraction(41, 100))] + [T.fcmp('oeq', hv[k], Fraction(3 + k, 17)) for k in diag_indices(d)]
        pins += [T.fcmp('oeq', a[k], Fraction(5 + 2 * k, 31)) for k in range(n)] + [T.fcmp('oeq', b[k], Fraction(7 + 3 * k, 37)) for k in range(n)]
        for p_ in ps:
            if solver.check(p_.pc + pins) == 'sat':
                return p_
        return None

    def special_vs(ps, g, oname, refs, what, key, meta):
        """every non-generic branch must give the reference values (Terms, valid for all arguments) under its own branch condition"""
        for p_ in ps:
            if p_ is g:
                continue
            of_ = p_.out(oname)
            if any(v is None for v in of_):
                dec.candidate(key + ':unwritten', '%s leaves an output unwritten on the branch %s' % (what, ' & '.join(T.show(c_, 3) for c_ in p_.pc)[:120]), **meta)
                continue
            conv = S.Conv('real')
            lem = []
            for at in T.atoms_of([v for v in list(of_) + list(refs) if isinstance(v, Term)], ('sin', 'cos')):
                u = conv.conv(at.args[0]) if isinstance(at.args[0], Term) else conv.rconst(at.args[0])
                lem.append(z3.Implies(u == 0, conv.conv(at) == (0 if at.op == 'sin' else 1)))
            tolz = conv.rconst(TOL)
            viol = []
            for k in range(len(refs)):
                x_ = conv.conv(of_[k]) if isinstance(of_[k], Term) else conv.rconst(of_[k])
                y_ = conv.conv(refs[k]) if isinstance(refs[k], Term) else conv.rconst(refs[k])
                viol.append(z3.Or(x_ - y_ > tolz, y_ - x_ > tolz))
            box = [z3.And(v_ >= -1, v_ <= 1) for v_ in conv.vars.values() if z3.is_real(v_)]
            br = ' & '.join(T.show(c_, 3) for c_ in p_.pc)[:120]
            r_, m_, _ = solver.check(p_.pc, conv=conv, extra=lem + box + [z3.Or(viol)], want_model=True,
                                     label='%s on the special branch (%s) d=%d equals the generic formula' % (what, br[:80], d))
            if r_ == 'sat':
                names = ['a%d' % k for k in range(n)] + ['b%d' % k for k in range(n)] + ['h%d' % k for k in diag_indices(d)] + ['t1', 't2']
                dec.candidate(key, 'on the branch %s, %s differs from the documented result' % (br, what),
                              input={nm_: frac_str(S.model_value(m_, conv, nm_)) for nm_ in names if nm_ in conv.vars}, **meta)
            elif r_ == 'unsat':
                dec.holds('%s: special branch (%s) agrees with the generic formula, d=%d' % (what, br[:60], d))
            else:
                out['undecided'].append('%s special branch d=%d' % (what, d))

    def evolve(vec, t):
        ps = h.run('h_evolve', [I(d), Buf('a', vec), Buf('h', hv), D(t), Buf('o', n=n)])
        exstats.append(h.last_ex.stats)
        if len(ps) > 1 and all(p_.status == 'ok' and p_.ret == 0 for p_ in ps):
            # Evolve branches on its arguments: the generic branch is decided as usual, every special branch by a direct query against it
            g = generic(ps)
            if g is not None:
                special_vs(ps, g, 'o', list(g.out('o')), 'A.Evolve(H,t)', 'evolve-special:d=%d' % d, dict(kind='evolve', d=d))
                ps = [g]
        if len(ps) != 1 or ps[0].status != 'ok' or ps[0].ret != 0:
            out['broken'].append('h_evolve d=%d: %r' % (d, [(p.status, p.ret, p.info) for p in ps]))
            return None
        o = ps[0].out('o')
        if any(v is None for v in o):
            dec.candidate('evolve:d=%d:unwritten' % d, 'Evolve(H,t) leaves an output component unwritten', kind='evolve', d=d)
            return None
        out['witnesses']['reachability'] += 1
        return o

    # ---- 1. conjugation: O = Evolve(A; H, t1)
    O1 = evolve(a, t1)
    if O1 is not None:
        trig.canon(O1)
        if trig.unmatched:
            dec.candidate('evolve:d=%d' % d, 'Evolve(H,t) uses a phase that is not (E_j-E_k)*t for any level pair: %s' % T.show(trig.unmatched[0], 4), kind='evolve', d=d)
        else:
            dec.holds('every sin/cos argument of Evolve(H,t) equals +-(E_j-E_k)*t for a level pair (argument residual <= 1e-13 on the unit box), d=%d' % d,
                      detail='%d atoms matched by solver side queries' % len(trig.matched))
        po = [ctx.poly(v) for v in O1]
        MO = apply_map(re, im, xat, po, d)
        polys = []
        for j in range(d):
            for k in range(d):
                x = MA[j][k]
                if j == k:
                    ref = x
                else:
                    nm = 't1:%d,%d' % (min(j, k), max(j, k))
                    c_, s_ = trig.cos(nm), trig.sin(nm)
                    if j > k:
                        s_ = -s_         # angle (E_j-E_k)t = -(E_k-E_j)t
                    ref = (c_ * x[0] - s_ * x[1], s_ * x[0] + c_ * x[1])
                polys.append(MO[j][k][0] - ref[0])
                polys.append(MO[j][k][1] - ref[1])
        sens = MO[0][1][0] + (trig.cos('t1:0,1') * MA[0][1][0] - trig.sin('t1:0,1') * MA[0][1][1])
        dec.decide('S2M(A.Evolve(H,t)) = exp(iHt) S2M(A) exp(-iHt) entry-wise, d=%d' % d, polys, 'evolve:d=%d' % d, dict(kind='evolve', d=d), sens_poly=sens)
        # ---- 2. scalar products preserved (uses only S^2 + C^2 = 1 on the canonical atoms)
        phases_ok = not trig.unmatched
        if not phases_ok:
            out['obligations'].append({'obligation': 'scalar-product preservation / group law d=%d' % d,
                                       'verdict': 'not evaluated: they rely on lemma instances for the identified phases, and phase identification failed (reported above)'})
        Ob = evolve(b, t1) if phases_ok else None
        if Ob is not None:
            trig.canon(Ob)
            ps = h.run('h_trace', [I(d), Buf('a', O1), Buf('b', Ob), Buf('o', n=1)])
            exstats.append(h.last_ex.stats)
            ps0 = h.run('h_trace', [I(d), Buf('a', a), Buf('b', b), Buf('o', n=1)])
            exstats.append(h.last_ex.stats)
            tr1 = trig.reduce(ctx.poly(ps[0].out('o')[0]))
            tr0 = ctx.poly(ps0[0].out('o')[0])
            dec.decide('Tr(A_t B_t) = Tr(A B) for vectors evolved by the same (H,t), d=%d' % d, [tr1 - tr0], 'evolve-trace:d=%d' % d, dict(kind='trace', d=d))
        # ---- 3. group law
        O12 = evolve(O1, t2) if phases_ok else None
        Osum = evolve(a, t12) if phases_ok else None
        if O12 is not None and Osum is not None:
            # angle addition: arguments over t1+t2 are sums of the t1 and t2 angles (exact polynomial identity), so
            # sin/cos atoms of the sum are rewritten by the addition formulas over the canonical atoms
            for j in range(d):
                for k in range(j + 1, d):
                    w = (E[j] - E[k]) * (times['t1'] + times['t2'])
                    trig.angles['t12:%d,%d' % (j, k)] = w
                    s1, c1 = trig.sin('t1:%d,%d' % (j, k)), trig.cos('t1:%d,%d' % (j, k))
                    s2, c2 = trig.sin('t2:%d,%d' % (j, k)), trig.cos('t2:%d,%d' % (j, k))
                    # register pseudo-canonical atoms for the sum and substitute them immediately
                    trig.S['t12:%d,%d' % (j, k)] = None
            # custom canonicalisation for the sum atoms
            res = Residual(solver, ctx, box=1, tol=TOL)
            for tt in T.atoms_of(Osum, ('sin', 'cos')):
                if tt.id in ctx.atom_of:
                    continue
                ap = ctx.poly(tt.args[0])
                hit = None
                for j in range(d):
                    for k in range(j + 1, d):
                        w = trig.angles['t12:%d,%d' % (j, k)]
                        for sg in (1, -1):
                            diff = ap - w.scale(sg)
                            if diff.is_zero() or (diff.l1() <= TOL * 8 and res.relax_query([diff], None) == 'unsat'):
                                hit = (j, k, sg)
                                break
                        if hit:
                            break
                    if hit:
                        break
                i = ctx.atom(tt)
                if hit is None:
                    trig.unmatched.append(tt)
                    continue
                j, k, sg = hit
                s1, c1 = trig.sin('t1:%d,%d' % (j, k)), trig.cos('t1:%d,%d' % (j, k))
                s2, c2 = trig.sin('t2:%d,%d' % (j, k)), trig.cos('t2:%d,%d' % (j, k))
                if tt.op == 'sin':
                    ctx.subst[i] = (s1 * c2 + c1 * s2).scale(sg)
                else:
                    ctx.subst[i] = c1 * c2 - s1 * s2
            trig.canon(O12)
            p12 = [ctx.poly(v) for v in O12]
            psum = [ctx.poly(v) for v in Osum]
            dec.decide('Evolve(Evolve(A,t1),t2) = Evolve(A,t1+t2) (angle-addition lemma instances over the kernel atoms), d=%d' % d,
                       [x - y for x, y in zip(p12, psum)], 'evolve-group:d=%d' % d, dict(kind='group', d=d))
    # ---- 4. t = 0 is the identity (concrete time: arguments fold, sin 0 = 0, cos 0 = 1)
    O0 = evolve(a, Fraction(0))
    if O0 is not None:
        if all(O0[k] is a[k] for k in range(n)):
            dec.holds('Evolve(H,0) returns A exactly (every output is the input term), d=%d' % d)
        else:
            p0 = [ctx.poly(v) for v in O0]
            dec.decide('Evolve(H,0) = A, d=%d' % d, [x - y for x, y in zip(p0, pa)], 'evolve-zero:d=%d' % d, dict(kind='zero', d=d))
    # ---- 5. two-step form
    ps = h.run('h_prepare', [I(d), Buf('h', hv), D(t1), Buf('buf', n=2 * npairs)])
    exstats.append(h.last_ex.stats)
    if len(ps) > 1 and all(p_.status == 'ok' and p_.ret == 0 for p_ in ps):
        # PrepareEvolve branches on its arguments: the generic path is decided as usual, every special path by a direct query on a buffer
        # that held arbitrary values before the call
        gen = [p_ for p_ in ps if solver.check(p_.pc + [T.fcmp('oeq', t1, Fraction(37, 100))] + [T.fcmp('oeq', hv[k], Fraction(3 + k, 17)) for k in diag_indices(d)]) == 'sat']
        stale = sym_vec('stale', 2 * npairs)
        ps_st = h.run('h_prepare', [I(d), Buf('h', hv), D(t1), Buf('buf', stale)])
        exstats.append(h.last_ex.stats)
        for p_ in ps_st:
            if p_.status != 'ok' or p_.ret != 0 or (gen and solver.check(p_.pc + gen[0].pc) == 'sat' and len(p_.pc) == len(gen[0].pc) and all(x is y for x, y in zip(p_.pc, gen[0].pc))):
                continue
            bufp = p_.out('buf')
            pf_ = h.run('h_fast', [I(d), Buf('a', a), Buf('buf', bufp), Buf('o', n=n)])
            exstats.append(h.last_ex.stats)
            if len(pf_) != 1 or pf_[0].status != 'ok' or O1 is None:
                out['broken'].append('h_fast on a special path of PrepareEvolve d=%d' % d)
                continue
            of_ = pf_[0].out('o')
            conv = S.Conv('real')
            lem = []
            for at in T.atoms_of(list(of_) + list(O1), ('sin', 'cos')):
                u = conv.conv(at.args[0]) if isinstance(at.args[0], Term) else conv.rconst(at.args[0])
                lem.append(z3.Implies(u == 0, conv.conv(at) == (0 if at.op == 'sin' else 1)))
            tolz = conv.rconst(TOL)
            viol = []
            for k in range(n):
                x_ = conv.conv(of_[k]) if isinstance(of_[k], Term) else conv.rconst(of_[k] if of_[k] is not None else 0)
                y_ = conv.conv(O1[k]) if isinstance(O1[k], Term) else conv.rconst(O1[k])
                viol.append(z3.Or(x_ - y_ > tolz, y_ - x_ > tolz))
            box = [z3.And(v_ >= -1, v_ <= 1) for v_ in conv.vars.values() if z3.is_real(v_)]
            r_, m_, _ = solver.check(p_.pc, conv=conv, extra=lem + box + [z3.Or(viol)], want_model=True,
                                     label='PrepareEvolve special path (%s) d=%d: two-step form on a buffer with arbitrary previous contents = direct form' % (' & '.join(T.show(c_, 3) for c_ in p_.pc)[:80], d))
            if r_ == 'sat':
                names = ['a%d' % k for k in range(n)] + ['h%d' % k for k in diag_indices(d)] + ['t1'] + ['stale%d' % k for k in range(2 * npairs)]
                dec.candidate('twostep-special:d=%d' % d, 'on the branch %s of PrepareEvolve the two-step form applied to a previously used buffer differs from A.Evolve(H,t)' % ' & '.join(T.show(c_, 3) for c_ in p_.pc)[:120],
                              kind='twostep-special', d=d, input={nm_: frac_str(S.model_value(m_, conv, nm_)) for nm_ in names if nm_ in conv.vars})
            elif r_ == 'unsat':
                dec.holds('PrepareEvolve special path d=%d agrees with the direct form on a reused buffer' % d)
            else:
                out['undecided'].append('PrepareEvolve special path d=%d' % d)
        ps = gen[:1] if gen else ps
    if len(ps) != 1 or ps[0].status != 'ok' or ps[0].ret != 0:
        out['broken'].append('h_prepare d=%d: %r' % (d, [(p.status, p.ret, p.info) for p in ps]))
    else:
        buf = ps[0].out('buf')
        if any(v is None for v in buf):
            dec.candidate('prepare:d=%d:unwritten' % d, 'PrepareEvolve leaves part of its buffer unwritten', kind='twostep', d=d)
        else:
            trig.canon(buf)
            ps2 = h.run('h_fast', [I(d), Buf('a', a), Buf('buf', buf), Buf('o', n=n)])
            exstats.append(h.last_ex.stats)
            if len(ps2) != 1 or ps2[0].status != 'ok' or ps2[0].ret != 0:
                out['broken'].append('h_fast d=%d' % d)
            elif O1 is not None:
                of = ps2[0].out('o')
                if any(v is None for v in of):
                    dec.candidate('fast:d=%d:unwritten' % d, 'Evolve(buffer) leaves an output component unwritten', kind='twostep', d=d)
                else:
                    pf = [ctx.poly(v) for v in of]
                    po = [ctx.poly(v) for v in O1]
                    dec.decide('PrepareEvolve(buf,t) ; A.Evolve(buf) = A.Evolve(H,t), d=%d' % d, [x - y for x, y in zip(pf, po)], 'twostep:d=%d' % d, dict(kind='twostep', d=d),
                               sens_poly=pf[1] + po[1])
                    # the same statements with the result assigned onto the operand itself
                    for mode, nm in ((0, 'A = A.Evolve(buf)'), (1, 'A = A.Evolve(H,t)')):
                        pi = h.run('h_inplace', [I(mode), I(d), Buf('a', a), Buf('h', hv), D(t1), Buf('buf', buf)])
                        exstats.append(h.last_ex.stats)
                        if len(pi) != 1 or pi[0].status != 'ok' or pi[0].ret != 0:
                            out['broken'].append('h_inplace %d d=%d' % (mode, d))
                            continue
                        oi = pi[0].out('a')
                        dec.decide('%s (result assigned onto the operand) = A.Evolve(H,t), d=%d' % (nm, d), [ctx.poly(x) - y for x, y in zip(oi, po)], 'inplace%d:d=%d' % (mode, d),
                                   dict(kind='inplace', mode=mode, d=d))
                    # compound forms and forms carrying a valid guarantee (sizes equal, nothing promised about aliasing)
                    forms = {2: ('B += A.Evolve(H,t)', 'b', 1), 3: ('B -= A.Evolve(H,t)', 'b', -1), 4: ('B += A.Evolve(buf)', 'b', 1), 5: ('B -= A.Evolve(buf)', 'b', -1),
                             6: ('A = guarantee<EqualSizes>(A.Evolve(H,t))', 'a', 0), 7: ('A = guarantee<EqualSizes>(A.Evolve(buf))', 'a', 0)}
                    for mode, (nm, oname, sg) in forms.items():
                        pi = h.run('h_inplace2', [I(mode), I(d), Buf('a', a), Buf('b', b), Buf('h', hv), D(t1), Buf('buf', buf)])
                        exstats.append(h.last_ex.stats)
                        refs = list(O1) if sg == 0 else [T.fadd(b[k], O1[k]) if sg > 0 else T.fsub(b[k], O1[k]) for k in range(n)]
                        if len(pi) > 1 and all(p_.status == 'ok' and p_.ret == 0 for p_ in pi):
                            g = generic(pi)
                            if g is not None:
                                special_vs(pi, g, oname, refs, nm, 'inplace%d-special:d=%d' % (mode, d), dict(kind='inplace2', mode=mode, d=d))
                                pi = [g]
                        if len(pi) != 1 or pi[0].status != 'ok' or pi[0].ret != 0:
                            out['broken'].append('h_inplace2 %d d=%d: %r' % (mode, d, [(p_.status, p_.ret, p_.info) for p_ in pi]))
                            continue
                        oi = pi[0].out(oname)
                        if any(v is None for v in oi):
                            dec.candidate('inplace%d:d=%d:unwritten' % (mode, d), '%s leaves a component unwritten' % nm, kind='inplace2', mode=mode, d=d)
                            continue
                        dec.decide('%s = the documented result, d=%d' % (nm, d), [ctx.poly(x) - ctx.poly(y) for x, y in zip(oi, refs)], 'inplace%d:d=%d' % (mode, d),
                                   dict(kind='inplace2', mode=mode, d=d))
    if trig.unmatched:
        out['obligations'].append({'obligation': 'unmatched trig atoms d=%d' % d, 'verdict': '%d' % len(trig.unmatched)})
    out.update(worker_result(solver, exstats, functions=FUNCS))
    return out


def native_matrix(h, d, v):
    n = d * d
    ret, o = h.native('h_s2m', [I(d), Buf('a', v), Buf('re', n=n), Buf('im', n=n)])
    return (np.array(o['re']) + 1j * np.array(o['im'])).reshape(d, d)


def replay(chk, h, c):
    d = c['d']
    n = d * d
    chk.cov['replayed'] += 1
    rng = np.random.RandomState(chk.seed + 11)
    worst = 0.0
    trials = []
    inp = {k: float(Fraction(v)) for k, v in c.get('input', {}).items() if not k.startswith('atom:')}
    if inp:
        av = np.array([inp.get('a%d' % i, 0.0) for i in range(n)])
        hv = np.array([inp.get('h%d' % i, 0.0) for i in range(n)])
        trials.append((av, hv, inp.get('t1', 0.7), inp.get('t2', 0.3)))
    for _ in range(6):
        hv = np.zeros(n)
        for k in diag_indices(d):
            hv[k] = rng.uniform(-1, 1)
        trials.append((rng.uniform(-1, 1, n), hv, float(rng.uniform(-2, 2)), float(rng.uniform(-2, 2))))
    for av, hv, t1, t2 in trials:
        A = native_matrix(h, d, av)
        Hm = native_matrix(h, d, hv)
        Ed = np.real(np.diag(Hm))
        U = np.diag(np.exp(1j * Ed * t1))
        ret, o = h.native('h_evolve', [I(d), Buf('a', av), Buf('h', hv), D(t1), Buf('o', [np.nan] * n)])
        o1 = np.array(o['o'])
        if np.isnan(o1).any():
            return True, float('inf')
        kind = c['kind']
        if kind in ('evolve',):
            worst = max(worst, np.abs(native_matrix(h, d, o1) - U @ A @ U.conj().T).max())
        elif kind == 'trace':
            bv = rng.uniform(-1, 1, n)
            ret, ob = h.native('h_evolve', [I(d), Buf('a', bv), Buf('h', hv), D(t1), Buf('o', n=n)])
            ret, x1 = h.native('h_trace', [I(d), Buf('a', o1), Buf('b', ob['o']), Buf('o', n=1)])
            ret, x0 = h.native('h_trace', [I(d), Buf('a', av), Buf('b', bv), Buf('o', n=1)])
            worst = max(worst, abs(x1['o'][0] - x0['o'][0]))
        elif kind == 'group':
            ret, o = h.native('h_evolve', [I(d), Buf('a', o1), Buf('h', hv), D(t2), Buf('o', n=n)])
            ret, o2 = h.native('h_evolve', [I(d), Buf('a', av), Buf('h', hv), D(t1 + t2), Buf('o', n=n)])
            worst = max(worst, np.abs(np.array(o['o']) - np.array(o2['o'])).max())
        elif kind == 'zero':
            ret, o = h.native('h_evolve', [I(d), Buf('a', av), Buf('h', hv), D(0.0), Buf('o', n=n)])
            worst = max(worst, np.abs(np.array(o['o']) - av).max())
        elif kind == 'twostep-special':
            st_ = [inp.get('stale%d' % k, 0.3) for k in range(d * (d - 1))]
            ret, ob = h.native('h_prepare', [I(d), Buf('h', hv), D(t1), Buf('buf', st_)])
            ret, o = h.native('h_fast', [I(d), Buf('a', av), Buf('buf', ob['buf']), Buf('o', [np.nan] * n)])
            worst = max(worst, np.abs(np.array(o['o']) - o1).max())
            if np.isnan(np.array(o['o'])).any():
                return True, float('inf')
            break
        elif kind == 'inplace':
            ret, ob = h.native('h_prepare', [I(d), Buf('h', hv), D(t1), Buf('buf', [np.nan] * (d * (d - 1)))])
            ret, o = h.native('h_inplace', [I(c['mode']), I(d), Buf('a', av), Buf('h', hv), D(t1), Buf('buf', ob['buf'])])
            worst = max(worst, np.abs(np.array(o['a']) - o1).max())
        elif kind == 'inplace2':
            bv = np.array([inp.get('b%d' % i, 0.25 + 0.1 * i) for i in range(n)])
            ret, ob = h.native('h_prepare', [I(d), Buf('h', hv), D(t1), Buf('buf', [np.nan] * (d * (d - 1)))])
            ret, o = h.native('h_inplace2', [I(c['mode']), I(d), Buf('a', av), Buf('b', bv), Buf('h', hv), D(t1), Buf('buf', ob['buf'])])
            md = c['mode']
            exp_ = o1 if md in (6, 7) else (bv + o1 if md in (2, 4) else bv - o1)
            got = np.array(o['a'] if md in (6, 7) else o['b'])
            worst = max(worst, np.abs(got - exp_).max())
        elif kind == 'twostep':
            ret, ob = h.native('h_prepare', [I(d), Buf('h', hv), D(t1), Buf('buf', [np.nan] * (d * (d - 1)))])
            ret, o = h.native('h_fast', [I(d), Buf('a', av), Buf('buf', ob['buf']), Buf('o', [np.nan] * n)])
            of = np.array(o['o'])
            if np.isnan(of).any():
                return True, float('inf')
            worst = max(worst, np.abs(of - o1).max(), np.abs(native_matrix(h, d, of) - U @ A @ U.conj().T).max())
    return worst > 1e-9, worst


def main(tier):
    chk = Check(PID, tier)
    chk.candidates = []
    dims = [2, 3, 4, 5, 6]
    chk.cov['bounds'] = {'dimensions': dims, 'inputs': 'A: all d^2 components; H: all diagonal generators (identity + d-1 Cartan components), off-diagonal components 0; t, t1, t2 symbolic reals',
                         'tolerance': '1e-13 on the unit box for arguments and residuals (absorbs the decimal literals of sqrt(3), sqrt(6), ...)'}
    chk.cov['domains'] = ['R (exact reals); sin/cos are atoms keyed by their argument term']
    chk.cov['lemmas'] = ['atom identification: sin(x), cos(x) with x = +-(E_j-E_k)t (argument relation discharged by a solver query on the argument residual)',
                         'sin(-x) = -sin x, cos(-x) = cos x', 'sin^2 + cos^2 = 1 and |sin|,|cos| <= 1 on the canonical atoms', 'angle addition for x(t1+t2) = x(t1)+x(t2)', 'sin 0 = 0, cos 0 = 1 (folded)']
    chk.cov['stubs'] = ['GSL accessors: harness/gsl_shim.c', 'libm sin/cos: uninterpreted atoms (concrete arguments are folded by glibc)']
    chk.assumptions = ['finite inputs; the claim is for exact-real evaluation of the kernels: large |t| only changes the rounding of the arguments, which is outside the claim',
                       'degenerate and zero spectra are inside the symbolic domain (no case split on H)',
                       'clang-14 -O1 IR is the semantics of the source (interpreter-vs-native diff every run)']
    h = Harness(CPP, LIBS)
    rng = np.random.RandomState(chk.seed + 1)
    cases = []
    for d in ([2, 3, 4, 5, 6] if tier == 'thorough' else [2, 4, 5]):
        n = d * d
        hv = [0.0] * n
        for k in diag_indices(d):
            hv[k] = float(rng.uniform(-1, 1))
        av = list(rng.uniform(-1, 1, n))
        cases.append(('h_evolve', [I(d), Buf('a', av), Buf('h', hv), D(1.3), Buf('o', n=n)], ['o']))
        cases.append(('h_prepare', [I(d), Buf('h', hv), D(-0.7), Buf('buf', n=d * (d - 1))], ['buf']))
        cases.append(('h_fast', [I(d), Buf('a', av), Buf('buf', list(rng.uniform(-1, 1, d * (d - 1)))), Buf('o', n=n)], ['o']))
    generic_interp_vs_native(chk, h, cases)
    with Pool(min(5, os.cpu_count() or 1)) as pool:
        results = pool.map(work, [(d, tier) for d in dims])
    for w in results:
        chk.merge_worker(w)
    seen = set()
    for c in chk.candidates:
        if c['key'] in seen:
            continue
        seen.add(c['key'])
        ok, dev = safe_replay(replay, chk, h, c)
        if ok:
            chk.report(c['key'], '%s; native deviation %.3g' % (c['what'], dev), c)
        else:
            chk.broken_q('counterexample for %s did not reproduce natively (deviation %.3g): encoding discrepancy' % (c['key'], dev))
    return chk.finish()


def replay_main(path):
    c = json.load(open(path))['replay']
    chk = Check(PID, 'quick')
    ok, dev = safe_replay(replay, chk, Harness(CPP, LIBS), c)
    print('replay %s: %s (deviation %.3g)' % (path, 'REPRODUCED' if ok else 'not reproduced', dev))
    return 1 if ok else 0


if __name__ == '__main__':
    sys.exit(main(sys.argv[1] if len(sys.argv) > 1 else 'quick'))
