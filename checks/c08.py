"""C08 -- value semantics of SU_vector: bounded operation histories from arbitrary valid pre-states, against a reference model."""
import sys, time, os, json, itertools, hashlib
from fractions import Fraction
from multiprocessing import Pool as MPool
import z3
from common import *
from pool import *
from vmodel import Model, Throw, CONSUMES1, CONSUMES2
from irsym import solver as S

PID = 'C08'
NSLOTS = 5      # slots 0,1 operands, 2 observer, 3 free for constructions, 4 scratch for public-API observation
FUNCS = ['SU_vector() / (dim) / (dim,ptr) / (const SU_vector&) / (SU_vector&&) / (proxy&&)', 'operator=(const SU_vector&)', 'operator=(SU_vector&&)', 'assignProxy (= += -= from every element-wise proxy, lvalue and rvalue operands)',
         'SetBackingStore', '~SU_vector', 'alloc_aligned / deallocate_mem', 'detail::cache::insert/get (thread-local configuration)', 'clear_mem_cache', 'operator==']
KINDS = ['empty', 'ownA', 'ownB', 'extA', 'extB']


def prestate_program(k0, k1, dA, dB):
    """slot0 of kind k0 (buffer 0), slot1 of kind k1 (buffer 1), slot2 = observer: owned copy of an external dA vector over buffer 2"""
    prog = []
    for slot, kind in ((0, k0), (1, k1)):
        d = dA if kind.endswith('A') else dB
        if kind == 'empty':
            prog.append(Ins('DEFAULT', t=slot))
        elif kind.startswith('own'):
            # self-owned with symbolic contents: copy-construct from a temporary external view, then drop the view
            prog += [Ins('EXTERNAL', t=3, x=d, ext=slot), Ins('COPYCON', t=slot, s1=3), Ins('DESTROY', t=3)]
        else:
            prog.append(Ins('EXTERNAL', t=slot, x=d, ext=slot))
    prog += [Ins('EXTERNAL', t=3, x=dA, ext=2), Ins('COPYCON', t=2, s1=3), Ins('DESTROY', t=3)]
    return prog


def one_step_ops():
    ops = []
    for (t, s) in ((0, 1), (1, 0)):
        ops += [Ins('COPYASSIGN', t=t, s1=s), Ins('MOVEASSIGN', t=t, s1=s)]
        for e in (0, 1, 2, 3, 5, 7, 9, 11, 17, 18, 19):
            ops.append(Ins('EXPR', t=t, s1=s, s2=2 if e in (0, 1, 4, 5, 16, 17) else s, x=e, c=T.var('c')))
        ops.append(Ins('EXPR', t=t, s1=s, s2=t, x=32 + 1, c=T.var('c')))        # t += move(s)+t
        ops.append(Ins('EXPR', t=3, s1=s, s2=t, x=96 + 1, c=T.var('c')))        # SU_vector w(move(s)+t)
        ops.append(Ins('EXPR', t=3, s1=s, s2=s, x=96 + 9, c=T.var('c')))        # SU_vector w(move(s)*c)
        ops += [Ins('COPYCON', t=3, s1=s), Ins('MOVECON', t=3, s1=s)]
    ops += [Ins('COPYASSIGN', t=0, s1=0), Ins('MOVEASSIGN', t=0, s1=0), Ins('SETBACKING', t=0, ext=1), Ins('SETBACKING', t=1, ext=0), Ins('DESTROY', t=0)]
    return ops


def consuming_ops():
    """operations that consume slot 1 as an rvalue (move / theft)"""
    ops = [Ins('MOVEASSIGN', t=0, s1=1), Ins('MOVECON', t=3, s1=1)]
    for e in (1, 5, 7, 9, 17):
        ops.append(Ins('EXPR', t=0, s1=1, s2=2 if e in (1, 5, 17) else 1, x=e, c=T.var('c')))
        ops.append(Ins('EXPR', t=3, s1=1, s2=2 if e in (1, 5, 17) else 1, x=96 + e, c=T.var('c')))
    ops.append(Ins('EXPR', t=0, s1=2, s2=1, x=2, c=T.var('c')))     # 2 + move(1)
    ops.append(Ins('EXPR', t=0, s1=2, s2=1, x=18, c=T.var('c')))
    return ops


def reuse_ops():
    """what the property allows to do with a consumed vector (slot 1)"""
    return [Ins('COPYASSIGN', t=1, s1=2), Ins('MOVEASSIGN', t=1, s1=2), Ins('EXPR', t=1, s1=2, s2=2, x=0), Ins('EQ', t=1, s1=2), Ins('MOVECON', t=3, s1=1),
            Ins('MOVEASSIGN', t=0, s1=1), Ins('DESTROY', t=1)]


def third_ops():
    return [Ins('FILL', t=1, c=T.var('f')), Ins('COPYASSIGN', t=1, s1=0), Ins('DESTROY', t=0)]


def legal(model, ins):
    """is the instruction applicable in this model state (object liveness / not reading an unspecified value)?"""
    S_ = model.slots
    need_live = [k for k in (ins.s1, ins.s2) if k >= 0]
    if ins.constructs():
        if ins.t < 0 or S_[ins.t] is not None:
            return False
    elif ins.t >= 0:
        need_live.append(ins.t)
    for k in need_live:
        if S_[k] is None:
            return False
    # values are read from s1/s2 (and from t for += / -=): they must be specified, except where the property allows using a consumed vector
    reads = []
    if ins.op in (OPS['COPYCON'], OPS['COPYASSIGN'], OPS['PLAININC'], OPS['PLAINDEC']):
        reads = [ins.s1]
    if ins.op == OPS['EXPR']:
        reads = [ins.s1] + ([ins.s2] if (ins.x % 32) in (0, 1, 2, 3, 4, 5, 12, 13, 14, 16, 17, 18, 19, 20) else [])
        if ins.x // 32 in (1, 2):
            reads.append(ins.t)
    for k in reads:
        if not model.specified(k):
            return False
    if ins.op == OPS['EXPR']:
        # arithmetic on empty vectors is outside this property (the kernels assume at least one component)
        for k in reads:
            if S_[k]['dim'] == 0:
                return False
    if ins.op == OPS['SETBACKING'] and S_[ins.t]['dim'] == 0:
        return False
    return True


def check_state(pool, st, model, ctx, where, problems):
    """compare the symbolic state with the model; ownership invariant"""
    owners = {}
    for k, ms in enumerate(model.slots):
        if ms is None:
            continue
        raw = pool.raw(st, k)
        if ms.get('unspec') or ms.get('uninit'):
            pass
        else:
            if not model.specified(k):
                pass
            else:
                d, want = model.value(k)
                if raw['dim'] != d or raw['size'] != d * d:
                    problems.append('%s: slot %d has dimension %r, expected %d' % (where, k, raw['dim'], d))
                    continue
                got = pool.values(st, k)
                if got is None:
                    problems.append('%s: slot %d components pointer is invalid' % (where, k))
                    continue
                for i, (g, w) in enumerate(zip(got, want)):
                    if g is w:
                        continue
                    if not _same(ctx, g, w):
                        problems.append('%s: slot %d component %d is %s, expected %s' % (where, k, i, T.show(g, 3), T.show(w, 3)))
                        break
                if ms['bind'] != 'own':
                    if raw['components'] != pool.buf_addr[ms['bind'][1]]:
                        problems.append('%s: slot %d is bound to user buffer %d but its storage is elsewhere' % (where, k, ms['bind'][1]))
                    if raw['isinit']:
                        problems.append('%s: slot %d claims ownership of user storage' % (where, k))
        # representation invariants of every live vector, whatever its value (also for consumed / failed-assignment targets)
        if raw['isinit'] == 1 and raw['isinit_d'] == 1:
            problems.append('%s: slot %d is flagged both as owning its storage and as bound to user storage' % (where, k))
        if isinstance(raw['dim'], int) and isinstance(raw['size'], int) and raw['size'] != raw['dim'] * raw['dim']:
            problems.append('%s: slot %d has dimension %d but size %d' % (where, k, raw['dim'], raw['size']))
        if raw['isinit'] == 0 and raw['isinit_d'] == 0 and isinstance(raw['size'], int) and raw['size'] != 0 and not ms.get('uninit'):
            problems.append('%s: slot %d neither owns storage nor is bound to user storage, yet it has size %d (components %#x): it refers to storage of someone else' % (
                where, k, raw['size'], raw['components'] if isinstance(raw['components'], int) else -1))
        if raw['isinit'] == 1:
            p = raw['components']
            if p in owners:
                problems.append('%s: slots %d and %d both own the block at %#x' % (where, owners[p], k, p))
            owners[p] = k
            o = st.find(p) if isinstance(p, int) and p else None
            if o is None or o.kind != 'new[]' or not o.live:
                problems.append('%s: slot %d owns storage that is not a live new[] block' % (where, k))
    # buffers: cells never written by a specified path must be unchanged
    for b in range(pool.nbufs):
        if b in model.dirty:
            continue
        cur = pool.buffer_values(st, b)
        for i, (g, w) in enumerate(zip(cur, model.bufs[b])):
            if g is w:
                continue
            if not _same(ctx, g, w):
                problems.append('%s: user buffer %d cell %d changed to %s, expected %s' % (where, b, i, T.show(g, 3), T.show(w, 3)))
                break


def _same(ctx, g, w):
    """the stored value g is the polynomial w; a cell that holds no value at all (never written, or computed from such a cell) is different from everything"""
    if g is None:
        return False
    try:
        return (ctx.poly(g) - ctx.poly(w)).is_zero()
    except TypeError:
        return False


def run_history(pool, st0, model0, history, ctx):
    """-> list of problems (strings); empty if the history behaves like the model on every path"""
    states = [(st0, model0)]
    problems = []
    for n, ins in enumerate(history):
        nxt = []
        for st, model in states:
            if not legal(model, ins):
                return None
            m2 = model.clone()
            try:
                expect = None if m2.apply(ins) == 'any' else 0
            except Throw:
                m2 = model.clone()
                expect = 1
            for r in pool.step(st, ins):
                where = 'after step %d (%s)' % (n, ins.describe())
                if r.status != 'ok':
                    problems.append('%s: %s %s' % (where, r.info.get('kind'), r.info.get('msg')))
                    continue
                if expect is None and r.retval in (0, 1):
                    pass
                elif r.retval != expect:
                    problems.append('%s: returned %r, the documented behaviour is %s' % (where, r.retval, 'an exception' if expect else 'success'))
                    continue
                check_state(pool, r.state, m2, ctx, where, problems)
                nxt.append((r.state, m2))
            if problems:
                return problems
        states = nxt
    # observation through the public interface: a copy of every specified vector must equal it (operator==) and carry its value
    for st, model in states:
        for k, ms in enumerate(model.slots):
            if ms is None or not model.specified(k) or k == 4:
                continue
            d, want = model.value(k)
            for r in pool.step(st, Ins('COPYCON', t=4, s1=k)):
                if r.status != 'ok' or r.retval != 0:
                    problems.append('copying slot %d after the history: %s %r' % (k, r.status, r.info or r.retval))
                    continue
                raw = pool.raw(r.state, 4)
                got = pool.values(r.state, 4)
                if raw['dim'] != d or got is None or len(got) != len(want) or any((g is not w) and not _same(ctx, g, w) for g, w in zip(got, want)):
                    problems.append('after the history a copy of slot %d has dimension %r / other values than the vector should hold (dimension %d)' % (k, raw['dim'], d))
                    continue
                for r2 in pool.step(r.state, Ins('EQ', t=k, s1=4)):
                    if r2.status != 'ok' or pool.read_res(r2.state) != 1:
                        problems.append('after the history slot %d does not compare equal to its own copy' % k)
            if problems:
                return problems
    for st, model in states:
        live = [k for k, s in enumerate(model.slots) if s is not None]
        ok, info = pool.quiesce(st, live, leaks=False)   # leaks are C15's clause; double/invalid frees are caught here
        if not ok:
            problems.append('at quiescence: %s' % info)
    return problems


def work(item):
    k0, k1, dA, dB, tier, seed = item
    solver = S.Solver(timeout_ms=30000)
    out = new_out(item=list(item[:4]))
    pool = Pool(nslots=NSLOTS, nbufs=3, solver=solver, align='fork' if tier == 'thorough' else 'aligned')
    ctx = PolyCtx()
    st = pool.initial()
    model = Model(NSLOTS, pool.buf_init)
    pre = prestate_program(k0, k1, dA, dB)
    states = [(st, model)]
    for ins in pre:
        nxt = []
        for s, m in states:
            m2 = m.clone()
            m2.apply(ins)
            for r in pool.step(s, ins):
                if r.status != 'ok' or r.retval != 0:
                    out['broken'].append('pre-state %s/%s: %r' % (k0, k1, (r.status, r.retval, r.info)))
                    out.update(worker_result(solver, [pool.ex.stats], functions=FUNCS))
                    return out
                nxt.append((r.state, m2))
        states = nxt[:2]     # keep at most two alignment variants of the pre-state
    histories = [[i] for i in one_step_ops()]
    fam = [[c, r] for c in consuming_ops() for r in reuse_ops()]
    fam3 = [[c, r, t] for c in consuming_ops()[:6] for r in reuse_ops()[:3] for t in third_ops()]
    rng = __import__('random').Random(seed * 1000003 + hash((k0, k1, dA, dB)) % 1000)
    if tier == 'quick':
        rng.shuffle(fam)
        rng.shuffle(fam3)
        fam = fam[:40]
        fam3 = fam3[:12]
    histories += fam + fam3
    nrun = 0
    nskip = 0
    for hist in histories:
        for st_, m_ in states:
            probs = run_history(pool, st_, m_, hist, ctx)
            if probs is None:
                nskip += 1
                continue
            nrun += 1
            if probs:
                full = pre + hist
                opsig = ' ; '.join(i.describe() for i in hist)
                shape = '%s/%s' % (k0, k1)
                key = 'history:' + hashlib.sha1((shape + '|' + opsig + '|' + probs[0].split(':')[0]).encode()).hexdigest()[:10]
                out['candidates'].append({'key': key, 'cls': classify(probs[0]), 'what': 'pre-state %s (dims %d,%d): %s -> %s' % (shape, dA, dB, opsig, probs[0]),
                                          'lines': [i.line() for i in full], 'program': [i.tojson() for i in full], 'problems': probs[:3], 'nsteps_pre': len(pre)})
                break
    out['obligations'].append({'obligation': 'pre-state slot0=%s slot1=%s (dims %d/%d): %d histories (1 step: %d ops; consume->re-use: %d; +third op: %d) behave as the value-semantics model on every path, ledger balanced at quiescence' % (
        k0, k1, dA, dB, nrun, len(one_step_ops()), len(fam), len(fam3)), 'verdict': 'holds' if not out['candidates'] else '%d histories fail' % len(out['candidates'])})
    out['witnesses']['reachability'] += nrun
    out['nhist'] = nrun
    out.update(worker_result(solver, [pool.ex.stats], functions=FUNCS))
    return out


def classify(problem):
    p = problem
    if 'both own' in p:
        return 'double-ownership'
    if 'double-free' in p or 'invalid-free' in p or 'use-after-free' in p or 'invalid-access' in p:
        return 'memory'
    if 'leak' in p:
        return 'leak'
    if 'expected' in p or 'changed to' in p:
        return 'value'
    return 'other'


def replay(chk, c):
    """replay natively (ASan/UBSan build) and compare every observation with a concrete run of the model"""
    chk.cov['replayed'] += 1
    prog = []
    for ln in c['lines']:
        w = ln.split(' = ')[0].split()
        prog.append(Ins(int(w[0]), int(w[1]), int(w[2]), int(w[3]), int(w[4]), int(w[5]), float(w[6]), int(w[7])))
    # concrete buffer contents
    rng = __import__('random').Random(12345)
    bufs = [[Fraction(rng.randint(-50, 50), 8) for _ in range(BUF_DOUBLES)] for _ in range(3)]
    init = [Ins('EXTERNAL', t=3, x=2, ext=b, preload=bufs[b]) for b in range(3)]
    full = []
    for b in range(3):
        full += [Ins('EXTERNAL', t=3, x=2, ext=b, preload=bufs[b]), Ins('DESTROY', t=3)]
    # model run first (to know which slots to observe through the public interface at the end)
    model = Model(NSLOTS, bufs)
    expects = []
    for ins in prog:
        m2 = model.clone()
        try:
            expects.append(None if m2.apply(ins) == 'any' else 0)
            model = m2
        except Throw:
            expects.append(1)
    observe = []
    for k in range(NSLOTS - 1):
        if model.slots[k] is not None and model.specified(k):
            observe += [(k, Ins('COPYCON', t=4, s1=k)), (k, Ins('EQ', t=k, s1=4)), (k, Ins('DESTROY', t=4))]
    full += prog + [i for _, i in observe]
    res = native_replay(full, nslots=NSLOTS, nbufs=3)
    c['native'] = {'exit': res['exit'], 'report': (res['report'] or '')[:800]}
    if res['report']:
        return True, 'sanitizer: ' + [l for l in res['report'].split('\n') if l.strip()][0][:200]
    if res.get('invariant'):
        return True, 'native object representation: ' + res['invariant']
    model = Model(NSLOTS, bufs)
    off = 6
    for n, ins in enumerate(prog):
        obs = res['steps'][off + n] if off + n < len(res['steps']) else None
        if obs is None:
            return True, 'native run stopped early'
        m2 = model.clone()
        try:
            expect = None if m2.apply(ins) == 'any' else 0
        except Throw:
            m2 = model.clone()
            expect = 1
        if expect is not None and obs['rc'] != expect:
            return True, 'step %d: rc %d, expected %d' % (n, obs['rc'], expect)
        model = m2
        for k in range(NSLOTS):
            if model.slots[k] is None or not model.specified(k):
                continue
            d, want = model.value(k)
            got = obs['slots'].get(k)
            if got is None or got['dim'] != d:
                return True, 'step %d: slot %d dimension %r, expected %d' % (n, k, got and got['dim'], d)
            for i, (g, w) in enumerate(zip(got['vals'], want)):
                wv = float(T.evaluate(w, {})) if isinstance(w, T.Term) else float(w)
                if abs(g - wv) > 1e-9 * max(1.0, abs(wv)):
                    return True, 'step %d (%s): slot %d component %d is %.6g, expected %.6g' % (n, ins.describe(), k, i, g, wv)
    base = off + len(prog)
    for j, (k, ins) in enumerate(observe):
        obs = res['steps'][base + j] if base + j < len(res['steps']) else None
        if obs is None:
            return True, 'native run stopped early (observation phase)'
        d, want = model.value(k)
        if ins.op == OPS['COPYCON']:
            got = obs['slots'].get(4)
            if obs['rc'] != 0 or got is None or got['dim'] != d:
                return True, 'a copy of slot %d has dimension %r, the vector should have dimension %d' % (k, got and got['dim'], d)
            for i, (g, w) in enumerate(zip(got['vals'], want)):
                wv = float(T.evaluate(w, {})) if isinstance(w, T.Term) else float(w)
                if abs(g - wv) > 1e-9 * max(1.0, abs(wv)):
                    return True, 'a copy of slot %d has component %d = %.6g, expected %.6g' % (k, i, g, wv)
        elif ins.op == OPS['EQ'] and obs['res'] != 1:
            return True, 'slot %d does not compare equal to its own copy' % k
    return False, 'native run matches the model'


def main(tier):
    chk = Check(PID, tier)
    chk.candidates = []
    pairs = [(2, 3), (2, 4)] if tier == 'quick' else [(2, 3), (3, 2), (3, 4), (4, 4), (5, 6), (6, 2)]
    items = [(k0, k1, dA, dB, tier, chk.seed) for (dA, dB) in pairs for k0 in KINDS for k1 in KINDS]
    chk.cov['bounds'] = {'pool': '4 slots: two operands in {empty, self-owned, external} x two dimensions, one self-owned observer, one free slot; 3 user buffers with symbolic contents',
                         'dimensions': pairs, 'histories': 'all 1-step operations of the catalogue; consume(move/theft)->re-use family with 2 steps; with a third observing operation (3 steps)'
                         + (' -- quick tier: seeded sample of 40+12 multi-step histories per pre-state' if tier == 'quick' else ''),
                         'allocation alignment': 'both residues mod 32 forked' if tier == 'thorough' else '32-byte aligned blocks'}
    chk.cov['domains'] = ['heap/object model; component values symbolic, compared as normal-form polynomials (copies are exact term identities)']
    chk.cov['stubs'] = ['operator new[]/delete[]: ledger', 'thread-local block cache: executed from IR, initially empty']
    chk.assumptions = ['representation invariant of the pre-state: vectors are produced by the public constructors only (no hand-made object states)',
                       'a vector consumed as an rvalue has an unspecified value afterwards (only safety is checked), as the property states',
                       'an external buffer bound to a consumed rvalue has unspecified contents afterwards']
    Pool(nslots=NSLOTS)      # build IR once before forking
    with MPool(min(16, os.cpu_count() or 1)) as mp:
        results = mp.map(work, items, chunksize=1)
    nh = 0
    for w in results:
        chk.merge_worker(w)
        nh += w.get('nhist', 0)
    chk.cov['histories_run'] = nh
    # group candidates by defect signature so that one defect is reported once
    seen = set()
    for c in chk.candidates:
        sig = c['problems'][0].split(': ', 1)[-1][:60] + '|' + ' ; '.join(p['text'].split('  [')[0] for p in c['program'][c['nsteps_pre']:])
        if sig in seen:
            continue
        seen.add(sig)
        ok, info = replay(chk, c)
        if ok:
            chk.report(c['key'], '%s; native: %s' % (c['what'], info), c)
        else:
            chk.broken_q('counterexample %s did not reproduce natively (%s): %s' % (c['key'], info, c['what'][:200]))
    return chk.finish()


def replay_main(path):
    c = json.load(open(path))['replay']
    chk = Check(PID, 'quick')
    ok, info = replay(chk, c)
    print('replay %s: %s (%s)' % (path, 'REPRODUCED' if ok else 'not reproduced', info))
    return 1 if ok else 0


if __name__ == '__main__':
    sys.exit(main(sys.argv[1] if len(sys.argv) > 1 else 'quick'))
