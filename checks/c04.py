"""C04 -- the right-hand side handed to the ODE driver is exactly the documented kinetic equation (callback contract under a GSL stub)."""
import math, sys, time, os, json, math, subprocess
from fractions import Fraction
from multiprocessing import Pool as MPool
import numpy as np
from common import *
from sysdrv import *
from irsym.harness import Harness, I, D, Buf, IBuf
from irsym import solver as S

PID = 'C04'
TOL = Fraction(1, 10 ** 12)
FUNCS = ['squids::RHS', 'SQuIDS::set_system_pointers', 'SQuIDS::Derive', 'SQuIDS::Evolve', 'SQuIDS::ini', 'SQuIDS::Set_*Terms / Set_AnyNumerics bookkeeping', 'SU_vector::SetBackingStore',
         'iCommutator / ACommutator kernels through assignProxy (= -= +=)', 'virtual HI, GammaRho, InteractionsRho, GammaScalar, InteractionsScalar, PreDerive (vtable dispatch)']
SCRIPTS = {
    'A': [{'cb': [(0, 0), (1, 1), (2, 0)]}, {'cb': [(0, 1), (2, 1), (1, 0)]}],
    'B': [{'cb': [(0, 0), (0, 0), (1, 1)]}, {'cb': [(0, 0), (2, 0)]}],
    'C': [{'cb': [(0, 1)]}, {'cb': [(0, 1), (1, 1), (1, 0)]}],
    # the real adaptive driver re-uses the derivative of the previous step: a later integration call may start at a scratch buffer (measured, see h_gsl_contract)
    'D': [{'cb': [(0, 0), (1, 1)]}, {'cb': [(1, 1), (0, 0), (2, 1)]}],
    'E': [{'cb': [(2, 0), (0, 1)]}, {'cb': [(1, 0)]}],
}


def ref_rhs(tw, d, mask, rho, hi, g, inn, ctx):
    ps = tw.run('h_ref_rhs', [I(d), I(mask), Buf('rho', rho), Buf('hi', hi), Buf('g', g), Buf('in', inn), Buf('out', n=d * d)])
    return [ctx.poly(v) for v in ps[0].out('out')]


def check_config(out, solver, tw, d, nx, nrho, nsc, mask, order, script_name, adaptive):
    ctx = PolyCtx()
    dec = Decider(solver, ctx, out, tol=TOL)
    n = d * d
    size_state = nrho * n + nsc
    numeqn = nx * size_state
    desc = 'd=%d nx=%d nrho=%d nscalars=%d switches=%s order=%d script=%s %s' % (d, nx, nrho, nsc, format(mask, '05b'), order, script_name, 'adaptive' if adaptive else 'fixed')
    key = 'rhs:d=%d:nx=%d:nrho=%d:nsc=%d:mask=%d' % (d, nx, nrho, nsc, mask)
    info = dict(kind='rhs', d=d, nx=nx, nrho=nrho, nsc=nsc, mask=mask, order=order, adaptive=adaptive)
    s = Session(SCRIPTS[script_name], solver=solver)
    ti = T.var('ti')
    try:
        s.ok('h_sys_ctor', [s.obj[0], nx, d, nrho, nsc, ti])
        s.write_state(0, nx, d, nrho, nsc)
        s.ok('h_sys_switches', [s.obj[0], mask, order])
        s.ok('h_sys_stepping', [s.obj[0], 1 if adaptive else 0, 7, 0])
        ctl = [Fraction(1, 1000), Fraction(1, 10 ** 9), Fraction(1, 2), T.var('eabs'), T.var('erel')]     # hmin < h < hmax concrete (the setters re-adjust h otherwise), tolerances symbolic
        s.ok('h_sys_control', [s.obj[0]] + ctl)
        stats_extra = []
        tcur = ti
        for seg in range(2):
            dt = T.var('dt%d' % seg)
            before = s.read_state(0, nx, d, nrho, nsc)
            mark = len(s.st.log)
            r = s.call('h_sys_evolve', [s.obj[0], dt])
            if r.status != 'ok' or r.retval != 0:
                dec.candidate(key, 'Evolve ends in %s / %r (%s)' % (r.status, r.info or r.retval, desc), **info)
                return s
            log = s.log_since(mark)
            rhs = [e for e in log if e[0] == 'rhs']
            for e in log:
                # the driver is configured with the user's control parameters in GSL's argument order (hstart, epsabs, epsrel; hmin; hmax)
                if e[0] == 'gsl_alloc' and (isinstance(e[3], Term) or e[3] != ctl[0] or e[4] is not ctl[3] or e[5] is not ctl[4]):
                    dec.candidate('driver-control', 'the ODE driver is created with (hstart, epsabs, epsrel) = (%s, %s, %s) although Set_h / Set_abs_error / Set_rel_error were given (1/1000, eabs, erel) (%s)' % (
                        T.show(e[3], 2), T.show(e[4], 2), T.show(e[5], 2), desc), **dict(info, kind='control'))
                if e[0] == 'gsl_set' and e[1] in ('hmin', 'hmax') and (isinstance(e[3], Term) or e[3] != (ctl[1] if e[1] == 'hmin' else ctl[2])):
                    dec.candidate('driver-control', 'the ODE driver receives %s = %s although Set_h_min / Set_h_max were given (1e-9, 1/2) (%s)' % (e[1], T.show(e[3], 2), desc), **dict(info, kind='control'))
            tnew = s.ok('h_sys_get_t', [s.obj[0]])
            texp = T.fadd(tcur, dt)
            if not (ctx.poly(tnew) - ctx.poly(texp)).is_zero():
                dec.candidate(key + ':clock', 'after Evolve(dt) the clock is %s, expected %s (%s)' % (T.show(tnew, 4), T.show(texp, 4), desc), **info)
            tcur = tnew
            if mask == 0:
                pres = [e for e in log if e[0] == 'pre']
                after = s.read_state(0, nx, d, nrho, nsc)
                if rhs or len(pres) != 1 or pres[0][2] is not tnew or any(a is not b for a, b in zip(before, after)):
                    dec.candidate(key, 'with all terms disabled Evolve must only advance the clock, call PreDerive(t_new) once and leave the state untouched (%s)' % desc, **info)
                continue
            if not rhs:
                dec.candidate(key + ':nointegration', 'terms are enabled but Evolve performs no integration (AnyNumerics bookkeeping) (%s)' % desc, **info)
                return s
            # per callback
            idx = 0
            for e in rhs:
                _, call, k, tau, inb, outb, inv, outv, viol, params, rc = e
                seglog = []
                # log entries between this callback's begin and its 'rhs' record
                b = [i for i, x in enumerate(log) if x[0] == 'rhs-begin' and x[1] == call and x[2] == k][0]
                en = [i for i, x in enumerate(log) if x[0] == 'rhs' and x[1] == call and x[2] == k][0]
                seglog = log[b + 1:en]
                where = 'callback %d of integration call %d (%s)' % (k, call, desc)
                if params != s.obj[0]:
                    dec.candidate(key + ':params', 'the callback parameter is not the object Evolve was called on (%s)' % where, **info)
                if rc != 0:
                    dec.candidate(key + ':rc', 'RHS returns %r (%s)' % (rc, where), **info)
                if viol:
                    dec.candidate(key + ':writes', 'RHS writes outside its output buffer into another buffer of the ODE driver (offset %d) (%s)' % (viol[0][0], where), **info)
                if any(v is None for v in outv):
                    dec.candidate(key + ':unwritten', 'RHS leaves entry %d of the derivative buffer unwritten (%s)' % ([i for i, v in enumerate(outv) if v is None][0], where), **info)
                    continue
                pres = [x for x in seglog if x[0] == 'pre']
                terms = [x for x in seglog if x[0] == 'term']
                if len(pres) != 1 or pres[0][2] is not tau or (seglog and seglog[0][0] != 'pre'):
                    dec.candidate(key + ':prederive', 'PreDerive is not called exactly once with the stepper\'s time before the terms (%s)' % where, **info)
                want_calls = []
                for ei in range(nx):
                    for i in range(nrho):
                        for kind in (0, 1, 2):
                            if mask >> kind & 1:
                                want_calls.append((kind, ei, i))
                    for j in range(nsc):
                        for kind in (3, 4):
                            if mask >> kind & 1:
                                want_calls.append((kind, ei, j))
                got_calls = [(x[1], x[2], x[3]) for x in terms]
                if sorted(got_calls) != sorted(want_calls) or any(x[4] is not tau for x in terms):
                    dec.candidate(key + ':calls', 'the user terms are not called exactly once per enabled term with (node, index, stepper time) (%s): got %r' % (where, got_calls[:6]), **info)
                polys = []
                for ei in range(nx):
                    for i in range(nrho):
                        off = ei * size_state + i * n
                        rho = inv[off:off + n]
                        hi = [term_atom(0, ei, i, c, tau) for c in range(n)]
                        g = [term_atom(1, ei, i, c, tau) for c in range(n)]
                        inn = [term_atom(2, ei, i, c, tau) for c in range(n)]
                        ref = ref_rhs(tw, d, mask & 7, rho, hi, g, inn, ctx)
                        polys += [ctx.poly(outv[off + c]) - ref[c] for c in range(n)]
                    for j in range(nsc):
                        off = ei * size_state + nrho * n + j
                        ref = Poly()
                        if mask & 8:
                            ref = ref - ctx.poly(inv[off]) * ctx.poly(term_atom(3, ei, j, 0, tau))
                        if mask & 16:
                            ref = ref + ctx.poly(term_atom(4, ei, j, 0, tau))
                        polys.append(ctx.poly(outv[off]) - ref)
                dec.decide('RHS output = i[rho,HI] - {Gamma,rho} + I_rho, -Gamma_s s + I_s for every node/matrix/scalar with the arguments (node, index, tau): %s' % where, polys, key, info)
                out['witnesses']['reachability'] += 1
            # after Evolve: in-step views coincide with the stored state
            for ix, row in enumerate(s.get_views(0, nx, nrho)):
                bad = [i for i, (a, b) in enumerate(row['rho']) if a != b]
                if bad or (nsc > 0 and row['scalar'][0] != row['scalar'][1]):
                    dec.candidate(key + ':views', 'after Evolve the in-step view of node %d does not coincide with the stored state (%s)' % (ix, desc), **info)
        # error propagation: a failing driver status must surface as an exception
    except SessionError as e:
        dec.candidate(key + ':error', '%s (%s)' % (str(e)[:300], desc), **info)
    except ExecError as e:
        out['broken'].append('%s: %s' % (desc, str(e)[:200]))
    return s


def work(item):
    d, nx, nrho, nsc, tier = item
    solver = S.Solver(timeout_ms=60000)
    out = new_out(item=list(item[:4]))
    tw = Harness('c04.cpp', LIBS, solver=solver, defines=('VERIF_SYMBOLIC',))
    stats = []
    masks = list(range(32))
    if nsc == 0:
        masks = [m for m in masks if m < 8]
    nconf = 0
    for mask in masks:
        orders = range(5) if bin(mask).count('1') == 1 else [mask % 5]
        for order in orders:
            for script in (['A', 'B', 'C', 'D', 'E'] if (tier == 'thorough' or mask in (1, 7, 31, 24)) else ['A' if mask % 2 else 'B'] + (['D', 'E'] if mask in (2, 5, 16) else [])):
                s = check_config(out, solver, tw, d, nx, nrho, nsc, mask, order, script, adaptive=(mask % 3 != 0))
                stats.append(s.ex.stats)
                nconf += 1
    # switch bookkeeping, one inductive step from every switch state: all five flags set (any state M), then ONE setter call (any of the 5, on or
    # off, as the LAST call) -> Evolve integrates iff some term is enabled afterwards, and calls exactly the enabled terms
    if (d, nx, nrho) == (2, 2, 1) or tier == 'thorough':
        nbk = 0
        bad_bk = None
        for M in range(32 if nsc else 8):
            for which in range(5):
                if not nsc and which >= 3:
                    continue
                for on in (0, 1):
                    M2 = (M | (1 << which)) if on else (M & ~(1 << which))
                    sb = Session([{'cb': [(0, 0)]}], solver=solver)
                    try:
                        sb.ok('h_sys_ctor', [sb.obj[0], nx, d, nrho, nsc, T.var('ti')])
                        sb.write_state(0, nx, d, nrho, nsc)
                        sb.ok('h_sys_switches', [sb.obj[0], M, (which + 1) % 5])
                        sb.ok('h_sys_switch_one', [sb.obj[0], which, on])
                        sb.ok('h_sys_stepping', [sb.obj[0], 1, 7, 0])
                        mark = len(sb.st.log)
                        r = sb.call('h_sys_evolve', [sb.obj[0], T.var('dt')])
                        lg = sb.log_since(mark)
                        rhs_ = [e for e in lg if e[0] == 'rhs']
                        kinds_called = set(e[1] for e in lg if e[0] == 'term')
                        nbk += 1
                        if r.status != 'ok' or r.retval != 0 or bool(rhs_) != bool(M2):
                            bad_bk = (M, which, on, M2, 'Evolve %s' % ('does not integrate although a term is enabled' if M2 else 'integrates although every term is disabled'))
                    except (SessionError, ExecError) as e:
                        bad_bk = (M, which, on, M2, str(e)[:120])
                    stats.append(sb.ex.stats)
                    if bad_bk:
                        break
                if bad_bk:
                    break
            if bad_bk:
                break
        if bad_bk:
            M, which, on, M2, what_ = bad_bk
            names_ = ['Set_CoherentRhoTerms', 'Set_NonCoherentRhoTerms', 'Set_OtherRhoTerms', 'Set_GammaScalarTerms', 'Set_OtherScalarTerms']
            out['candidates'].append({'key': 'switch-bookkeeping:%s' % names_[which], 'what': 'with the switches %s set, then %s(%s) as the last setter call (switches now %s): %s' % (
                format(M, '05b'), names_[which], 'true' if on else 'false', format(M2, '05b'), what_), 'kind': 'bookkeeping', 'd': d, 'nx': nx, 'nrho': nrho, 'nsc': nsc, 'mask': M, 'which': which, 'on': on, 'order': 0, 'adaptive': True})
        else:
            out['obligations'].append({'obligation': 'switch bookkeeping d=%d nx=%d: from each of the %d switch states, each setter called last with each value (%d cases): Evolve integrates iff a term is enabled' % (d, nx, 32 if nsc else 8, nbk), 'verdict': 'holds'})
    # error propagation
    s = Session([{'cb': [(0, 0)], 'status': 5}], solver=solver)
    s.ok('h_sys_ctor', [s.obj[0], nx, d, nrho, nsc, T.var('ti')])
    s.write_state(0, nx, d, nrho, nsc)
    s.ok('h_sys_switches', [s.obj[0], 1, 0])
    s.ok('h_sys_stepping', [s.obj[0], 1, 7, 0])
    r = s.call('h_sys_evolve', [s.obj[0], T.var('dt')])
    stats.append(s.ex.stats)
    if r.status != 'ok' or r.retval != 1:
        out['candidates'].append({'key': 'status:d=%d' % d, 'what': 'a failing GSL status is not reported as a std::runtime_error (Evolve returned %r / %s)' % (r.retval, r.status), 'kind': 'status', 'd': d, 'nx': nx, 'nrho': nrho, 'nsc': nsc, 'mask': 1, 'order': 0, 'adaptive': True})
    else:
        out['obligations'].append({'obligation': 'non-success driver status -> std::runtime_error, d=%d' % d, 'verdict': 'holds'})
    out['obligations'].append({'obligation': 'd=%d nx=%d nrho=%d nscalars=%d: %d (switch setting, setter order, callback script) configurations, two Evolve segments each' % (d, nx, nrho, nsc, nconf),
                               'verdict': 'holds' if not out['candidates'] else '%d problems' % len(out['candidates'])})
    out.update(worker_result(solver, stats + [tw.last_ex.stats], functions=FUNCS))
    return out


# ------------------------------------------------------------------------------------------ native replay: closed-form problems on the real GSL
def replay(chk, c):
    """natively the real GSL integrates; the candidate configuration is run for every explicit stepper (adaptive and fixed) with the native
    fixed term functions and compared with an independent scipy integration of the documented equation."""
    chk.cov['replayed'] += 1
    from scipy.integrate import solve_ivp
    h = Harness('c04.cpp', LIBS)
    lib = h.native_lib()
    d, nx, nrho, nsc, mask, order = c['d'], c['nx'], c['nrho'], c['nsc'], c['mask'], c.get('order', 0)
    if c.get('kind') == 'rhs':
        # first: the callback itself, called as a driver would (same output array, another input array): it must read the array it is handed
        code_p = r'''
import ctypes, sys, json, random
lib = ctypes.CDLL(sys.argv[1]); cfg=json.loads(sys.argv[2])
mem = ctypes.create_string_buffer(8192); p = ctypes.c_void_p(ctypes.addressof(mem))
V=ctypes.c_void_p; U=ctypes.c_uint; Dd=ctypes.c_double
lib.h_sys_ctor.argtypes=[V,U,U,U,U,Dd]; lib.h_sys_switches.argtypes=[V,U,U]; lib.h_sys_write.argtypes=[V,U,U,U,U,V]
lib.h_sys_rhs_probe.argtypes=[V,U,V,V,Dd,V]; lib.h_sys_evolve.argtypes=[V,Dd]; lib.h_sys_stepping.argtypes=[V,U,U,U]
nx,d,nrho,nsc=cfg['nx'],cfg['d'],cfg['nrho'],cfg['nsc']; n=nx*(nrho*d*d+nsc)
lib.h_sys_ctor(p,nx,d,nrho,nsc,0.3); rng=random.Random(5)
y0=(Dd*n)(*[rng.uniform(-.5,.5) for _ in range(n)]); lib.h_sys_write(p,nx,d,nrho,nsc,y0)
lib.h_sys_switches(p,cfg['mask'],cfg['order']); lib.h_sys_stepping(p,1,10,2); lib.h_sys_evolve(p,0.01)
y1=(Dd*n)(*[rng.uniform(-.5,.5) for _ in range(n)]); y2=(Dd*n)(*[rng.uniform(-.5,.5) for _ in range(n)]); res=(Dd*2)()
rc=lib.h_sys_rhs_probe(p,n,y1,y2,0.7,res)
print(json.dumps({'rc':rc,'res':list(res)}))
'''
        so_p = build.native_so('c04.cpp')
        pp = subprocess.run([sys.executable, '-c', code_p, so_p, json.dumps(dict(nx=nx, d=d, nrho=nrho, nsc=nsc, mask=mask, order=order))], capture_output=True, text=True, timeout=120)
        if pp.returncode == 0 and pp.stdout.strip():
            rr = json.loads(pp.stdout.strip().split('\n')[-1])
            if rr['rc'] == 0 and rr['res'][1] > 1e-6 and rr['res'][0] > 1e-12:
                return True, 'the ODE callback, given a new input array with the same output array, does not compute the derivative of that input (difference %.3g to the derivative written into a fresh output array)' % rr['res'][0]
    if c.get('kind') == 'control':
        # natively: interposed GSL entry points record what the driver receives
        code = r'''
import ctypes, sys, json
lib = ctypes.CDLL(sys.argv[1])
mem = ctypes.create_string_buffer(8192); p = ctypes.c_void_p(ctypes.addressof(mem))
lib.h_sys_ctor.argtypes=[ctypes.c_void_p,ctypes.c_uint,ctypes.c_uint,ctypes.c_uint,ctypes.c_uint,ctypes.c_double]
lib.h_sys_evolve.argtypes=[ctypes.c_void_p,ctypes.c_double]
lib.h_sys_switches.argtypes=[ctypes.c_void_p,ctypes.c_uint,ctypes.c_uint]
lib.h_sys_stepping.argtypes=[ctypes.c_void_p,ctypes.c_uint,ctypes.c_uint,ctypes.c_uint]
lib.h_sys_control.argtypes=[ctypes.c_void_p]+[ctypes.c_double]*5
lib.h_sys_ctor(p,2,2,1,1,0.0); lib.h_sys_switches(p,1,0); lib.h_sys_stepping(p,1,10,2)
lib.h_sys_control(p,1e-3,1e-9,0.5,1e-7,1e-5)
rc=lib.h_sys_evolve(p,0.1)
out=(ctypes.c_double*5)(); lib.h_ctl_read(out)
print(json.dumps({'rc':rc,'got':list(out)}))
'''
        so = build.native_so('c04.cpp')
        p = subprocess.run([sys.executable, '-c', code, so], capture_output=True, text=True, timeout=120)
        if p.returncode != 0 or not p.stdout.strip():
            return True, 'native run crashed: %s' % p.stderr[-200:]
        got = json.loads(p.stdout.strip().split('\n')[-1])['got']
        want = [1e-3, 1e-7, 1e-5, 1e-9, 0.5]
        return got != want, 'the real driver received (hstart, epsabs, epsrel, hmin, hmax) = %r for Set_h(1e-3), Set_abs_error(1e-7), Set_rel_error(1e-5), Set_h_min(1e-9), Set_h_max(0.5)' % (got,)
    which_, on_ = c.get('which'), c.get('on')
    if c.get('kind') == 'bookkeeping':
        order = (which_ + 1) % 5
    mask_set = mask
    if which_ is not None:
        mask = (mask | (1 << which_)) if on_ else (mask & ~(1 << which_))      # the switches in force during the evolution
    n = d * d
    ss = nrho * n + nsc
    G = gellmann(d)
    B = [np.array([[float(G[k][i][j][0]) + 1j * float(G[k][i][j][1]) for j in range(d)] for i in range(d)]) for k in range(n)]

    def mat(v):
        return sum(v[k] * B[k] for k in range(n))

    def comps(M):
        return np.array([(np.trace(M @ B[k]).real / (d if k == 0 else 2.0)) for k in range(n)])

    def term(kind, ix, idx, t, k):
        if kind in (1, 3):
            return 0.05 * (1 + ix) + 0.01 * idx + 0.02 * math.cos(t) * (1 if k == 0 else 0.1 / (k + 1))
        return 0.3 * math.sin(0.5 * t + ix + 0.7 * idx + kind) * (1.0 / (1 + k))

    def rhs(t, y):
        out = np.zeros_like(y)
        for ei in range(nx):
            for i in range(nrho):
                off = ei * ss + i * n
                R = mat(y[off:off + n])
                acc = np.zeros((d, d), complex)
                if mask & 1:
                    Hm = mat([term(0, ei, i, t, k) for k in range(n)])
                    acc += 1j * (R @ Hm - Hm @ R)
                if mask & 2:
                    Gm = mat([term(1, ei, i, t, k) for k in range(n)])
                    acc -= (Gm @ R + R @ Gm)
                if mask & 4:
                    acc += mat([term(2, ei, i, t, k) for k in range(n)])
                out[off:off + n] = comps(acc)
            for j in range(nsc):
                off = ei * ss + nrho * n + j
                if mask & 8:
                    out[off] += -y[off] * term(3, ei, j, t, 0)
                if mask & 16:
                    out[off] += term(4, ei, j, t, 0)
        return out
    rng = np.random.RandomState(chk.seed + 5)
    y0 = rng.uniform(-0.5, 0.5, nx * ss)
    worst = 0.0
    code = r'''
import ctypes, sys, json
lib = ctypes.CDLL(sys.argv[1])
cfg = json.loads(sys.argv[2])
mem = ctypes.create_string_buffer(8192)
p = ctypes.c_void_p(ctypes.addressof(mem))
nx,d,nrho,nsc = cfg['nx'],cfg['d'],cfg['nrho'],cfg['nsc']
lib.h_sys_ctor.argtypes=[ctypes.c_void_p,ctypes.c_uint,ctypes.c_uint,ctypes.c_uint,ctypes.c_uint,ctypes.c_double]
lib.h_sys_evolve.argtypes=[ctypes.c_void_p,ctypes.c_double]
lib.h_sys_get_t.restype=ctypes.c_double; lib.h_sys_get_t.argtypes=[ctypes.c_void_p]
for f in ('h_sys_write','h_sys_read'):
    getattr(lib,f).argtypes=[ctypes.c_void_p,ctypes.c_uint,ctypes.c_uint,ctypes.c_uint,ctypes.c_uint,ctypes.c_void_p]
lib.h_sys_switches.argtypes=[ctypes.c_void_p,ctypes.c_uint,ctypes.c_uint]
lib.h_sys_stepping.argtypes=[ctypes.c_void_p,ctypes.c_uint,ctypes.c_uint,ctypes.c_uint]
lib.h_sys_ctor(p,nx,d,nrho,nsc,cfg['ti'])
y=(ctypes.c_double*len(cfg['y0']))(*cfg['y0'])
lib.h_sys_write(p,nx,d,nrho,nsc,y)
lib.h_sys_switches(p,cfg['mask'],cfg['order'])
if cfg.get('which') is not None:
    lib.h_sys_switch_one.argtypes=[ctypes.c_void_p,ctypes.c_uint,ctypes.c_uint]; lib.h_sys_switch_one(p,cfg['which'],cfg['on'])
lib.h_sys_stepping(p,cfg['adaptive'],cfg['nsteps'],cfg['stepper'])
rcs=[]
for dt in cfg['dts']:
    rcs.append(lib.h_sys_evolve(p,dt))
lib.h_sys_read(p,nx,d,nrho,nsc,y)
print(json.dumps({'rcs':rcs,'t':lib.h_sys_get_t(p),'y':list(y)}))
'''
    so = build.native_so('c04.cpp')
    ti = 0.3
    dts = [0.4, 0.0, 0.35]
    sol = solve_ivp(rhs, (ti, ti + sum(dts)), y0, rtol=1e-11, atol=1e-12, method='DOP853')
    yref = sol.y[:, -1]
    details = []
    for stepper in range(6):
        for adaptive in ((1, 0) if stepper < 5 else (1,)):
            cfg = dict(nx=nx, d=d, nrho=nrho, nsc=nsc, ti=ti, y0=list(y0), mask=mask_set, order=order, adaptive=adaptive, nsteps=400, stepper=stepper, dts=dts, which=which_, on=on_)
            try:
                p = subprocess.run([sys.executable, '-c', code, so, json.dumps(cfg)], capture_output=True, text=True, timeout=300)
            except subprocess.TimeoutExpired:
                return True, 'the native run does not finish within 300 s (the integration never converges)'
            if p.returncode != 0 or not p.stdout.strip():
                return True, 'native run crashed (stepper %d adaptive %d): %s' % (stepper, adaptive, p.stderr[-200:])
            res = json.loads(p.stdout.strip().split('\n')[-1])
            if any(res['rcs']):
                details.append('stepper %d adaptive %d: Evolve failed rc=%r' % (stepper, adaptive, res['rcs']))
                continue
            dev = float(np.abs(np.array(res['y']) - yref).max())
            tol = 1e-6 if adaptive else 2e-3
            if dev > tol or abs(res['t'] - (ti + sum(dts))) > 1e-12:
                details.append('stepper %d adaptive %d: deviation %.3g from the documented equation (clock %.6g)' % (stepper, adaptive, dev, res['t']))
            worst = max(worst, dev)
    c['native'] = details[:6]
    return bool(details), (details[0] if details else 'all steppers agree with the documented equation (max deviation %.2g)' % worst)


def main(tier):
    chk = Check(PID, tier)
    chk.candidates = []
    if tier == 'quick':
        items = [(2, 2, 1, 1, tier), (3, 1, 2, 0, tier), (2, 3, 2, 2, tier)]
    else:
        items = [(d, nx, nrho, nsc, tier) for d in (2, 3, 4, 5, 6) for (nx, nrho, nsc) in ((1, 1, 0), (2, 1, 1), (3, 2, 2), (2, 2, 0))]
    chk.cov['bounds'] = {'configurations (d,nx,nrho,nscalars)': [list(i[:4]) for i in items], 'switch settings': 'all 32 (8 when there are no scalars); single-switch settings with all 5 setter orders',
                         'driver behaviours': 'callback scripts of <=3 RHS calls per integration call with input buffer in {y, scratch1, scratch2}, output buffer in {deriv1, deriv2}, over two consecutive Evolve calls (last-pointer cache); adaptive and fixed stepping entry points; success and failure status',
                         'values': 'state, dt, t_ini, stepper times and every user term symbolic (terms are uninterpreted functions of (node, index, time, component))'}
    chk.cov['domains'] = ['R (exact reals) with uninterpreted user terms']
    chk.cov['stubs'] = ['gsl_odeiv2_driver_alloc_y_new / set_* / apply / apply_fixed_step / free: checks/gslstub.py (nondeterministic, contract respecting: callbacks read the state array or a driver-owned scratch buffer and write a driver-owned derivative buffer)',
                        'user terms and PreDerive: intrinsics verif_term / verif_prederive']
    chk.assumptions = ['OUTSIDE THE TECHNIQUE: agreement of the integrated state with closed-form solutions to the requested tolerance for every GSL stepper -- GSL is a compiled library with no IR; this clause is only exercised in the native replay of candidates, not decided',
                       'GSL calls the system function with the state array or buffers it owns as input and a buffer it owns as output, at times inside the integration interval (validated on every run against the real driver: 6 steppers x adaptive/fixed, 3 consecutive integrations each; measured there: the adaptive driver starts a later integration at a scratch buffer, which the scripts D and E cover)',
                       'control flow inside the callback is concrete (switches enumerated, not symbolic)']
    Session([])      # build the IR once before forking
    Harness('c04.cpp', LIBS, defines=('VERIF_SYMBOLIC',))
    with MPool(min(16, os.cpu_count() or 1)) as mp:
        results = mp.map(work, items, chunksize=1)
    for w in results:
        chk.merge_worker(w)
    # translation validation of the whole stack on one concrete problem (real GSL): every stepper against scipy
    okv, info = replay(chk, dict(d=2, nx=2, nrho=1, nsc=1, mask=31, order=0))
    chk.cov['interp_vs_native']['cases'] += 1
    chk.cov['native_closed_form'] = info
    if okv:
        chk.broken_q('native integration of the documented equation disagrees with scipy on the unchanged tree: %s' % info)
    # the stub's contract against the real driver: every explicit stepper, adaptive and fixed entry points
    hn = Harness('c04.cpp', LIBS)
    contract = {}
    for stepper, nm in enumerate(('rk2', 'rk4', 'rkf45', 'rkck', 'rk8pd', 'msadams')):
        for adaptive in (1, 0):
            ret, o = hn.native('h_gsl_contract', [I(stepper), I(adaptive), Buf('res', n=8)])
            calls, first_not_y, out_is_in, out_is_y, t_outside, tend, y0, y1 = o['res']
            contract['%s/%s' % (nm, 'adaptive' if adaptive else 'fixed')] = {'callbacks': int(calls), 'first_not_at_y': int(first_not_y), 'out_is_in': int(out_is_in), 'out_is_y': int(out_is_y), 'time_outside_interval': int(t_outside)}
            chk.cov['interp_vs_native']['cases'] += 1
            if ret != 0 or out_is_in or out_is_y or t_outside or abs(tend - 1.5) > 1e-9 or abs(y0 - math.cos(1.5)) > 1e-3:
                chk.broken_q('the GSL driver stub\'s contract does not hold for the real driver (%s, %s): %r' % (nm, 'adaptive' if adaptive else 'fixed', o['res']))
    chk.cov['gsl_stub_contract_vs_real_driver'] = contract
    seen = set()
    nrep, t_replay = 0, time.time()
    for c in chk.candidates:
        k0 = c['key'].split(':d=')[0] + c['key'].split('mask=')[-1]
        if c['key'] in seen:
            continue
        seen.add(c['key'])
        # replay budget: once a counterexample has reproduced natively and the replays have used more than 240 s (a change under which the real
        # integration never converges costs a full time-out per candidate), the remaining candidates are counted, not replayed and not reported
        if nrep >= 1 and time.time() - t_replay > 240:
            chk.cov['candidates_not_replayed_after_budget'] = chk.cov.get('candidates_not_replayed_after_budget', 0) + 1
            continue
        ok, info = replay(chk, c)
        if ok:
            nrep += 1
            chk.report(c['key'], '%s; native: %s' % (c['what'], info), c)
        else:
            chk.broken_q('counterexample for %s did not reproduce natively (%s): %s' % (c['key'], info, c['what'][:200]))
    return chk.finish()


def replay_main(path):
    c = json.load(open(path))['replay']
    chk = Check(PID, 'quick')
    ok, info = replay(chk, c)
    print('replay %s: %s (%s)' % (path, 'REPRODUCED' if ok else 'not reproduced', info))
    return 1 if ok else 0


if __name__ == '__main__':
    sys.exit(main(sys.argv[1] if len(sys.argv) > 1 else 'quick'))
