"""C18 -- independent use from several threads: NON-INTERFERENCE argument (level "other": schedules are not enumerated).

(a) no mutable state is shared: static scan of the linked module for non-thread-local mutable globals + dynamic write sets of the public
    operation classes executed by the IR interpreter under logical threads (every store must hit the calling thread's own objects or its
    thread-local storage; const queries on a shared solver must not store into it);
(b) hand-over: a vector created under thread 1 and destroyed under thread 2;
(c) thread exit: the thread-local destructors registered by the code are run and every block allocated must have been released."""
import sys, time, os, json
from fractions import Fraction
import numpy as np
from common import *
from irsym import build, llparse as L, term as T, solver as S
from irsym.exec import Executor, ExecError
from irsym.harness import Harness, load_module, I, D, Buf

PID = 'C18'
CPP = 'c18.cpp'
LIBS = ('SUNalg.cpp', 'SQuIDS.cpp', 'const.cpp', 'MatrixExp.cpp')
ALLOW_GLOBALS = ('_ZStL8__ioinit', '__dso_handle', 'llvm.global_ctors', 'llvm.used')
FUNCS = ['every function of the four library translation units reachable from: vector algebra (+, +=, iCommutator, ACommutator, Evolve, Rotate, UTransform with matrix exponential, scalar product, matrix conversion)',
         'SQuIDS::GetExpectationValue / GetExpectationValueD (plain and averaging) / GetIntermediateState / Get_i on a shared object', 'SU_vector::alloc_aligned / deallocate_mem / thread-local storage_cache',
         'thread-local scratch holders (gsl_matrix_complex_holder, estimator workspace, RNG, expectationValueDBuffer) and their registered destructors']


class Threads:
    def __init__(self, domain='C', solver=None, h=None):
        self.h = h or Harness(CPP, LIBS)
        self.mod = self.h.mod
        self.ex = Executor(self.mod, domain, solver)
        self.st = self.ex.new_state()
        self.st.thread = 1
        self.slots = self.st.user_buffer(8 * 1024, 'objects', align=16).base
        self.io = self.st.user_buffer(8 * 256, 'io', align=32)
        self.violations = []
        self.stores = {}
        self.shared_ranges = []     # (lo, hi, label): memory that must not be written by the current operation
        self.st.access_hook = self.hook

    def hook(self, st, kind, addr, n, obj):
        if kind != 'store':
            return
        key = (obj.kind, obj.name if obj.kind in ('global', 'tls') else obj.kind)
        self.stores[key] = self.stores.get(key, 0) + 1
        if obj.kind == 'global':
            self.violations.append('store to the shared (non thread-local) global %s' % obj.name)
        if obj.kind == 'tls':
            owner = [t for (nm, t), a in st.gaddr.items() if a == obj.base]
            if owner and owner[0] != st.thread:
                self.violations.append('store to thread-local object %s of thread %r from thread %d' % (obj.name, owner[0], st.thread))
        for lo, hi, label in self.shared_ranges:
            if lo <= addr < hi:
                self.violations.append('store into %s (offset %d)' % (label, addr - lo))

    def call(self, thread, fn, args):
        self.st.thread = thread
        self.st.access_hook = self.hook
        rs = self.ex.run(self.st, fn, args)
        if len(rs) != 1 or rs[0].status != 'ok':
            raise ExecError('%s under thread %d: %r' % (fn, thread, [(r.status, r.info) for r in rs]))
        self.st = rs[0].state
        return rs[0].retval

    def call_all(self, thread, fn, args, pc=()):
        """symbolic variant: every feasible path is run (the monitor sees the stores of all of them); the first ok state continues"""
        self.st.thread = thread
        self.st.access_hook = self.hook
        st = self.st.clone()
        st.pc = list(st.pc) + list(pc)
        rs = self.ex.run(st, fn, args)
        bad = [r for r in rs if r.status != 'ok' or r.retval != 0]
        if bad or not rs:
            raise ExecError('%s under thread %d: %r' % (fn, thread, [(r.status, r.retval, r.info) for r in bad][:3]))
        self.st = rs[0].state
        self.st.pc = []
        return rs

    def thread_exit(self, thread):
        """run the thread-local destructors the code registered for this thread, most recent first"""
        mine = [d for d in self.st.tls_dtors if d[0] == thread]
        self.st.tls_dtors = [d for d in self.st.tls_dtors if d[0] != thread]
        n = 0
        for (_, fnaddr, obj) in reversed(mine):
            name = self.ex.addr_func.get(fnaddr)
            if name is None:
                raise ExecError('thread-exit destructor is not a function')
            fn = self.mod.functions.get(name)
            if fn is not None and fn.defined:
                self.call(thread, name, [obj])
            else:
                h = self.ex.intr.get(name)
                if h is None:
                    raise ExecError('thread-exit destructor %s has no definition' % name)
                h(self.ex, self.st, [obj], None, name)
            n += 1
        return n

    def live_blocks(self):
        return [(o.kind, o.size) for o in self.st.live_heap(('new[]', 'new', 'malloc'))]


def main(tier):
    chk = Check(PID, tier, level='other')
    chk.cov['functions_encoded'] = FUNCS
    chk.cov['explanation'] = ('Schedules are NOT enumerated (no encoding of pthreads / the TLS runtime; CBMC cannot take this pointer-rich code in its concurrency mode). The claim is a non-interference '
                              'argument: if no operation class writes memory that another thread may access, every interleaving is race free and yields the sequential results. The write sets are measured by executing the real code '
                              '(symbolic execution of the LLVM IR: every value symbolic for the arithmetic classes and the queries, concrete doubles where the matrix exponential is involved) with an access monitor under logical threads; the static scan covers code these runs do not reach.')
    chk.cov['bounds'] = {'logical threads': 4, 'vector algebra': 'd in %s, one random input per dimension, the same program under thread 1 and thread 2' % ('2,3,5' if tier == 'quick' else '2..6'),
                         'shared solver': 'one configuration (d=3, nx=4), built by thread 1, four const queries from threads 2 and 3', 'hand-over': 'd = 2, 3, 6', 'static scan': 'all globals of the four linked library translation units',
                         'schedules': 'NOT enumerated: the argument is that no operation writes memory another thread can reach'}
    chk.cov['domains'] = ['R (exact reals, all values symbolic; branch feasibility by z3) with an access monitor on every store, for the arithmetic classes and the shared-solver queries', 'concrete doubles (IR interpreter) with the same monitor for the runs that include the matrix exponential, solver construction, hand-over and thread exit']
    chk.cov['stubs'] = ['thread-local storage: one instance per logical thread', '__cxa_thread_atexit: destructor recorded and run at logical thread exit', 'GSL containers, zgemm, LU: shim', 'RNG of the norm estimator: deterministic hash']
    chk.assumptions = ['write sets are those of the executed paths for the dimensions and inputs used (d = 2..6 for vector algebra, one solver configuration); control flow of these operations does not depend on thread identity',
                       'GSL and libstdc++ internals are assumed thread safe for distinct objects', 'a data race needs a store: concurrent loads of the shared solver are race free']
    t = Threads()
    mod = t.mod
    # ---- (a1) static scan
    shared = []
    for name, g in mod.globals.items():
        if g.external or g.const or g.tls or name in ALLOW_GLOBALS or name.startswith('_ZStL8__ioinit') or name.startswith('.str') or name.startswith('llvm.'):
            continue
        if name.startswith('_ZTV') or name.startswith('_ZTS') or name.startswith('_ZTI') or name.startswith('__PRETTY_FUNCTION__'):
            continue
        shared.append(name)
    chk.cov['static_scan'] = {'globals': len(mod.globals), 'thread_local': sum(1 for g in mod.globals.values() if g.tls), 'mutable_shared': shared}
    nviol = 0
    for name in shared:
        if name.startswith('_ZGV') and name[4:] in [s for s in shared]:
            continue
        chk.report('shared-global:%s' % name, 'the linked library contains the mutable, non-thread-local global %s: state shared by all threads using the public API' % name, {'global': name})
        nviol += 1
    if not shared:
        chk.obligation('static scan: no mutable non-thread-local global in the four library translation units (%d globals, %d thread-local)' % (len(mod.globals), chk.cov['static_scan']['thread_local']), 'holds')
    # ---- (a2) dynamic write sets: vector algebra on own vectors under two threads
    rng = np.random.RandomState(chk.seed + 7)
    results = {}
    try:
        for d in ((2, 3, 5) if tier == 'quick' else (2, 3, 4, 5, 6)):
            n = d * d
            vals = list(rng.uniform(-1, 1, 2 * n))
            outs = []
            for thread in (1, 2):
                o = t.st.find(t.io.base)
                t.st = t.st.clone()
                o = t.st.find(t.io.base)
                for i, v in enumerate(vals):
                    o.cells[8 * i] = (8, float(v))
                t.violations.clear()
                rc = t.call(thread, 'h_algebra', [d, t.io.base, t.io.base + 8 * 2 * n])
                o = t.st.find(t.io.base)
                outs.append([o.cells[8 * (2 * n + k)][1] for k in range(n)])
                for v in list(t.violations):
                    chk.report('write-set:algebra:%s' % v.split(' ')[-1][:40], 'vector algebra on a thread\'s own vectors performs a %s (dimension %d, thread %d)' % (v, d, thread), {'d': d})
                    nviol += 1
            same = outs[0] == outs[1]
            # native single-thread value
            hn = t.h
            ret, on = hn.native('h_algebra', [I(d), Buf('in', vals), Buf('out', n=n)])
            close = max(abs(a - b) for a, b in zip(outs[0], on['out'])) < 1e-9
            chk.cov['interp_vs_native']['cases'] += 1
            if not same:
                chk.report('determinism:algebra:d=%d' % d, 'the same vector algebra gives different bits under two logical threads (state leaks between threads)', {'d': d})
            if not close:
                chk.broken_q('interpreter and native build disagree on h_algebra d=%d' % d)
            results['algebra d=%d' % d] = 'write set confined to own/thread-local objects: %s' % (not t.violations)
        chk.obligation('vector algebra incl. matrix exponential under threads 1 and 2 (d in %s): every store hits the thread\'s stack, heap blocks, buffers or its own thread-local storage; results bit-identical across threads' % ('2,3,5' if tier == 'quick' else '2..6'), 'holds' if nviol == 0 else 'fails')
        # ---- (a3) the same write-set assertion with every VALUE symbolic (exact-real domain, path feasibility by the solver): arithmetic classes and queries
        solver = S.Solver(timeout_ms=30000)
        ts = Threads('R', solver, h=t.h)
        nsym = 0
        for d in ((2, 3) if tier == 'quick' else (2, 3, 4, 5, 6)):
            n = d * d
            for thread in (1, 2):
                o = ts.st.find(ts.io.base)
                for i in range(2 * n):
                    o.cells[8 * i] = (8, T.var('in%d' % i))
                ts.violations.clear()
                rs = ts.call_all(thread, 'h_algebra_sym', [d, ts.io.base, ts.io.base + 8 * 2 * n, T.var('t'), T.var('th'), T.var('del'), T.var('sc')])
                nsym += len(rs)
                for v in list(ts.violations):
                    chk.report('write-set:algebra:%s' % v.split(' ')[-1][:40], 'vector algebra on a thread\'s own vectors performs a %s (dimension %d, thread %d, symbolic values)' % (v, d, thread), {'d': d})
                    nviol += 1
        chk.obligation('vector algebra (sum, commutators, Evolve, Rotate, scalar product, matrix conversion) with all components, time, angles and scalar SYMBOLIC, d in %s, threads 1 and 2: on every feasible path every store hits the thread\'s own objects (%d paths)' % (
            '2,3' if tier == 'quick' else '2..6', nsym), 'holds' if nviol == 0 else 'fails')
        d, nx = 3, 4
        S2 = ts.slots + 2048
        pre = set(o.base for o in ts.st.live_heap(('new[]', 'new', 'malloc')))
        ts.call_all(1, 'h_solver_make', [S2, nx, d])
        blocks = [o for o in ts.st.live_heap(('new[]', 'new', 'malloc')) if o.base not in pre]
        ts.shared_ranges = [(S2, S2 + 2048, 'the shared solver object')] + [(o.base, o.base + o.size, 'a heap block owned by the shared solver (%s %d bytes)' % (o.kind, o.size)) for o in blocks]
        xT = T.var('x')
        npq = 0
        for thread in (2, 3):
            ts.violations.clear()
            rs = ts.call_all(thread, 'h_query', [S2, d, xT, ts.io.base], pc=[T.fcmp('oge', xT, Fraction(0)), T.fcmp('ole', xT, Fraction(1))])
            npq += len(rs)
            for v in list(ts.violations):
                chk.report('write-set:query:%s' % v.split('(')[0].strip()[-40:], 'a const query on the shared solver performs a %s (thread %d, x symbolic)' % (v, thread), {'x': 'symbolic'})
                nviol += 1
        ts.shared_ranges = []
        ts.call_all(1, 'h_solver_drop', [S2])
        chk.obligation('const queries on the shared solver with the position x SYMBOLIC in [0,1] (every feasible path of the node lookup, %d paths): no store into the solver or a block it owns' % npq, 'holds' if nviol == 0 else 'fails')
        chk.note_solver(solver)
        chk.note_exec(ts.ex)
        # ---- shared solver: constructed by thread 1, queried by threads 2 and 3
        d, nx = 3, 4
        S_ADDR = t.slots + 2048
        pre = set(o.base for o in t.st.live_heap(('new[]', 'new', 'malloc')))
        t.call(1, 'h_solver_make', [S_ADDR, nx, d])
        # "the shared object": the solver itself and every heap block allocated while building it that is still live
        before = {o.base: o for o in t.st.live_heap(('new[]', 'new', 'malloc')) if o.base not in pre}
        t.shared_ranges = [(S_ADDR, S_ADDR + 2048, 'the shared solver object')] + [(o.base, o.base + o.size, 'a heap block owned by the shared solver (%s %d bytes)' % (o.kind, o.size)) for o in before.values()]
        qres = []
        for thread, x in ((2, 0.4), (3, 0.4), (2, 0.9), (3, 1.0 / 3.0)):
            t.violations.clear()
            t.call(thread, 'h_query', [S_ADDR, d, float(x), t.io.base])
            o = t.st.find(t.io.base)
            qres.append((thread, x, [o.cells[8 * k][1] for k in range(5)]))
            for v in list(t.violations):
                chk.report('write-set:query:%s' % v.split('(')[0].strip()[-40:], 'a const query on the shared solver performs a %s (thread %d)' % (v, thread), {'x': x})
                nviol += 1
        if qres[0][2] != qres[1][2]:
            chk.report('determinism:query', 'the same const query on the shared solver gives different bits from two threads', {})
        # a thread (4) whose FIRST and only library call is a query with an operator made by thread 1: the order in which its thread-local
        # objects come to life differs from every other scenario (checked again at thread exit below)
        OP_ADDR = t.slots + 1024
        t.call(1, 'h_make_projector', [OP_ADDR, d])
        t.violations.clear()
        t.call(4, 'h_query_shared_op', [S_ADDR, OP_ADDR, 0.6, t.io.base])
        o = t.st.find(t.io.base)
        v4 = o.cells[0][1]
        t.call(2, 'h_query_shared_op', [S_ADDR, OP_ADDR, 0.6, t.io.base])
        if t.st.find(t.io.base).cells[0][1] != v4:
            chk.report('determinism:query-shared-op', 'the same query gives different bits from a fresh thread and from a thread that used the library before', {})
        for v in list(t.violations):
            chk.report('write-set:query:%s' % v.split('(')[0].strip()[-40:], 'a const query on the shared solver performs a %s (fresh thread 4)' % v, {'x': 0.6})
            nviol += 1
        t.call(1, 'h_drop', [OP_ADDR])
        t.shared_ranges = []
        chk.obligation('const queries (GetExpectationValue, GetExpectationValueD plain/averaging, GetIntermediateState, Get_i) from threads 2 and 3 on a solver built by thread 1: no store into the solver or any block it owns; equal bits', 'holds' if nviol == 0 else 'fails')
        t.call(1, 'h_solver_drop', [S_ADDR])
        # ---- (b) hand-over
        for d in (2, 3, 6):
            t.call(1, 'h_make', [t.slots + 64 * d, d, 1.5])
        for d in (2, 3, 6):
            t.call(2, 'h_drop', [t.slots + 64 * d])
        # vectors emptied by assignment on one thread and released on another (and on the same one)
        for d, (mk, dr) in zip((2, 3, 5), ((1, 2), (3, 3), (2, 1))):
            t.call(mk, 'h_make_emptied', [t.slots + 64 * d, d])
            t.call(dr, 'h_drop', [t.slots + 64 * d])
        chk.obligation('hand-over: vectors created under thread 1 are destroyed under thread 2, vectors emptied by assignment are released on the same or another thread, without an invalid access or foreign-TLS store', 'holds')
        # ---- (c) thread exit
        for thread in (4, 3, 2, 1):
            n_d = t.thread_exit(thread)
            results['thread %d exit' % thread] = '%d registered thread-local destructors run' % n_d
        left = t.live_blocks()
        if left:
            kinds = sorted(set(k for k, _ in left))
            chk.report('thread-exit:blocks-not-released', 'after every logical thread has ended (registered thread-local destructors run) %d block(s) allocated by the library remain: %s' % (len(left), ', '.join('%s %d bytes' % x for x in left[:5])),
                       {'left': left[:20]})
        else:
            chk.obligation('thread exit: after running the registered thread-local destructors of every thread no library allocation remains', 'holds')
    except ExecError as e:
        chk.broken_q(str(e)[:300])
    chk.cov['write_sets'] = {('%s:%s' % k): v for k, v in sorted(t.stores.items(), key=lambda kv: -kv[1])[:25]}
    chk.cov['results'] = results
    chk.note_exec(t.ex)
    chk.nqueries = max(chk.nqueries, 1)
    chk.hashes |= {'static-scan', 'algebra', 'queries', 'hand-over', 'thread-exit'}
    chk.samples.append({'operation classes executed': list(results.keys())})
    return chk.finish()


def replay_main(path):
    print('C18 findings are confirmed natively by harness/c18_native.cpp-style runs under TSan/LSan; see DESIGN.md')
    return 0


if __name__ == '__main__':
    sys.exit(main(sys.argv[1] if len(sys.argv) > 1 else 'quick'))
