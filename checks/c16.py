"""C16 -- an allocation failure at any allocation point leaves every vector valid and memory uncorrupted."""
import hashlib, sys, time, os, json, hashlib
from fractions import Fraction
from multiprocessing import Pool as MPool
from common import *
from pool import *
from vmodel import Model, Throw
import c08
from irsym import solver as S

PID = 'C16'
NSLOTS = 5
FUNCS = ['SU_vector(const SU_vector&)', 'SU_vector(unsigned)', 'make_aligned', 'operator=(const SU_vector&)', 'operator=(SU_vector&&)', 'assignProxy (resize / temporary paths)', 'SU_vector(proxy&&)',
         'EvaluationProxy::operator SU_vector', 'Projector/Identity/PosProjector/NegProjector/Generator', 'Rotate(i,j,th,del)', 'Real/Imag', 'GetComponents', 'SU_vector(const gsl_matrix_complex*)',
         'Rotate(const gsl_matrix_complex*)', 'alloc_aligned / deallocate_mem / cache', 'operator new[] (failure injected at the j-th call)']


def catalogue(dA, dB):
    c = T.var('c')
    ops = [Ins('COPYCON', t=3, s1=0), Ins('COPYCON', t=3, s1=1), Ins('SIZED', t=3, x=dB), Ins('ALIGNED', t=3, x=dA, y=1),
           Ins('FACTORY', t=3, x=(0 << 16) | dA, y=1), Ins('FACTORY', t=3, x=(4 << 16) | dB, y=2), Ins('FACTORY', t=3, x=(2 << 16) | dB, y=1),
           Ins('COPYASSIGN', t=0, s1=1), Ins('COPYASSIGN', t=1, s1=0), Ins('COPYASSIGN', t=0, s1=2), Ins('MOVEASSIGN', t=0, s1=1),
           Ins('EXPR', t=0, s1=1, s2=1, x=0), Ins('EXPR', t=0, s1=1, s2=1, x=10, c=c), Ins('EXPR', t=0, s1=1, s2=1, x=12), Ins('EXPR', t=0, s1=1, s2=1, x=13),
           Ins('EXPR', t=0, s1=0, s2=2, x=12), Ins('EXPR', t=2, s1=2, s2=2, x=13), Ins('EXPR', t=0, s1=0, s2=2, x=32 + 12), Ins('EXPR', t=1, s1=1, s2=1, x=14, c=c),
           Ins('EXPR', t=3, s1=1, s2=1, x=96 + 0), Ins('EXPR', t=3, s1=2, s2=2, x=96 + 12), Ins('EXPR', t=3, s1=2, s2=2, x=96 + 6), Ins('EXPR', t=3, s1=1, s2=1, x=96 + 14, c=c),
           Ins('EXPR', t=3, s1=1, s2=2, x=96 + 1), Ins('EXPR', t=0, s1=1, s2=1, x=1),
           Ins('ROTATE', t=0, s1=1, x=0, y=1, c=c), Ins('UNARYVIEW', t=0, s1=1, x=1), Ins('UNARYVIEW', t=0, s1=1, x=2), Ins('COMPONENTS', t=1, ext=2),
           Ins('CONVERT', t=3, s1=2, s2=2, x=0), Ins('CONVERT', t=0, s1=2, s2=2, x=1), Ins('CONVERT', t=0, s1=2, s2=2, x=2), Ins('CONVERT', t=0, s1=2, s2=2, x=3, c=c),
           Ins('CONVERT', t=0, s1=2, s2=2, x=4), Ins('CONVERT', t=3, s1=2, s2=2, x=5),
           Ins('FROMMATRIX', t=3, x=dA, y=dA, ext=2), Ins('ROTMAT', t=0, s1=1, x=dB if True else dA)]
    return ops


def work(item):
    k0, k1, dA, dB, tier = item
    solver = S.Solver(timeout_ms=30000)
    out = new_out(item=list(item[:4]))
    pool = Pool(nslots=NSLOTS, nbufs=3, solver=solver)
    ctx = PolyCtx()
    st = pool.initial()
    model = Model(NSLOTS, pool.buf_init)
    pre = c08.prestate_program(k0, k1, dA, dB)
    for ins in pre:
        model.apply(ins)
        rs = pool.step(st, ins)
        if len(rs) != 1 or rs[0].status != 'ok' or rs[0].retval != 0:
            out['broken'].append('pre-state %s/%s' % (k0, k1))
            out.update(worker_result(solver, [pool.ex.stats], functions=FUNCS))
            return out
        st = rs[0].state
    nfault = 0
    nops = 0
    for ins in catalogue(dA, dB):
        if ins.op == OPS['CONVERT']:
            if (ins.constructs() and model.slots[ins.t] is not None) or (not ins.constructs() and (model.slots[ins.t] is None or model.slots[ins.t]['bind'] != 'own')):
                continue
        elif not c08.legal(model, ins) and ins.op not in (OPS['ROTATE'], OPS['UNARYVIEW'], OPS['COMPONENTS'], OPS['FROMMATRIX'], OPS['ROTMAT'], OPS['FACTORY'], OPS['ALIGNED'], OPS['SIZED']):
            continue
        if ins.op in (OPS['ROTATE'], OPS['UNARYVIEW'], OPS['ROTMAT']) and (model.slots[ins.s1]['dim'] < 2 or model.slots[ins.t] is None or model.slots[ins.t]['bind'] != 'own'):
            continue
        if ins.op == OPS['COMPONENTS'] and model.slots[ins.t]['dim'] < 2:
            continue
        if ins.op == OPS['ROTMAT'] and model.slots[ins.s1]['dim'] != ins.x:
            ins = Ins('ROTMAT', t=ins.t, s1=ins.s1, x=model.slots[ins.s1]['dim'])
        # fault-free run: how many allocations does this operation perform?
        base = st.nalloc
        rs = pool.step(st, ins)
        if len(rs) != 1 or rs[0].status != 'ok':
            continue      # not this property's business (C08/C15 report it)
        nall = rs[0].state.nalloc - base
        nops += 1
        for j in range(1, nall + 1):
            s = st.clone()
            s.fail_alloc = base + j
            nfault += 1
            key = 'fault:%s:%s/%s:j=%d' % (ins.describe().split('  [')[0], k0, k1, j)

            def cand(what, follow=()):
                prog = pre + [ins] + list(follow)
                out['candidates'].append({'key': 'fault:' + hashlib.sha1((ins.describe().split('  [')[0] + '|' + what.split(':')[0]).encode()).hexdigest()[:10], 'what': 'pre-state %s/%s (dims %d,%d): %s with allocation #%d of %d failing: %s' % (
                    k0, k1, dA, dB, ins.describe(), j, nall, what), 'lines': [i.line() for i in prog], 'fail_step': len(pre), 'fail_j': j, 'program': [i.tojson() for i in prog]})
            bad = False
            for r in pool.step(s, ins):
                if r.status != 'ok':
                    cand('%s: %s' % (r.info.get('kind'), r.info.get('msg')))
                    bad = True
                    continue
                if r.retval != 2:
                    cand('the failure does not propagate as std::bad_alloc (operation returned %r)' % r.retval)
                    bad = True
                    continue
                # every pre-existing vector other than the target keeps its value
                probs = []
                m2 = model.clone()
                tgt = ins.t if not ins.constructs() else None
                if tgt is not None:
                    m2.slots[tgt] = dict(m2.slots[tgt], unspec=True, origin='own')
                    if model.slots[tgt]['bind'] != 'own':
                        m2.dirty.add(model.slots[tgt]['bind'][1])
                c08.check_state(pool, r.state, m2, ctx, 'after the failed operation', probs)
                if probs:
                    cand(probs[0])
                    bad = True
                    continue
                live = [k for k, x in enumerate(model.slots) if x is not None]
                # (a) destroy everything
                ok, info = pool.quiesce(r.state, live, leaks='new')
                if not ok:
                    cand('then destroying all vectors and draining the cache: %s' % info)
                    bad = True
                    continue
                # (b) the target can be reassigned
                if tgt is not None and model.slots[tgt]['bind'] == 'own':
                    for r2 in pool.step(r.state, Ins('COPYASSIGN', t=tgt, s1=2)):
                        if r2.status != 'ok' or r2.retval != 0:
                            cand('then reassigning the target: %s %r' % (r2.status, r2.info or r2.retval), [Ins('COPYASSIGN', t=tgt, s1=2)])
                            bad = True
                            continue
                        m3 = m2.clone()
                        m3.slots[tgt] = dict(bind='own', dim=model.slots[2]['dim'], vals=list(model.slots[2]['vals']))
                        probs = []
                        c08.check_state(pool, r2.state, m3, ctx, 'after reassigning the target', probs)
                        if probs:
                            cand('then reassigning the target: ' + probs[0], [Ins('COPYASSIGN', t=tgt, s1=2)])
                            bad = True
                            continue
                        ok, info = pool.quiesce(r2.state, live, leaks='new')
                        if not ok:
                            cand('then reassigning the target, destroying all vectors and draining the cache: %s' % info, [Ins('COPYASSIGN', t=tgt, s1=2)])
                            bad = True
            if bad:
                break
    out['obligations'].append({'obligation': 'pre-state %s/%s dims (%d,%d): %d operations, %d (operation, failing allocation) pairs: bad_alloc propagates, other vectors intact, target destructible and re-assignable, ledger balanced' % (
        k0, k1, dA, dB, nops, nfault), 'verdict': 'holds' if not out['candidates'] else '%d fail' % len(out['candidates'])})
    out['witnesses']['reachability'] += nfault
    out['nfault'] = nfault
    out.update(worker_result(solver, [pool.ex.stats], functions=FUNCS))
    return out


def replay(chk, c):
    """native: the driver cannot inject allocation failures through the library's operator new[] without a hook, so the replay uses an
    LD_PRELOAD-free variant: the pool driver is rebuilt with a counting operator new[] that throws at the requested call (POOL_FAIL env)."""
    chk.cov['replayed'] += 1
    prog = []
    for ln in c['lines']:
        w = ln.split(' = ')[0].split()
        prog.append(Ins(int(w[0]), int(w[1]), int(w[2]), int(w[3]), int(w[4]), int(w[5]), float(w[6]), int(w[7])))
    os.environ['POOL_FAIL_STEP'] = str(c['fail_step'])
    os.environ['POOL_FAIL_J'] = str(c['fail_j'])
    try:
        res = native_replay(prog, nslots=NSLOTS, nbufs=3)
    finally:
        os.environ.pop('POOL_FAIL_STEP', None)
        os.environ.pop('POOL_FAIL_J', None)
    c['native'] = {'exit': res['exit'], 'report': (res['report'] or '')[:800], 'rcs': [s_['rc'] for s_ in res['steps']]}
    if res['report']:
        return True, 'sanitizer/ledger: ' + [l for l in res['report'].split('\n') if l.strip()][0][:200]
    if res.get('invariant'):
        return True, 'native object representation: ' + res['invariant']
    st = res['steps']
    if len(st) > c['fail_step'] and st[c['fail_step']]['rc'] != 2:
        return True, 'failure did not propagate as bad_alloc (rc %d)' % st[c['fail_step']]['rc']
    if len(st) > c['fail_step'] + 1 and st[c['fail_step'] + 1]['rc'] != 0:
        return True, 'reassignment after the failure failed (rc %d)' % st[c['fail_step'] + 1]['rc']
    return False, 'native run clean'


def main(tier):
    chk = Check(PID, tier, level='fault_enumeration' if False else 'model_checking')
    chk.candidates = []
    pairs = [(2, 3)] if tier == 'quick' else [(2, 3), (3, 2), (4, 5), (6, 3)]
    kinds = c08.KINDS
    items = [(k0, k1, dA, dB, tier) for (dA, dB) in pairs for k0 in kinds for k1 in kinds]
    chk.cov['bounds'] = {'operations': 'catalogue of %d allocating public operations' % len(catalogue(2, 3)), 'pre-states': '25 (two operands in {empty, self-owned, external} x two dimensions, self-owned observer)',
                         'dimensions': pairs, 'faults': 'for each operation every j up to the number of allocations it performs (discovered by a fault-free symbolic run); exactly one failure per run'}
    chk.cov['exhaustive'] = True
    chk.cov['domains'] = ['heap/object model with failure injection in operator new[] / operator new']
    chk.cov['stubs'] = ['operator new[]/new: the j-th call throws std::bad_alloc', 'malloc (GSL shim) never fails']
    chk.assumptions = ['GSL (malloc) allocation failure is outside the property (it speaks of std::bad_alloc)', 'one failure per operation',
                       'where the source has undefined behaviour the clang IR may define it (measured: delete[] (nullptr - offset) is skipped by clang, executed by g++): a native g++/ASan battery over the catalogue x every failing allocation index from two pre-states covers that gap and is reported as such']
    Pool(nslots=NSLOTS)
    pool_interp_vs_native(chk, sample_programs() if tier == 'thorough' else sample_programs()[:6], nslots=NSLOTS)
    with MPool(min(16, os.cpu_count() or 1)) as mp:
        results = mp.map(work, items, chunksize=1)
    nf = 0
    for w in results:
        chk.merge_worker(w)
        nf += w.get('nfault', 0)
    chk.cov['fault_points'] = nf
    # ---- native battery (NOT solver-decided, labelled as such): the g++/ASan build of the same histories with every allocation index failing in turn,
    # objects built in 0xA5-filled storage.  It exists because the compiled code may differ from the clang IR exactly where the source has
    # undefined behaviour (e.g. arithmetic on a null pointer, reads of indeterminate members on an error path).
    nb = 0
    nat_seen = set()
    for (dA, dB) in pairs[:1] + ([(3, 2)] if tier != 'quick' else [(3, 2)]):
        for kk in (('ownA', 'ownB'), ('extA', 'ownB')):      # operands non-empty: arithmetic on empty vectors is outside the claim (C15 assumptions)
            pre = c08.prestate_program(kk[0], kk[1], dA, dB)
            for ins in catalogue(dA, dB):
                ins_n = Ins(ins.op, ins.t, ins.s1, ins.s2, ins.x, ins.y, 0.75 if isinstance(ins.c, Term) else ins.c, ins.ext)
                for j in (1, 2, 3):
                    os.environ['POOL_FAIL_STEP'] = str(len(pre))
                    os.environ['POOL_FAIL_J'] = str(j)
                    try:
                        res = native_replay(pre + [ins_n], nslots=NSLOTS, nbufs=3, tag='c16bat')
                    except Exception as e:
                        res = {'report': 'native driver failed: %s' % str(e)[:100], 'steps': [], 'exit': -1}
                    finally:
                        os.environ.pop('POOL_FAIL_STEP', None)
                        os.environ.pop('POOL_FAIL_J', None)
                    st_ = res['steps']
                    if len(st_) <= len(pre) and not res['report']:
                        break
                    if res['report'] is None and (len(st_) <= len(pre) or st_[len(pre)]['rc'] != 2):
                        break          # fewer than j allocations (or the operation is illegal in this pre-state): no fault was injected
                    nb += 1
                    if not res['report'] and res.get('invariant'):
                        res['report'] = 'object representation: ' + res['invariant']
                    if res['report']:
                        first = [l for l in res['report'].split('\n') if l.strip()][0][:160]
                        sig = ins_n.describe().split('  [')[0].split(' t=')[0] + '|' + first.split(' on address')[0][:60]
                        if sig not in nat_seen:
                            nat_seen.add(sig)
                            chk.report('native-battery:' + hashlib.sha1(sig.encode()).hexdigest()[:10],
                                       'pre-state %s/%s (dims %d,%d): %s with allocation #%d failing, g++/ASan build, objects in 0xA5-filled storage: %s [found by the native battery, not by the solver]' % (
                                           kk[0], kk[1], dA, dB, ins_n.describe(), j, first),
                                       {'lines': [i.line() for i in pre + [ins_n]], 'fail_step': len(pre), 'fail_j': j, 'native': res['report'][:600]})
    chk.cov['native_battery_runs'] = nb
    chk.cov['interp_vs_native']['cases'] += nb
    seen = set()
    for c in chk.candidates:
        if c['key'] in seen:
            continue
        seen.add(c['key'])
        ok, info = replay(chk, c)
        if ok:
            chk.report(c['key'], '%s; native: %s' % (c['what'], info), c)
        else:
            chk.broken_q('counterexample %s did not reproduce natively (%s): %s' % (c['key'], info, c['what'][:300]))
    return chk.finish()


def replay_main(path):
    c = json.load(open(path))['replay']
    chk = Check(PID, 'quick')
    ok, info = replay(chk, c)
    print('replay %s: %s (%s)' % (path, 'REPRODUCED' if ok else 'not reproduced', info))
    return 1 if ok else 0


if __name__ == '__main__':
    sys.exit(main(sys.argv[1] if len(sys.argv) > 1 else 'quick'))
