"""Environment stub for GSL's odeiv2 driver (compiled library, no IR): nondeterministic but contract-respecting.

apply(d,&t,t1,y): makes the scripted callbacks sys.function(tau_k, in_k, out_k, sys.params) with tau_k fresh symbolic times,
in_k chosen from {y, scratch1, scratch2} (the real adaptive driver may start a later apply at a scratch buffer: scripts cover both), out_k from
{deriv1, deriv2}; then overwrites y with fresh symbolic values, sets *t=t1 and returns the scripted status.
Every callback is recorded in st.log as ('rhs', call#, k, tau, in_addr, out_addr, in_values, out_values, store_violations)."""
from fractions import Fraction
from irsym import llparse as L, term as T
from irsym.term import Term
from irsym.exec import ExecError, PathError

SYS_FN, SYS_JAC, SYS_DIM, SYS_PARAMS = 0, 8, 16, 24


class GslStub:
    def __init__(self, ex, scripts):
        """scripts: list (one per apply/apply_fixed_step call, in order) of dict(cb=[(in_idx,out_idx),...], status=0)"""
        self.ex = ex
        self.scripts = scripts
        for n in ('gsl_odeiv2_driver_alloc_y_new', 'gsl_odeiv2_driver_set_hmin', 'gsl_odeiv2_driver_set_hmax', 'gsl_odeiv2_driver_set_nmax',
                  'gsl_odeiv2_driver_apply', 'gsl_odeiv2_driver_apply_fixed_step', 'gsl_odeiv2_driver_free'):
            ex.summaries[n] = getattr(self, n[len('gsl_odeiv2_driver_'):])

    def alloc_y_new(self, ex, st, args, ins):
        sysp = args[0]
        dim = ex.load(st, sysp + SYS_DIM, L.I64)
        drv = st.heap_alloc(64, 'malloc')
        ex.store(st, drv.base, L.I64, sysp)
        k = getattr(st, 'gsl_drivers', 0)
        st.gsl_drivers = k + 1
        for j in range(4):
            b = st.heap_alloc(8 * dim, 'malloc')
            if j < 2:
                for i in range(dim):
                    b.cells[8 * i] = (8, T.var('scr%d_%d_%d' % (k, j, i)))
            ex.store(st, drv.base + 8 + 8 * j, L.I64, b.base)
        st.log.append(('gsl_alloc', drv.base, dim, args[2], args[3], args[4], args[1]))     # hstart, epsabs, epsrel, step type
        return drv.base

    def set_hmin(self, ex, st, args, ins):
        st.log.append(('gsl_set', 'hmin', args[0], args[1]))
        return 0

    def set_hmax(self, ex, st, args, ins):
        st.log.append(('gsl_set', 'hmax', args[0], args[1]))
        return 0

    def set_nmax(self, ex, st, args, ins):
        st.log.append(('gsl_set', 'nmax', args[0], args[1]))
        return 0

    def free(self, ex, st, args, ins):
        drv = args[0]
        for j in range(4):
            b = ex.load(st, drv + 8 + 8 * j, L.I64)
            o = st.find(b)
            o.live = False
            o.cells = {}
            st.ledger.append(('free', 'malloc', b, o.size))
        o = st.find(drv)
        o.live = False
        st.ledger.append(('free', 'malloc', drv, o.size))
        st.log.append(('gsl_free', drv))
        return None

    def _callbacks(self, ex, st, drv, y):
        call = getattr(st, 'gsl_calls', 0)
        st.gsl_calls = call + 1
        if call >= len(self.scripts):
            raise ExecError('GSL stub: no script for integration call #%d' % call)
        script = self.scripts[call]
        sysp = ex.load(st, drv, L.I64)
        fnp = ex.load(st, sysp + SYS_FN, L.I64)
        params = ex.load(st, sysp + SYS_PARAMS, L.I64)
        dim = ex.load(st, sysp + SYS_DIM, L.I64)
        fname = ex.addr_func.get(fnp)
        if fname is None:
            raise PathError('invalid-access', 'ODE system function pointer is not a function')
        bufs_in = [y, ex.load(st, drv + 8, L.I64), ex.load(st, drv + 16, L.I64)]
        bufs_out = [ex.load(st, drv + 24, L.I64), ex.load(st, drv + 32, L.I64)]
        for k, (ii, oi) in enumerate(script['cb']):
            tau = T.var('tau_%d_%d' % (call, k))
            inb, outb = bufs_in[ii], bufs_out[oi]
            inv = [ex.load(st, inb + 8 * i, L.DOUBLE) for i in range(dim)]
            # clear the output buffer so that "every entry written" is observable
            oo = st.find(outb)
            for i in range(dim):
                oo.cells.pop(outb - oo.base + 8 * i, None)
            viol = []
            allowed = (outb, outb + 8 * dim)
            gsl_objs = [(b, b + 8 * dim) for b in bufs_in + bufs_out]

            def hook(st_, kind, addr, n, obj, viol=viol, allowed=allowed, gsl_objs=gsl_objs):
                if kind == 'store':
                    for lo, hi in gsl_objs:
                        if lo <= addr < hi and not (allowed[0] <= addr < allowed[1]):
                            viol.append((addr - lo, n))
            old = st.access_hook
            st.access_hook = hook
            st.log.append(('rhs-begin', call, k, tau))
            rc = ex.call_nested(st, fname, [tau, inb, outb, params])
            st.access_hook = old
            outv = []
            for i in range(dim):
                c = oo.cells.get(outb - oo.base + 8 * i)
                outv.append(None if c is None else c[1])
            st.log.append(('rhs', call, k, tau, inb, outb, inv, outv, list(viol), params, rc))
        for i in range(dim):
            ex.store(st, y + 8 * i, L.DOUBLE, T.var('y%d_%d' % (call, i)))
        return script.get('status', 0)

    def apply(self, ex, st, args, ins):
        drv, tptr, t1, y = args
        status = self._callbacks(ex, st, drv, y)
        ex.store(st, tptr, L.DOUBLE, t1)
        st.log.append(('gsl_apply', t1))
        return T.mask(status, 32)

    def apply_fixed_step(self, ex, st, args, ins):
        drv, tptr, h, n, y = args
        t0 = ex.load(st, tptr, L.DOUBLE)
        status = self._callbacks(ex, st, drv, y)
        ex.store(st, tptr, L.DOUBLE, T.fadd(t0, T.fmul(T.itofp(n, 64, False), h)))
        st.log.append(('gsl_apply_fixed', h, n))
        return T.mask(status, 32)
