"""C10 -- clock and stored state depend only on elapsed time, not on the call history (bookkeeping clauses, under the GSL stub)."""
import sys, time, os, json, itertools, random
from fractions import Fraction
from multiprocessing import Pool as MPool
from common import *
from sysdrv import *
import c04
from irsym import solver as S

PID = 'C10'
FUNCS = ['SQuIDS::Evolve (numerical and no-numerics branches)', 'SQuIDS::ini (re-initialisation)', 'SQuIDS::SQuIDS(SQuIDS&&)', 'SQuIDS::operator=(SQuIDS&&)', 'Set_*Terms / Set_AdaptiveStep / Set_NumSteps',
         'squids::RHS / set_system_pointers (last-pointer cache)', 'SQuIDS::Get_t / Get_t_initial', 'PreDerive dispatch']
OPS_ = ['E', 'E0', 'T1', 'T8', 'T4', 'Toff', 'ST', 'MC', 'MA', 'RI', 'MR']     # T4: switch one term off that may already be off (Set_GammaScalarTerms(false) / Set_OtherRhoTerms(false)): the other switches keep their meaning
#      # MR: move-assign away, then re-initialise and evolve the moved-from object


def histories(tier, seed):
    base = []
    for n in (1, 2, 3):
        for h in itertools.product(OPS_, repeat=n):
            if not any(o in ('E', 'E0') for o in h):
                continue
            if h.count('MC') + h.count('MA') + h.count('MR') > 2 or h.count('RI') > 1:
                continue
            base.append(list(h))
    four = [list(h) + ['E'] for h in itertools.product(OPS_, repeat=3) if sum(o in ('E', 'E0') for o in h) >= 1]
    rng = random.Random(seed + 17)
    rng.shuffle(four)
    rng.shuffle(base)
    # always run: a setter called for a term that is off while another term of the same kind stays on (the numerics-needed bookkeeping must not forget it)
    fixed = [['T8', 'T1', 'T4', 'E'], ['T8', 'T4', 'T1', 'E'], ['T4', 'E', 'T8', 'E']]
    if tier == 'quick':
        return base[:90] + four[:40] + fixed
    return base + four[:600] + fixed


def run_history(out, solver, hist, d, nx, nrho, nsc, reuse):
    ctx = PolyCtx()
    dec = Decider(solver, ctx, out, tol=Fraction(1, 10 ** 12))
    desc = '%s [d=%d nx=%d nrho=%d nscalars=%d%s]' % (' ; '.join(hist), d, nx, nrho, nsc, ', allocator reuses freed blocks' if reuse else '')
    info = dict(kind='history', hist=hist, d=d, nx=nx, nrho=nrho, nsc=nsc)
    key = 'history:' + '-'.join(hist)
    nE = sum(1 for o in hist if o in ('E', 'E0')) + 1
    scripts = [{'cb': [(0, 0), (1, 1), (2, 0)]}, {'cb': [(0, 1), (2, 1)]}, {'cb': [(0, 0), (1, 0), (1, 1)]}, {'cb': [(0, 1)]}, {'cb': [(1, 0), (0, 1)]}, {'cb': [(0, 0), (2, 1)]}] * 3
    s = Session(scripts, solver=solver)
    s.st.reuse_freed = reuse
    cur = 0
    ti = T.var('ti')
    cfg = (nx, d, nrho, nsc)
    def differs(a_, b_, label):
        """solver verdict on a_ != b_ over all values of the symbolic times (identical terms are not sent)"""
        if a_ is b_:
            return False
        conv = S.Conv('real')
        za = conv.conv(a_) if isinstance(a_, Term) else conv.rconst(a_)
        zb = conv.conv(b_) if isinstance(b_, Term) else conv.rconst(b_)
        r = solver.check([], conv=conv, extra=[za != zb], label=label)
        if r == 'unknown':
            out['undecided'].append(label)
        return r != 'unsat'
    try:
        s.ok('h_sys_ctor', [s.obj[0], nx, d, nrho, nsc, ti])
        s.write_state(0, *cfg[:1], cfg[1], cfg[2], cfg[3])
        mask = 1
        s.ok('h_sys_switches', [s.obj[0], mask, 0])
        adaptive = True
        s.ok('h_sys_stepping', [s.obj[0], 1, 5, 0])
        texp = ti
        tini_exp = ti
        ndt = 0
        for step, op in enumerate(hist):
            where = 'step %d (%s) of %s' % (step, op, desc)
            obj = s.obj[cur]
            if op in ('E', 'E0'):
                dt = T.var('dt%d' % ndt) if op == 'E' else Fraction(0)
                ndt += 1
                nx_, d_, nrho_, nsc_ = cfg
                before = s.read_state(cur, nx_, d_, nrho_, nsc_)
                mark = len(s.st.log)
                r = s.call('h_sys_evolve', [obj, dt])
                if r.status != 'ok' or r.retval != 0:
                    dec.candidate(key, 'Evolve ends in %s / %r at %s' % (r.status, r.info or r.retval, where), **info)
                    return s
                log = s.log_since(mark)
                texp = T.fadd(texp, dt)
                tnow = s.ok('h_sys_get_t', [obj])
                if differs(tnow, texp, 'Get_t() = t_ini + sum of the %d segment lengths (all symbolic), %s stepping' % (ndt, 'adaptive' if adaptive else 'fixed')):
                    dec.candidate(key + ':clock', 'Get_t() is %s but t_ini + sum of dt is %s at %s' % (T.show(tnow, 4), T.show(texp, 4), where), **info)
                    return s
                rhs = [e for e in log if e[0] == 'rhs']
                if mask == 0:
                    after = s.read_state(cur, nx_, d_, nrho_, nsc_)
                    pres = [e for e in log if e[0] == 'pre']
                    if rhs or any(a is not b for a, b in zip(before, after)):
                        dec.candidate(key + ':nonumerics', 'with all numerical terms disabled Evolve changed the stored state or integrated, at %s' % where, **info)
                        return s
                    if len(pres) != 1 or pres[0][1] != obj or differs(pres[0][2], texp, 'PreDerive time = t_ini + sum dt with all terms off'):
                        dec.candidate(key + ':prederive', 'with all numerical terms disabled PreDerive is not invoked exactly once with the new time on the evolving object, at %s' % where, **info)
                        return s
                else:
                    if not rhs:
                        dec.candidate(key + ':nointegration', 'numerical terms are enabled but no integration is performed at %s' % where, **info)
                        return s
                    for e in rhs:
                        if e[9] != obj:
                            dec.candidate(key + ':params', 'the ODE callback is bound to another object than the one being evolved (stale callback parameter after a move) at %s' % where, **info)
                            return s
                        if e[2] == 0:
                            # the first callback of an integration reads the stored state
                            if e[4] != s.get_views(cur, nx_, nrho_)[0]['rho'][0][0] and False:
                                pass
                        if any(v is None for v in e[7]):
                            dec.candidate(key + ':unwritten', 'RHS leaves derivative entries unwritten at %s' % where, **info)
                            return s
                        # the derivative must be computed from the buffer handed in by the driver (views re-targeted): every rho entry of the input appears
                        n_ = d_ * d_
                        ss = nrho_ * n_ + nsc_
                        for ei in (range(nx_) if mask & 3 else []):
                            off = ei * ss
                            got = ctx.poly(e[7][off + 1])
                            want_atoms = set()
                            for v in e[6][off:off + n_]:
                                if isinstance(v, Term):
                                    want_atoms |= ctx.poly(v).atoms()
                            if want_atoms and not (got.atoms() & want_atoms):
                                dec.candidate(key + ':stale-view', 'the derivative of node %d is not computed from the state buffer handed to the callback (stale in-step view) at %s' % (ei, where), **info)
                                return s
                # views
                views = s.get_views(cur, nx_, nrho_)
                base_addr = views[0]['rho'][0][0]
                n_ = d_ * d_
                ss = nrho_ * n_ + nsc_
                for ix, row in enumerate(views):
                    for i, (a, b) in enumerate(row['rho']):
                        if a != b or a != base_addr + 8 * (ix * ss + i * n_):
                            dec.candidate(key + ':views', 'after Evolve the view of node %d matrix %d is not the stored state at its documented offset, at %s' % (ix, i, where), **info)
                            return s
                    if nsc_ > 0 and (row['scalar'][0] != row['scalar'][1] or row['scalar'][0] != base_addr + 8 * (ix * ss + nrho_ * n_)):
                        dec.candidate(key + ':views', 'after Evolve the scalar view of node %d is not the stored state at its documented offset, at %s' % (ix, where), **info)
                        return s
                out['witnesses']['reachability'] += 1
            elif op in ('T1', 'T8', 'T4', 'Toff'):
                newmask = {'T1': mask ^ 1, 'T8': (mask ^ 16) if cfg[3] else mask ^ 2, 'T4': (mask & ~8) if cfg[3] else (mask & ~4), 'Toff': 0}[op]
                if op == 'Toff':
                    s.ok('h_sys_switches', [obj, 0, step % 5])
                elif op == 'T4':
                    s.ok('h_sys_switch_one', [obj, 3 if cfg[3] else 2, 0])
                else:
                    # a toggle is ONE setter call (the last one before the next Evolve): Set_CoherentRhoTerms, or Set_OtherScalarTerms / Set_NonCoherentRhoTerms
                    which = 0 if op == 'T1' else (4 if cfg[3] else 1)
                    s.ok('h_sys_switch_one', [obj, which, 1 if (newmask >> which) & 1 else 0])
                mask = newmask
            elif op == 'ST':
                adaptive = not adaptive
                s.ok('h_sys_stepping', [obj, 1 if adaptive else 0, 5, 0])
            elif op == 'MC':
                other = 1 - cur
                s.ok('h_sys_move_construct', [s.obj[other], obj])
                s.ok('h_sys_destroy', [obj])
                cur = other
            elif op == 'MA':
                other = 1 - cur
                s.ok('h_sys_ctor', [s.obj[other], 1, 2, 1, 0, T.var('tj')])
                s.ok('h_sys_move_assign', [s.obj[other], obj])
                s.ok('h_sys_destroy', [obj])
                cur = other
            elif op == 'MR':
                other = 1 - cur
                s.ok('h_sys_ctor', [s.obj[other], 1, 2, 1, 0, T.var('tj')])
                s.ok('h_sys_move_assign', [s.obj[other], obj])
                # the moved-from object gets a problem of its own and is evolved: its callbacks must be bound to it, its clock is its own,
                # and the object that received the move is not touched
                tk, dtk = T.var('tk%d' % step), T.var('dtk%d' % step)
                s.ok('h_sys_ini', [obj, 1, 2, 1, 1, tk])
                s.write_state(cur, 1, 2, 1, 1, prefix='r%d' % step)
                s.ok('h_sys_switches', [obj, 1, 0])
                s.ok('h_sys_stepping', [obj, 1, 5, 0])
                mark = len(s.st.log)
                r = s.call('h_sys_evolve', [obj, dtk])
                if r.status != 'ok' or r.retval != 0:
                    dec.candidate(key + ':moved-from-reuse', 'a moved-from solver that is re-initialised cannot be evolved (%s / %r) at %s' % (r.status, r.info or r.retval, where), **info)
                    return s
                lg = s.log_since(mark)
                rh = [e for e in lg if e[0] == 'rhs']
                if not rh or any(e[9] != obj for e in rh):
                    dec.candidate(key + ':moved-from-reuse', 'after a move assignment the re-initialised source is integrated through callbacks bound to %s at %s' % ('no object (no integration)' if not rh else 'the object that received the move', where), **info)
                    return s
                if differs(s.ok('h_sys_get_t', [obj]), T.fadd(tk, dtk), 'clock of the re-initialised moved-from object') or differs(s.ok('h_sys_get_t', [s.obj[other]]), texp, 'clock of the move target is untouched'):
                    dec.candidate(key + ':moved-from-reuse', 'evolving the re-initialised source of a move assignment changes the clock of the object that received the move (or not its own) at %s' % where, **info)
                    return s
                s.ok('h_sys_destroy', [obj])
                cur = other
            elif op == 'RI':
                cfg = (cfg[0] + 1, cfg[1], cfg[2], cfg[3])
                ti2 = T.var('ti_re')
                s.ok('h_sys_ini', [obj, cfg[0], cfg[1], cfg[2], cfg[3], ti2])
                s.write_state(cur, cfg[0], cfg[1], cfg[2], cfg[3], prefix='q')
                texp = ti2
                tini_exp = ti2
                t0 = s.ok('h_sys_get_t', [obj])
                if t0 is not ti2 or s.ok('h_sys_get_tini', [obj]) is not ti2:
                    dec.candidate(key + ':reini', 're-initialisation does not start a fresh clock at %s' % where, **info)
                    return s
            # after every operation: the object in use still reports the initial time it was given and the accumulated clock
            tin = s.ok('h_sys_get_tini', [s.obj[cur]])
            tcl = s.ok('h_sys_get_t', [s.obj[cur]])
            if differs(tin, tini_exp, 'Get_t_initial() is the initial time of the problem after any operation') or differs(tcl, texp, 'Get_t() = t_ini + sum dt after any operation (incl. moves)'):
                dec.candidate(key + ':tini', 'after %s the solver reports t_ini = %s and t = %s, expected %s and %s: elapsed time t - t_ini is no longer the sum of the segments' % (
                    where, T.show(tin, 3), T.show(tcl, 3), T.show(tini_exp, 3), T.show(texp, 3)), **info)
                return s
        r = s.call('h_sys_destroy', [s.obj[cur]])
        if r.status != 'ok':
            dec.candidate(key + ':destroy', 'destroying the solver after the history: %r' % (r.info,), **info)
    except SessionError as e:
        dec.candidate(key + ':error', '%s in %s' % (str(e)[:300], desc), **info)
    except ExecError as e:
        out['broken'].append('%s: %s' % (desc, str(e)[:200]))
    return s


def work(item):
    chunk, nchunks, tier, seed = item
    solver = S.Solver(timeout_ms=30000)
    out = new_out(item=[chunk])
    H = histories(tier, seed)[chunk::nchunks]
    stats = []
    n = 0
    for i, hist in enumerate(H):
        cfgs = [(2, 2, 1, 1)] if tier == 'quick' else [(2, 2, 1, 1), (3, 3, 2, 0)]
        for (d, nx, nrho, nsc) in cfgs:
            s = run_history(out, solver, hist, d, nx, nrho, nsc, reuse=(i % 2 == 1))
            stats.append(s.ex.stats)
            n += 1
    out['obligations'].append({'obligation': 'history slice %d/%d: %d histories over {Evolve(dt), Evolve(0), toggle switches, all terms off, adaptive<->fixed, move-construct, move-assign, re-initialise}: clock = t_ini + sum dt; views re-aliased to the stored state at the documented offsets; callbacks bound to the evolving object; no-numerics Evolve is the identity on the state and calls PreDerive(t_new) once; re-ini starts a fresh clock' % (chunk, nchunks, n),
                               'verdict': 'holds' if not out['candidates'] else '%d problems' % len(out['candidates'])})
    out['nhist'] = n
    out.update(worker_result(solver, stats, functions=FUNCS))
    return out


def replay(chk, c):
    """native: the same history on the real GSL with concrete terms; clock, views (through read-back) and split-vs-single evolution"""
    chk.cov['replayed'] += 1
    import subprocess
    so = build.native_so('c04.cpp')
    code = r'''
import ctypes, sys, json
lib = ctypes.CDLL(sys.argv[1]); cfg=json.loads(sys.argv[2])
mem=[ctypes.create_string_buffer(8192),ctypes.create_string_buffer(8192)]
P=[ctypes.c_void_p(ctypes.addressof(m)) for m in mem]
V=ctypes.c_void_p; U=ctypes.c_uint; Dd=ctypes.c_double
lib.h_sys_ctor.argtypes=[V,U,U,U,U,Dd]; lib.h_sys_ini.argtypes=[V,U,U,U,U,Dd]; lib.h_sys_evolve.argtypes=[V,Dd]
lib.h_sys_get_t.restype=Dd; lib.h_sys_get_t.argtypes=[V]; lib.h_sys_get_tini.restype=Dd; lib.h_sys_get_tini.argtypes=[V]; lib.h_sys_switches.argtypes=[V,U,U]; lib.h_sys_stepping.argtypes=[V,U,U,U]
lib.h_sys_move_construct.argtypes=[V,V]; lib.h_sys_move_assign.argtypes=[V,V]; lib.h_sys_destroy.argtypes=[V]
lib.h_sys_views.argtypes=[V,U,U,V]
for f in ('h_sys_write','h_sys_read'): getattr(lib,f).argtypes=[V,U,U,U,U,V]
lib.h_pre_last.restype=Dd
nx,d,nrho,nsc=cfg['nx'],cfg['d'],cfg['nrho'],cfg['nsc']
cur=0; ti=0.25; lib.h_sys_ctor(P[0],nx,d,nrho,nsc,ti)
import random; rng=random.Random(3)
def fill(p,nx):
    n=nx*(nrho*d*d+nsc); y=(Dd*n)(*[rng.uniform(-.5,.5) for _ in range(n)]); lib.h_sys_write(p,nx,d,nrho,nsc,y); return list(y)
fill(P[0],nx); mask=1; lib.h_sys_switches(P[0],mask,0); adaptive=1; lib.h_sys_stepping(P[0],1,50,2)
texp=ti; tini=ti; problems=[]
for step,op in enumerate(cfg['hist']):
    p=P[cur]
    if op in ('E','E0'):
        dt=0.3 if op=='E' else 0.0
        n=nx*(nrho*d*d+nsc); before=(Dd*n)(); lib.h_sys_read(p,nx,d,nrho,nsc,before)
        c0=lib.h_pre_count()
        rc=lib.h_sys_evolve(p,dt)
        if rc: problems.append('step %d: Evolve rc %d'%(step,rc)); break
        texp+=dt
        if abs(lib.h_sys_get_t(p)-texp)>1e-12: problems.append('step %d: clock %.17g expected %.17g'%(step,lib.h_sys_get_t(p),texp))
        after=(Dd*n)(); lib.h_sys_read(p,nx,d,nrho,nsc,after)
        if mask!=0 and dt>0 and list(before)==list(after): problems.append('step %d: terms are enabled (switches %s) but the state did not change at all: no integration'%(step,format(mask,'05b')))
        if mask==0:
            if list(before)!=list(after): problems.append('step %d: state changed with numerics off'%step)
            if lib.h_pre_count()!=c0+1 or abs(lib.h_pre_last()-texp)>1e-12: problems.append('step %d: PreDerive not called once with the new time'%step)
        vw=(ctypes.c_ulong*(nx*(2*nrho+2)))(); lib.h_sys_views(p,nx,nrho,vw)
        for i in range(0,len(vw),2):
            if vw[i]!=vw[i+1] and not (nsc==0 and (i//2)%(nrho+1)==nrho): problems.append('step %d: in-step view %d differs from the stored state'%(step,i//2)); break
    elif op in ('T1','T8','T4','Toff'):
        newmask={'T1':mask^1,'T8':(mask^16) if nsc else mask^2,'T4':(mask&~8) if nsc else (mask&~4),'Toff':0}[op]
        lib.h_sys_switch_one.argtypes=[V,U,U]
        if op=='Toff': lib.h_sys_switches(p,0,step%5)
        elif op=='T4': lib.h_sys_switch_one(p,3 if nsc else 2,0)
        else:
            which=0 if op=='T1' else (4 if nsc else 1); lib.h_sys_switch_one.argtypes=[V,U,U]; lib.h_sys_switch_one(p,which,(newmask>>which)&1)
        mask=newmask
    elif op=='ST':
        adaptive=1-adaptive; lib.h_sys_stepping(p,adaptive,50,2)
    elif op=='MC':
        lib.h_sys_move_construct(P[1-cur],p); lib.h_sys_destroy(p); cur=1-cur
    elif op=='MA':
        lib.h_sys_ctor(P[1-cur],1,2,1,0,0.7); lib.h_sys_move_assign(P[1-cur],p); lib.h_sys_destroy(p); cur=1-cur
    elif op=='MR':
        lib.h_sys_ctor(P[1-cur],1,2,1,0,0.7); lib.h_sys_move_assign(P[1-cur],p)
        lib.h_sys_ini(p,1,2,1,1,3.25); nxk=nx; nx=1; dk=d; nrk=nrho; nsk=nsc
        yy=(Dd*5)(*[0.1,0.2,0.3,0.4,0.5]); lib.h_sys_write(p,1,2,1,1,yy); lib.h_sys_switches(p,1,0); lib.h_sys_stepping(p,1,50,2)
        rc=lib.h_sys_evolve(p,0.2)
        if rc or abs(lib.h_sys_get_t(p)-3.45)>1e-12 or abs(lib.h_sys_get_t(P[1-cur])-texp)>1e-12: problems.append('step %d (MR): re-initialised moved-from object: rc %d clock %.17g, move target clock %.17g expected %.17g'%(step,rc,lib.h_sys_get_t(p),lib.h_sys_get_t(P[1-cur]),texp)); break
        aft=(Dd*5)(); lib.h_sys_read(p,1,2,1,1,aft)
        if list(aft)==list(yy): problems.append('step %d (MR): the re-initialised moved-from object was not integrated'%step); break
        lib.h_sys_destroy(p); cur=1-cur; nx=nxk
    elif op=='RI':
        nx+=1; lib.h_sys_ini(p,nx,d,nrho,nsc,1.5); fill(p,nx); texp=1.5; tini=1.5
        if lib.h_sys_get_t(p)!=1.5: problems.append('step %d: re-ini clock'%step)
    q=P[cur]
    if abs(lib.h_sys_get_tini(q)-tini)>1e-12 or abs(lib.h_sys_get_t(q)-texp)>1e-12: problems.append('step %d (%s): t_ini %.17g t %.17g expected %.17g %.17g'%(step,op,lib.h_sys_get_tini(q),lib.h_sys_get_t(q),tini,texp)); break
if cfg.get('probe') and not problems:
    # the ODE callback called the way some GSL steppers call it (rk4's step doubling, msadams): a new input array together with the output array of the
    # previous call; the derivative written must be that of the new input (compared with the same call into a fresh output array)
    q=P[cur]; n=nx*(nrho*d*d+nsc)
    if mask==0: lib.h_sys_switches(q,1,0)
    lib.h_sys_rhs_probe.argtypes=[V,U,V,V,Dd,V]
    y1=(Dd*n)(*[rng.uniform(-.5,.5) for _ in range(n)]); y2=(Dd*n)(*[rng.uniform(-.5,.5) for _ in range(n)]); res=(Dd*2)()
    rc=lib.h_sys_rhs_probe(q,n,y1,y2,texp+0.1,res)
    if rc==0 and res[1]>1e-6 and res[0]>1e-12: problems.append('after the history the ODE callback, given a new input array with the output array of the previous call, does not compute the derivative of that input (difference %.3g to the derivative written into a fresh output array)'%res[0])
print(json.dumps(problems))
'''
    cfg = dict(hist=c['hist'], d=c['d'], nx=c['nx'], nrho=c['nrho'], nsc=c['nsc'], probe=('stale-view' in c.get('key', '')))
    try:
        p = subprocess.run([sys.executable, '-c', code, so, json.dumps(cfg)], capture_output=True, text=True, timeout=300)
    except subprocess.TimeoutExpired:
        return True, 'the native run does not finish within 300 s (the integration never converges)'
    if p.returncode != 0:
        c['native'] = p.stderr[-400:]
        return True, 'native run crashed: %s' % p.stderr.strip().split('\n')[-1][:160]
    probs = json.loads(p.stdout.strip().split('\n')[-1])
    c['native'] = probs
    return bool(probs), (probs[0] if probs else 'native run clean')


def main(tier):
    chk = Check(PID, tier)
    chk.candidates = []
    nchunks = 16
    items = [(k, nchunks, tier, chk.seed) for k in range(nchunks)]
    chk.cov['bounds'] = {'histories': 'sequences of <=3 operations (all) and seeded 4-operation sequences over {Evolve(dt), Evolve(0), toggle coherent / scalar(or non-coherent) switch, switch a (possibly already disabled) term off, all terms off, adaptive<->fixed stepping, move-construct, move-assign, re-initialise}; quick tier: seeded sample of 130',
                         'configurations': '(d,nx,nrho,nscalars) = (2,2,1,1); thorough adds (3,3,2,0)', 'allocator': 'every second history runs with an allocator that hands freed blocks out again (address reuse makes stale cached pointers observable)',
                         'driver': 'GSL stub with scripted callback sequences (see C04)'}
    chk.cov['domains'] = ['R (exact reals): dt, t_ini symbolic; the fixed-step clock t + n*(dt/n) is compared as a polynomial identity']
    chk.cov['stubs'] = ['GSL odeiv2 driver: checks/gslstub.py', 'user terms / PreDerive: uninterpreted intrinsics']
    chk.assumptions = ['OUTSIDE THE TECHNIQUE: "the state equals, within integration tolerance, the state of a single Evolve over the total interval" is a property of GSL\'s compiled integrators; it is exercised only natively (C04 replay: split vs single interval against scipy), not decided',
                       'zero-length segments: only the clock and bookkeeping are decided (what the driver does with a zero interval is GSL\'s behaviour)']
    Session([])
    with MPool(min(16, os.cpu_count() or 1)) as mp:
        results = mp.map(work, items, chunksize=1)
    nh = 0
    for w in results:
        chk.merge_worker(w)
        nh += w.get('nhist', 0)
    chk.cov['histories_run'] = nh
    # native validation of the harness on two fixed histories
    for hist in (['E', 'T8', 'E0', 'MC', 'E'], ['Toff', 'E', 'RI', 'T1', 'E']):
        okv, info = replay(chk, dict(hist=hist, d=2, nx=2, nrho=1, nsc=1))
        chk.cov['interp_vs_native']['cases'] += 1
        if okv:
            chk.broken_q('native run of history %s on the unchanged tree reports: %s' % (hist, info))
    seen = set()
    for c in chk.candidates:
        sig = c['key'].split(':', 2)[-1] if c['key'].count(':') >= 2 else c['key']
        sig = (c['key'].split(':')[2] if c['key'].count(':') >= 2 else 'main')
        if sig in seen and len(seen) > 6:
            continue
        if c['key'] in seen:
            continue
        seen.add(c['key'])
        seen.add(sig)
        ok, info = replay(chk, c)
        if ok:
            chk.report(c['key'], '%s; native: %s' % (c['what'], info), c)
        else:
            chk.broken_q('counterexample for %s did not reproduce natively (%s): %s' % (c['key'], info, c['what'][:200]))
    return chk.finish()


def replay_main(path):
    c = json.load(open(path))['replay']
    chk = Check(PID, 'quick')
    ok, info = replay(chk, c)
    print('replay %s: %s (%s)' % (path, 'REPRODUCED' if ok else 'not reproduced', info))
    return 1 if ok else 0


if __name__ == '__main__':
    sys.exit(main(sys.argv[1] if len(sys.argv) > 1 else 'quick'))
