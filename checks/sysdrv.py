"""Symbolic session on SQuIDS-subclass objects (harness/c04.cpp) under the GSL driver stub: one public call per step."""
from fractions import Fraction
from common import *
from irsym import build, llparse as L, term as T, solver as S
from irsym.exec import Executor, ExecError
from irsym.harness import load_module, Harness
from irsym.term import Term
from gslstub import GslStub

LIBS = ('SUNalg.cpp', 'SQuIDS.cpp', 'const.cpp')
KINDS = {0: 'HI', 1: 'GammaRho', 2: 'InteractionsRho', 3: 'GammaScalar', 4: 'InteractionsScalar'}


def term_atom(kind, ix, idx, k, t):
    return T.fun('term%d_%d_%d_%d' % (kind, ix, idx, k), t)


class Session:
    def __init__(self, scripts, solver=None):
        self.ir = build.ir_for('c04.cpp', LIBS, ('gsl_shim.c',), ('VERIF_SYMBOLIC',))
        self.mod = load_module(self.ir)
        self.solver = solver or S.Solver()
        self.ex = Executor(self.mod, 'R', self.solver)
        self.stub = GslStub(self.ex, scripts)
        self.ex.intr['verif_term'] = self._term
        self.ex.intr['verif_prederive'] = self._pre
        st = self.ex.new_state()
        slots = st.user_buffer(2 * 4096, 'solver-objects', align=16)
        self.obj = [slots.base, slots.base + 4096]
        self.io = st.user_buffer(8 * 512, 'io', align=32).base
        self.views = st.user_buffer(8 * 256, 'views', align=8).base
        self.st = st

    @staticmethod
    def _term(ex, st, args, ins, name):
        kind, ix, idx, t, k = args
        if k == 0:
            st.log.append(('term', kind, ix, idx, t))
        return term_atom(kind, ix, idx, k, t)

    @staticmethod
    def _pre(ex, st, args, ins, name):
        st.log.append(('pre', args[0], args[1]))
        return None

    def call(self, fn, args):
        rs = self.ex.run(self.st, fn, args)
        if len(rs) != 1:
            raise ExecError('%s: %d paths' % (fn, len(rs)))
        r = rs[0]
        self.st = r.state
        return r

    def ok(self, fn, args):
        r = self.call(fn, args)
        if r.status != 'ok':
            raise SessionError('%s: %s %r' % (fn, r.status, r.info), r)
        return r.retval

    def write_state(self, k, nx, d, nrho, nsc, prefix='s'):
        n = nx * (nrho * d * d + nsc)
        vals = [T.var('%s%d' % (prefix, i)) for i in range(n)]
        o = self.st.find(self.io)
        self.st = self.st.clone()
        o = self.st.find(self.io)
        for i, v in enumerate(vals):
            o.cells[8 * i] = (8, v)
        self.ok('h_sys_write', [self.obj[k], nx, d, nrho, nsc, self.io])
        return vals

    def read_state(self, k, nx, d, nrho, nsc):
        n = nx * (nrho * d * d + nsc)
        self.ok('h_sys_read', [self.obj[k], nx, d, nrho, nsc, self.io])
        o = self.st.find(self.io)
        return [o.cells.get(8 * i, (8, None))[1] for i in range(n)]

    def get_views(self, k, nx, nrho):
        self.ok('h_sys_views', [self.obj[k], nx, nrho, self.views])
        o = self.st.find(self.views)
        out = []
        p = 0
        for ix in range(nx):
            row = {'rho': [], 'scalar': None}
            for i in range(nrho):
                row['rho'].append((o.cells[8 * p][1], o.cells[8 * (p + 1)][1]))
                p += 2
            row['scalar'] = (o.cells[8 * p][1], o.cells[8 * (p + 1)][1])
            p += 2
            out.append(row)
        return out

    def log_since(self, mark):
        return self.st.log[mark:]


class SessionError(Exception):
    def __init__(self, msg, result):
        Exception.__init__(self, msg)
        self.result = result
