"""C19 -- the block cache hands every cached block to at most one taker (shared configuration, all interleavings within the bound,
CBMC on C generated from the real header's LLVM IR); bounded LIFO behaviour for a single owner (both configurations)."""
import sys, time, os, json, subprocess, re, hashlib, itertools, random
from multiprocessing import Pool as MPool
from common import *
from irsym import build, llparse as L, ir2c

PID = 'C19'
BASE = 8
FUNCS = ['squids::detail::cache<long,N>::cache()', 'cache::insert', 'cache::get', 'cache::pop', 'cache::push', 'std::atomic<list_head> load/store/compare_exchange_weak (libatomic calls -> atomic sections)']
CPROVER_STUBS = '''
#include <assert.h>
#define __CPROVER_atomic_begin() ((void)0)
#define __CPROVER_atomic_end() ((void)0)
#define __CPROVER_assert(c,m) assert(c)
unsigned long nondet_ulong(void){ return 0xA5A5A5A5A5A5A5A5UL; }   /* the native comparison fills the real object's storage with the same bytes */
'''


def gen_c(N, tls):
    """C source (string) for capacity N generated from the real header's IR, plus the size of the cache object"""
    defs = ['CACHE_N=%d' % N] + (['SQUIDS_THREAD_LOCAL=thread_local'] if tls else [])
    ir = build.ir_for('c19.cpp', (), (), defs, tag='N%d%s' % (N, 'tls' if tls else 'shared'))
    mod = L.Module.load(ir)
    tr = ir2c.Translator(mod)
    code = tr.translate(['c_init', 'c_insert', 'c_get'])
    ty = mod.types['class.squids::detail::cache']
    size = L.size_of(ty)
    return ir2c.memory_prelude(BASE, size) + '\n' + code, size


def validate_translation(N, tls, seed):
    """the generated C, compiled natively, against the real template on random single-thread operation sequences"""
    code, size = gen_c(N, tls)
    d = os.path.join(build.BUILD, 'c19val.%d.%d.%d' % (N, int(tls), os.getpid()))
    os.makedirs(d, exist_ok=True)
    with open(os.path.join(d, 'gen.c'), 'w') as f:
        f.write(CPROVER_STUBS + code + '\nunsigned long g_init(void){ HAVOC(); return f_c_init(%dUL); }\nunsigned long g_insert(long v){ return f_c_insert(%dUL,(unsigned long)v); }\nlong g_get(void){ return (long)f_c_get(%dUL); }\n' % (BASE, BASE, BASE))
    with open(os.path.join(d, 'drv.cpp'), 'w') as f:
        f.write('''#include <cstdio>
#include <cstdlib>
extern "C" { unsigned long g_init(void); unsigned long g_insert(long); long g_get(void); void c_init(void*); int c_insert(void*,long); long c_get(void*); unsigned long c_sizeof(); }
int main(int argc,char** argv){ unsigned seed=atoi(argv[1]); srand(seed); void* m=aligned_alloc(16,c_sizeof()+64); for(unsigned long q=0;q<c_sizeof()+64;q++) ((unsigned char*)m)[q]=0xA5; c_init(m); g_init(); long tok=1; int bad=0; int n=0;
 for(int k=0;k<4000;k++){ if(rand()%2){ int a=c_insert(m,tok); int b=(int)g_insert(tok); if(a!=b){bad++;} tok++; } else { long a=c_get(m); long b=g_get(); if(a!=b){bad++;} } n++; }
 printf("%d %d\\n",n,bad); return bad?1:0; }
''')
    defs = ['-DCACHE_N=%d' % N] + (['-DSQUIDS_THREAD_LOCAL=thread_local'] if tls else [])
    try:
        build.sh(['gcc', '-O1', '-c', os.path.join(d, 'gen.c'), '-o', os.path.join(d, 'gen.o')])
        build.sh(['g++', '-std=c++11', '-O1', '-I' + build.REPO + '/include'] + defs + [os.path.join(build.VERIF, 'harness', 'c19.cpp'), os.path.join(d, 'drv.cpp'), os.path.join(d, 'gen.o'), '-latomic', '-o', os.path.join(d, 'val')])
        p = subprocess.run([os.path.join(d, 'val'), str(seed)], capture_output=True, text=True, timeout=60)
        ok = p.returncode == 0
        n = int(p.stdout.split()[0]) if p.stdout.split() else 0
    finally:
        subprocess.run(['rm', '-rf', d])
    return ok, n


def shared_harness(N, prefix, threads):
    """threads: list of op lists, op = 'i' or 'g'.  Returns C main() text and the list of assertion names."""
    ops = []
    lines = []
    k = 0
    for t, seq in enumerate(threads):
        for o in seq:
            ops.append((t, o, 100 + k))
            k += 1
    nops = len(ops)
    lines.append('unsigned long res[%d]; unsigned char done[%d];' % (nops, len(threads)))
    lines.append('unsigned long dr[%d];' % (N + 1))
    lines.append('int main(void){')
    lines.append('  HAVOC();')
    lines.append('  f_c_init(%dUL);' % BASE)
    for p in range(prefix):
        lines.append('  { unsigned long r = f_c_insert(%dUL, %dUL); __CPROVER_assert(r == 1, "sequential prefix insert succeeds"); }' % (BASE, 1 + p))
    k = 0
    for t, seq in enumerate(threads):
        body = []
        for o in seq:
            if o == 'i':
                body.append('res[%d] = f_c_insert(%dUL, %dUL);' % (k, BASE, 100 + k))
            else:
                body.append('res[%d] = f_c_get(%dUL);' % (k, BASE))
            k += 1
        lines.append('  __CPROVER_ASYNC_%d: { %s done[%d] = 1; }' % (t + 1, ' '.join(body), t))
    lines.append('  __CPROVER_assume(%s);' % ' && '.join('done[%d]' % t for t in range(len(threads))))
    ins = [(j, tok) for j, (t, o, tok) in enumerate(ops) if o == 'i']
    gets = [j for j, (t, o, tok) in enumerate(ops) if o == 'g']

    def member(x):
        """C expression: value x was successfully inserted"""
        alts = ['(%s) == %dUL' % (x, 1 + p) for p in range(prefix)] + ['(res[%d] == 1 && (%s) == %dUL)' % (j, x, tok) for j, tok in ins]
        return '(' + (' || '.join(alts) if alts else '0') + ')'
    for j in gets:
        lines.append('  __CPROVER_assert(res[%d] == 0 || %s, "a fetch returns only a block that was successfully inserted");' % (j, member('res[%d]' % j)))
    for a, b in itertools.combinations(gets, 2):
        lines.append('  __CPROVER_assert(!(res[%d] != 0 && res[%d] == res[%d]), "no block is returned by two fetches");' % (a, a, b))
    # quiescence: drain
    for i in range(N + 1):
        lines.append('  dr[%d] = f_c_get(%dUL);' % (i, BASE))
    lines.append('  __CPROVER_assert(dr[%d] == 0, "after capacity many drains the cache is empty");' % N)
    for i in range(N):
        lines.append('  __CPROVER_assert(dr[%d] == 0 || %s, "drained blocks were successfully inserted");' % (i, member('dr[%d]' % i)))
        for j in gets:
            lines.append('  __CPROVER_assert(!(dr[%d] != 0 && dr[%d] == res[%d]), "a fetched block is not also left in the cache");' % (i, i, j))
        for i2 in range(i + 1, N):
            lines.append('  __CPROVER_assert(!(dr[%d] != 0 && dr[%d] == dr[%d]), "no block is drained twice");' % (i, i, i2))
        if i + 1 < N + 1:
            lines.append('  __CPROVER_assert(!(dr[%d] == 0 && dr[%d] != 0), "drain stops at the first empty answer");' % (i, i + 1))
    ninserted = ' + '.join(['%d' % prefix] + ['(res[%d] == 1 ? 1 : 0)' % j for j, _ in ins])
    nfetched = ' + '.join(['0'] + ['(res[%d] != 0 ? 1 : 0)' % j for j in gets])
    ndrained = ' + '.join(['0'] + ['(dr[%d] != 0 ? 1 : 0)' % i for i in range(N)])
    lines.append('  __CPROVER_assert((%s) == (%s) + (%s), "inserted = fetched + drained (nothing lost, nothing invented)");' % (ninserted, nfetched, ndrained))
    lines.append('  __CPROVER_assert(0, "WITNESS: the end of the harness is reachable (expected to fail)");')
    lines.append('  return 0; }')
    return '\n'.join(lines)


def sequential_harness(N):
    L_ = 2 * N + 2
    return '''
unsigned char nondet_uchar(void);
int main(void){
  unsigned long model[%d]; unsigned int count = 0; unsigned long tok = 1;
  HAVOC();
  f_c_init(%dUL);
  for(int k = 0; k < %d; k++){
    if(nondet_uchar() & 1){
      unsigned long r = f_c_insert(%dUL, tok);
      __CPROVER_assert((r == 1) == (count < %d), "insert fails iff the cache holds its capacity");
      if(r == 1){ model[count] = tok; count++; }
      tok++;
    } else {
      unsigned long v = f_c_get(%dUL);
      if(count == 0){ __CPROVER_assert(v == 0, "fetch fails iff the cache is empty"); }
      else { __CPROVER_assert(v == model[count-1], "fetch returns the most recently inserted block (LIFO)"); count--; }
    }
  }
  __CPROVER_assert(0, "WITNESS: the end of the harness is reachable (expected to fail)");
  return 0; }
''' % (N + 1, BASE, L_, BASE, N, BASE)


def run_cbmc(src_text, unwind, tag, timeout=1500, unwindset=None):
    timeout = int(os.environ.get('C19_CBMC_TIMEOUT', timeout))
    d = os.path.join(build.BUILD, 'c19')
    os.makedirs(d, exist_ok=True)
    path = os.path.join(d, '%s.%d.c' % (tag, os.getpid()))
    with open(path, 'w') as f:
        f.write(src_text)
    t0 = time.time()
    try:
        p = subprocess.run(['cbmc', path, '--unwind', str(unwind)] + (['--unwindset', unwindset] if unwindset else []) + ['--unwinding-assertions', '--trace'], capture_output=True, text=True, timeout=timeout)
        out = p.stdout
    except subprocess.TimeoutExpired:
        out = 'TIMEOUT'
    dt = time.time() - t0
    os.remove(path)
    failed = re.findall(r'^\[(.+?)\] line \d+ (.*?): FAILURE$', out, re.M)
    succ = len(re.findall(r': SUCCESS$', out, re.M))
    if 'VERIFICATION SUCCESSFUL' in out:
        verdict = 'unsat'
    elif 'VERIFICATION FAILED' in out:
        verdict = 'sat'
    else:
        verdict = 'unknown'
    unwinding = [f for f in failed if 'unwinding' in f[1]]
    witness = [f for f in failed if f[1].startswith('WITNESS')]
    prop = [f for f in failed if 'unwinding' not in f[1] and not f[1].startswith('WITNESS')]
    if verdict == 'sat' and not prop and not unwinding:
        verdict = 'unsat'          # only the reachability witness failed, as it must
    trace = None
    if prop:
        segs = re.split(r'^Trace for ', out, flags=re.M)
        seg = [x for x in segs[1:] if x.startswith(prop[0][0] + ':')]
        vals = re.findall(r'^\s*(res\[\d+l?\]|dr\[\d+l?\])=(\d+)', seg[0] if seg else out, re.M)
        trace = {k.replace('l]', ']'): int(v) for k, v in vals}
    return {'verdict': verdict, 'seconds': dt, 'failed': prop, 'unwinding_failed': unwinding, 'nprops': succ + len(failed), 'trace': trace, 'witness': bool(witness), 'timeout': out == 'TIMEOUT',
            'raw_tail': out[-600:] if verdict == 'unknown' else ''}


def work(item):
    kind, N, prefix, threads, tier = item
    out = new_out(item=[kind, N, prefix, threads])
    stats = {'queries': {'sat': 0, 'unsat': 0, 'unknown': 0}, 'solver_s': 0.0, 'nqueries': 0, 'hashes': [], 'samples': [], 'paths': 0, 'ir_instructions': 0, 'functions': FUNCS}
    if kind == 'shared':
        code, size = gen_c(N, False)
        src = code + '\n' + shared_harness(N, prefix, threads)
        nconc = sum(len(t) for t in threads)
        unwind = nconc + 1                   # retry loops; the constructor's loop over the N entries gets its own bound (--unwindset)
        r = run_cbmc(src, unwind, 'sh%d_%d_%s' % (N, prefix, '-'.join(''.join(t) for t in threads)), timeout=1500 if tier == 'quick' else 3000, unwindset='f_c_init.0:%d' % (N + 2))
        name = 'shared cache capacity %d, %d sequential inserts, then threads %s (every interleaving of the atomic steps, unwind %d)' % (N, prefix, ' | '.join(','.join(t) for t in threads), unwind)
    else:
        code, size = gen_c(N, kind == 'seq-tls')
        src = code + '\n' + sequential_harness(N)
        r = run_cbmc(src, 2 * N + 4, 'seq%d_%s' % (N, kind))
        name = '%s configuration, single owner, capacity %d: every operation sequence of length %d behaves as a bounded LIFO' % ('thread-local' if kind == 'seq-tls' else 'shared', N, 2 * N + 2)
    stats['nqueries'] = 1
    stats['queries'][r['verdict']] += 1
    stats['solver_s'] = r['seconds']
    stats['hashes'] = [hashlib.sha1(src.encode()).hexdigest()]
    stats['samples'] = [{'query': name, 'verdict': r['verdict'], 'seconds': round(r['seconds'], 2), 'properties': r['nprops']}]
    stats['paths'] = 1
    stats['ir_instructions'] = len(code.split('\n'))
    out['not_explored'] = []
    if r['timeout']:
        out['not_explored'].append('%s: CBMC did not finish within %d s' % (name, r['seconds']))
    elif r['verdict'] == 'unsat' and not r['witness']:
        out['broken'].append('%s: the reachability witness assert(0) at the end of the harness did NOT fail: the harness is vacuous' % name)
    elif r['verdict'] == 'unsat':
        out['obligations'].append({'obligation': name, 'verdict': 'holds', 'seconds': round(r['seconds'], 2), 'detail': '%d CBMC properties incl. unwinding assertions; reachability witness fails as required' % r['nprops']})
        out['witnesses']['reachability'] += 1
    elif r['verdict'] == 'sat' and r['failed']:
        out['candidates'].append({'key': '%s:N=%d:%s' % (kind, N, r['failed'][0][1][:40]), 'what': '%s: CBMC counterexample for "%s"' % (name, r['failed'][0][1]), 'kind': kind, 'N': N, 'prefix': prefix,
                                  'threads': threads, 'trace': r['trace'], 'failed': [f[1] for f in r['failed']]})
    elif r['verdict'] == 'sat':
        out['undecided'].append('%s: only unwinding assertions fail (bound too small): %r' % (name, r['unwinding_failed'][:2]))
    else:
        out['undecided'].append('%s: no verdict (%s)' % (name, r['raw_tail'][-200:].replace('\n', ' ')))
    out.update(stats)
    return out


# ------------------------------------------------------------------------------------------ replay on the real template
REPLAY_SRC = r'''
// schedule explorer on the REAL cache template (shared configuration): every compare-exchange is a scheduling point (before and after);
// threads run one at a time under a token; schedules are drawn at random from the given seed; reports the first schedule violating the property.
#include <atomic>
#include <cstdint>
#include <cstddef>
#include <cstdio>
#include <cstdlib>
#include <cstring>
#include <new>
#include <thread>
#include <mutex>
#include <condition_variable>
#include <vector>
static void sched_point();
namespace std{ template<typename A, typename T> bool hooked_cas(A* a, T* e, T d){ sched_point(); bool r=a->compare_exchange_weak(*e,d); sched_point(); return r; } }
#define atomic_compare_exchange_weak hooked_cas
#include "SQuIDS/detail/Cache.h"
#undef atomic_compare_exchange_weak
static std::mutex mx; static std::condition_variable cv; static int turn=-1; static int nthreads=0; static std::vector<int> alive; static unsigned rng;
static thread_local int me=-1;
static unsigned nextr(){ rng=rng*1103515245u+12345u; return (rng>>16)&0x7fff; }
static void pick(){ std::vector<int> c; for(int i=0;i<nthreads;i++) if(alive[i]) c.push_back(i); turn = c.empty()? -1 : c[nextr()%c.size()]; }
static void sched_point(){ if(me<0) return; std::unique_lock<std::mutex> lk(mx); pick(); cv.notify_all(); cv.wait(lk,[]{return turn==me;}); }
typedef squids::detail::cache<long,CACHE_N> cache_t;
int main(int argc,char** argv){
  int prefix=atoi(argv[1]); int trials=atoi(argv[2]); unsigned seed=atoi(argv[3]);
  std::vector<std::vector<char>> prog; for(int a=4;a<argc;a++){ std::vector<char> p; for(char* s=argv[a];*s;s++) p.push_back(*s); prog.push_back(p); }
  nthreads=prog.size();
  for(int t=0;t<trials;t++){
    rng=seed+t*7919u; void* raw_=operator new(sizeof(cache_t)+64); memset(raw_,0xA5,sizeof(cache_t)+64); cache_t* c=new(raw_) cache_t();   /* arbitrary prior storage content */
    for(int p=0;p<prefix;p++) c->insert(1+p);
    std::vector<std::vector<long>> res(nthreads); alive.assign(nthreads,1); turn=-1;
    std::vector<std::thread> th; long tok=100;
    std::vector<std::vector<long>> toks(nthreads);
    for(int i=0;i<nthreads;i++) for(char o:prog[i]) toks[i].push_back(o=='i'?tok++:0);
    for(int i=0;i<nthreads;i++) th.emplace_back([&,i]{ me=i; { std::unique_lock<std::mutex> lk(mx); cv.wait(lk,[&]{return turn==i;}); }
        for(size_t k=0;k<prog[i].size();k++){ if(prog[i][k]=='i') res[i].push_back(c->insert(toks[i][k])?1:0); else res[i].push_back(c->get()); }
        std::unique_lock<std::mutex> lk(mx); alive[i]=0; pick(); cv.notify_all(); });
    { std::unique_lock<std::mutex> lk(mx); pick(); cv.notify_all(); }
    for(auto& x:th) x.join();
    me=-1;
    std::vector<long> inserted; for(int p=0;p<prefix;p++) inserted.push_back(1+p);
    std::vector<long> fetched;
    for(int i=0;i<nthreads;i++) for(size_t k=0;k<prog[i].size();k++){ if(prog[i][k]=='i'){ if(res[i][k]) inserted.push_back(toks[i][k]); } else if(res[i][k]) fetched.push_back(res[i][k]); }
    std::vector<long> drained; for(int k=0;k<CACHE_N+2;k++){ long v=c->get(); if(v) drained.push_back(v); }
    bool bad=false; std::vector<long> all=fetched; all.insert(all.end(),drained.begin(),drained.end());
    for(size_t a=0;a<all.size();a++){ bool in=false; for(long x:inserted) if(x==all[a]) in=true; if(!in) bad=true; for(size_t b=a+1;b<all.size();b++) if(all[a]==all[b]) bad=true; }
    if(all.size()!=inserted.size()) bad=true;
    if(bad){ printf("VIOLATION trial %d seed %u: inserted", t, seed); for(long x:inserted) printf(" %ld",x); printf(" | fetched"); for(long x:fetched) printf(" %ld",x); printf(" | drained"); for(long x:drained) printf(" %ld",x); printf("\n"); return 1; }
    c->~cache_t(); operator delete(raw_);
  }
  printf("no violation in %d random schedules\n",trials); return 0; }
'''


def replay(chk, c):
    chk.cov['replayed'] += 1
    if c['kind'] != 'shared':
        # sequential: run the real template against the LIFO model exhaustively for the bounded length
        N = c['N']
        src = os.path.join(build.BUILD, 'c19seq.%d.cpp' % os.getpid())
        tls = c['kind'] == 'seq-tls'
        open(src, 'w').write('''%s#include <atomic>
#include <cstdint>
#include <cstddef>
#include <cstdio>
#include <cstring>
#include <new>
#include "SQuIDS/detail/Cache.h"
int main(){ const int N=%d, L=2*N+2; typedef squids::detail::cache<long,N> cache_t; alignas(16) static unsigned char raw_[sizeof(cache_t)+64];
 for(unsigned m=0;m<(1u<<L);m++){ memset(raw_,0xA5,sizeof(raw_)); cache_t& c=*new(raw_) cache_t(); long model[N+1]; int cnt=0; long tok=1;
 for(int k=0;k<L;k++){ if((m>>k)&1){ bool r=c.insert(tok); if(r!=(cnt<N)){ printf("insert mismatch\\n"); return 1;} if(r) model[cnt++]=tok; tok++; } else { long v=c.get(); if(cnt==0){ if(v!=0){printf("get on empty\\n");return 1;} } else { if(v!=model[cnt-1]){printf("not LIFO\\n");return 1;} cnt--; } } } }
 return 0; }''' % ('#define SQUIDS_THREAD_LOCAL thread_local\n' if tls else '', N))
        exe = src[:-4]
        build.sh(['g++', '-std=c++11', '-O1', '-I' + build.REPO + '/include', src, '-latomic', '-o', exe])
        p = subprocess.run([exe], capture_output=True, text=True)
        os.remove(src)
        os.remove(exe)
        return p.returncode != 0, p.stdout.strip()
    N = c['N']
    src = os.path.join(build.BUILD, 'c19replay.%d.cpp' % os.getpid())
    open(src, 'w').write(REPLAY_SRC)
    exe = src[:-4]
    build.sh(['g++', '-std=c++11', '-O1', '-pthread', '-DCACHE_N=%d' % N, '-I' + build.REPO + '/include', src, '-latomic', '-o', exe])
    p = subprocess.run([exe, str(c['prefix']), '20000', str(chk.seed + 1)] + [''.join(t) for t in c['threads']], capture_output=True, text=True, timeout=600)
    os.remove(src)
    os.remove(exe)
    c['native'] = p.stdout.strip()[-300:]
    if p.returncode not in (0, 1):
        return True, 'the real template crashed (exit status %d) under the explored schedules' % p.returncode
    return p.returncode == 1, p.stdout.strip().split('\n')[-1][:200]


def patterns():
    three = [list(m) for m in (['i', 'i', 'i'], ['i', 'i', 'g'], ['i', 'g', 'g'], ['g', 'g', 'g'])]
    pats = [[[o] for o in m] for m in three]
    for x in 'ig':
        for y in 'ig':
            for z in 'ig':
                pats.append([[x, y], [z]])
    return pats


def main(tier):
    chk = Check(PID, tier)
    chk.candidates = []
    Ns = [1, 2] if tier == 'quick' else [1, 2, 3, 4]
    items = []
    rng = random.Random(chk.seed + 11)
    two = [[[a], [b]] for a, b in (('i', 'i'), ('i', 'g'), ('g', 'g'))]      # 2 threads x 1 operation: cheap, run for every capacity and prefix
    for N in (Ns + [3] if tier == 'quick' else Ns):
        for prefix in range(N + 1):
            for th in two:
                items.append(('shared', N, prefix, th, tier))
    for N in Ns:
        for prefix in range(N + 1):
            pats = patterns()
            if tier == 'quick' and N == 2:
                # capacity 2 costs 2-10 minutes per scenario: the quick tier takes one seeded scenario per prefix <= 1, the thorough tier all of them
                if prefix > 1:
                    continue
                pats = rng.sample(pats, 1)
            if N >= 3:
                if prefix not in (0, N):
                    continue
                pats = pats[:4]          # 3 threads x 1 operation only
            for th in pats:
                items.append(('shared', N, prefix, th, tier))
    for N in ([1, 2, 3] if tier == 'quick' else [1, 2, 3, 4]):
        items.append(('seq-tls', N, 0, [], tier))
        items.append(('seq-shared', N, 0, [], tier))
    chk.cov['bounds'] = {'capacity': Ns, 'threads': '2 threads x 1 operation (3 patterns, every capacity incl. 3 in the quick tier, every prefix), 3 threads x 1 operation (4 insert/fetch multisets) and 2 threads x (2+1) operations (8 patterns): at most 3 concurrent operations; quick tier: all 12 patterns x all prefixes for capacity 1, one seeded pattern for each prefix 0,1 for capacity 2; thorough: all for capacity 1,2 and the 3x1 patterns with prefix 0 and N for capacity 3,4',
                         'prefix': '0..capacity sequential inserts before the threads start', 'interleavings': 'all, at the granularity of the atomic loads/stores/compare-exchanges and plain shared accesses (CBMC partial-order encoding, sequential consistency)',
                         'unwinding': 'compare-exchange retry loops unwound (concurrent operations + 2) times with --unwinding-assertions', 'sequential': 'every operation sequence of length 2*capacity+2, both configurations'}
    chk.cov['domains'] = ['bit-precise integers (CBMC SAT back end)']
    chk.cov['stubs'] = ['libatomic __atomic_load/__atomic_store/__atomic_compare_exchange (8 bytes) -> __CPROVER_atomic sections', 'private stack objects -> C locals; shared cache object -> scalar words with switch accessors, initial content nondeterministic (the constructor runs on arbitrary storage)']
    chk.assumptions = ['sequentially consistent memory (the code uses seq_cst atomics; plain accesses to records are treated as SC too)', 'compare_exchange_weak never fails spuriously (a spurious failure only adds a retry)',
                       'four or more concurrent operations are outside the bound', 'C generated from clang-14 -O1 IR of the real header; translator validated against the real template on random single-thread sequences every run']
    # translator validation
    for N in Ns:
        for tls in (False, True):
            ok, n = validate_translation(N, tls, chk.seed + 3)
            chk.cov['interp_vs_native']['cases'] += 1
            if not ok:
                chk.cov['interp_vs_native']['mismatches'] += 1
                chk.broken_q('generated C and the real template disagree on a random sequence (N=%d tls=%s)' % (N, tls))
    with MPool(min(16, os.cpu_count() or 1)) as mp:
        results = mp.map(work, items, chunksize=1)
    for w in results:
        chk.merge_worker(w)
    chk.cov['scenarios'] = len(items)
    skipped = [x for w in results for x in w.get('not_explored', [])]
    chk.cov['not_explored'] = skipped
    for x in skipped:
        print('NOT-EXPLORED (no verdict claimed): ' + x)
    if len(skipped) * 4 > len(items):
        chk.broken_q('%d of %d scenarios hit the CBMC time cap: the machine is too loaded or the encoding regressed' % (len(skipped), len(items)))
    groups = {}
    for c in chk.candidates:
        groups.setdefault((c['kind'], tuple(c['failed'][:1])), []).append(c)
    for (kind, failed), cs in groups.items():
        cs.sort(key=lambda c: (c['N'], c['prefix'], sum(len(t) for t in c['threads'])))
        reproduced = False
        for c in cs[:6]:
            ok, info = replay(chk, c)
            if ok:
                key = 'cache:%s:%s' % (kind, failed[0][:50] if failed else '')
                c['key'] = key
                chk.report(key, '%s (%d scenarios with this counterexample class); real template: %s' % (c['what'], len(cs), info), c)
                reproduced = True
                break
        if not reproduced:
            chk.broken_q('CBMC counterexample class %r (%d scenarios) did not reproduce on the real template in 20000 random schedules per scenario' % (failed, len(cs)))
    return chk.finish()


def replay_main(path):
    c = json.load(open(path))['replay']
    chk = Check(PID, 'quick')
    ok, info = replay(chk, c)
    print('replay %s: %s (%s)' % (path, 'REPRODUCED' if ok else 'not reproduced', info))
    return 1 if ok else 0


if __name__ == '__main__':
    sys.exit(main(sys.argv[1] if len(sys.argv) > 1 else 'quick'))
