"""C17 -- node grids are monotone with the requested ends; Get_i brackets its argument (nx symbolic-free, values symbolic)."""
import sys, time, os, json
from fractions import Fraction
from multiprocessing import Pool
import numpy as np
import z3
from common import *
from irsym.harness import Harness, I, D, Buf, IBuf
from irsym import solver as S

PID = 'C17'
CPP = 'c17.cpp'
LIBS = ('SUNalg.cpp', 'SQuIDS.cpp', 'const.cpp')
FUNCS = ['SQuIDS::Set_xrange(double,double,std::string)', 'SQuIDS::Set_xrange(const std::vector<double>&)', 'SQuIDS::Get_i', 'SQuIDS::Get_x',
         'SQuIDS::Get_xrange', 'SQuIDS::SQuIDS(nx,dim,nrho,nscalar,ti) / ini / ~SQuIDS', 'Const::Const', 'std::is_sorted (inlined)']
U = Fraction(1, 2 ** 53)


def zc(conv, v):
    return conv.conv(v) if isinstance(v, Term) else conv.rconst(v)


def work(item):
    kind, nx, tier = item
    solver = S.Solver(timeout_ms=120000)
    h = Harness(CPP, LIBS, solver=solver)
    out = new_out(kind=kind, nx=nx)
    exstats = []
    a = T.var('a')
    b = T.var('b')
    x = T.var('x')

    def hold(name, detail=None):
        d = {'obligation': name, 'verdict': 'holds'}
        if detail:
            d['detail'] = detail
        out['obligations'].append(d)

    def cand(key, what, **kw):
        c = {'key': key, 'what': what, 'kind': kind, 'nx': nx}
        c.update(kw)
        out['candidates'].append(c)

    def modelvals(m, conv, names):
        return {n: frac_str(S.model_value(m, conv, n)) for n in names}

    if kind == 'lin':
        ps = h.run('h_grid', [I(nx), D(a), D(b), I(0), Buf('xs', n=nx)], prepare=lambda ex, st, bufs: st.pc.append(T.fcmp('olt', a, b)))
        exstats.append(h.last_ex.stats)
        ps = [p for p in ps]
        if len(ps) != 1 or ps[0].status != 'ok' or ps[0].ret != 0:
            cand('grid-linear:nx=%d:paths' % nx, 'Set_xrange(a,b,"linear") with a<b does not complete normally: %r' % [(p.status, p.ret, p.info) for p in ps])
        else:
            p = ps[0]
            out['witnesses']['reachability'] += 1
            xs = p.out('xs')
            conv = S.Conv('real')
            zs = [zc(conv, v) for v in xs]
            za, zb = conv.conv(a), conv.conv(b)
            viol = [zs[0] != za, zs[-1] != zb]
            for k in range(nx - 1):
                viol.append(zs[k] > zs[k + 1])
                viol.append((zs[k + 1] - zs[k]) * (nx - 1) != (zb - za))
            r, m, _ = solver.check(p.pc, conv=conv, extra=[z3.Or(viol)], label='linear grid nx=%d: ends exact, non-decreasing, equally spaced (exact reals, a<b symbolic)' % nx, want_model=True)
            if r == 'unsat':
                hold('linear grid nx=%d: x0=a, x_last=b, monotone, equally spaced (R)' % nx)
            elif r == 'sat':
                cand('grid-linear:nx=%d' % nx, 'linear grid is not {a + (b-a)k/(nx-1)}', input=modelvals(m, conv, ['a', 'b']))
            else:
                out['undecided'].append('linear grid nx=%d' % nx)
            # shape: a + (b-a)*k/(nx-1), one rounding per operation -- every operation is monotone in IEEE arithmetic, hence the nodes are
            # non-decreasing in k for every a<b.  Another formula may be equal in exact reals and still lose monotonicity or the end point in doubles.
            ref_nodes = [T.fadd(T.fdiv(T.fmul(T.fsub(b, a), Fraction(k)), Fraction(nx - 1)), a) for k in range(nx)]
            if all(xs[k] is ref_nodes[k] for k in range(nx)):
                hold('linear grid nx=%d: node k is the term a + (b-a)*k/(nx-1) (monotone in k in double arithmetic)' % nx)
            else:
                cand('grid-linear:shape', 'linear grid nodes are not computed as a + (b-a)*k/(nx-1) (first seen at nx=%d: node 1 = %s); equal in exact reals does not give monotone nodes in doubles' % (nx, T.show(xs[1], 5)), shape=True)
            # sensitivity: claim x_last == a must be refutable
            r = solver.check(p.pc, conv=conv, extra=[zs[-1] != za])
            if r == 'sat':
                out['witnesses']['sensitivity'] += 1
            else:
                out['broken'].append('sensitivity lin nx=%d' % nx)
            # E-mode: the computed end point is within 8u*max(|a|,|b|) of b
            conv = S.Conv('round')
            last = conv.conv(xs[-1]) if isinstance(xs[-1], Term) else conv.rconst(xs[-1])
            za, zb = conv.conv(a), conv.conv(b)
            mx = z3.If(z3.If(za >= 0, za, -za) >= z3.If(zb >= 0, zb, -zb), z3.If(za >= 0, za, -za), z3.If(zb >= 0, zb, -zb))
            bound = conv.rconst(8 * U) * mx
            old = solver.timeout_ms
            solver.timeout_ms = 30000 if tier == 'quick' else 120000
            r = solver.check([], conv=conv, extra=[za < zb, z3.Or(last - zb > bound, zb - last > bound)],
                             label='linear grid nx=%d: rounded end point within 8u*max(|a|,|b|) of b ((1+delta) model, %d roundings)' % (nx, len(conv.deltas)))
            solver.timeout_ms = old
            if r == 'unsat':
                hold('linear grid nx=%d: end point within 8 ulp-units of b in the (1+delta) rounding model (E)' % nx)
            elif r == 'sat':
                out['obligations'].append({'obligation': 'linear grid nx=%d end point (E)' % nx, 'verdict': 'candidate in the rounding model (not a violation unless replayed)'})
            else:
                out['obligations'].append({'obligation': 'linear grid nx=%d end point (E)' % nx, 'verdict': 'undecided by z3 within the time limit (informational; the R-domain clause holds)'})
    elif kind == 'log':
        ps = h.run('h_grid', [I(nx), D(a), D(b), I(1), Buf('xs', n=nx)], prepare=lambda ex, st, bufs: st.pc.append(T.fcmp('olt', a, b)))
        exstats.append(h.last_ex.stats)
        okp = True
        for p in ps:
            conv = S.Conv('real')
            za, zb = conv.conv(a), conv.conv(b)
            lim = conv.rconst(Fraction(1e-10))
            if p.status != 'ok':
                cand('grid-log:nx=%d:error' % nx, 'Set_xrange(a,b,"log") ends in %s %r' % (p.status, p.info))
                okp = False
                continue
            if p.ret == 1:
                r = solver.check(p.pc, conv=conv, extra=[za >= lim], label='log grid nx=%d: throws only for a < 1e-10' % nx)
                if r != 'unsat':
                    cand('grid-log:nx=%d:throws' % nx, 'log grid rejected for a >= 1e-10')
                    okp = False
                continue
            out['witnesses']['reachability'] += 1
            xs = p.out('xs')
            zs = [zc(conv, v) for v in xs]
            # lemma instantiation over the log/exp atoms that occur
            logs = [t for t in T.atoms_of(xs + p.pc, ('log',))]
            exps = [t for t in T.atoms_of(xs, ('exp',))]
            ax = []
            for l in logs:
                for e in exps:
                    ax.append(z3.Implies(conv.conv(e.args[0]) == conv.conv(l), conv.conv(e) == zc(conv, l.args[0])))
            for i1 in range(len(logs)):
                for i2 in range(len(logs)):
                    if i1 != i2:
                        y1, y2 = zc(conv, logs[i1].args[0]), zc(conv, logs[i2].args[0])
                        ax.append(z3.Implies(z3.And(y1 > 0, y1 < y2), conv.conv(logs[i1]) < conv.conv(logs[i2])))
            for i1 in range(len(exps)):
                ax.append(conv.conv(exps[i1]) > 0)
                for i2 in range(len(exps)):
                    if i1 != i2:
                        t1, t2 = conv.conv(exps[i1].args[0]), conv.conv(exps[i2].args[0])
                        ax.append(z3.Implies(t1 < t2, conv.conv(exps[i1]) < conv.conv(exps[i2])))
                        ax.append(z3.Implies(t1 == t2, conv.conv(exps[i1]) == conv.conv(exps[i2])))
            viol = [zs[0] != za, zs[-1] != zb]
            for k in range(nx - 1):
                viol.append(zs[k] > zs[k + 1])
            # equal spacing of the exponents
            la = [t for t in logs if t.args[0] is a]
            lb = [t for t in logs if t.args[0] is b]
            args_ok = all(isinstance(v, Term) and v.op == 'exp' for v in xs) and len(la) == 1 and len(lb) == 1
            if args_ok:
                ts = [conv.conv(v.args[0]) for v in xs]
                for k in range(nx - 1):
                    viol.append((ts[k + 1] - ts[k]) * (nx - 1) != conv.conv(lb[0]) - conv.conv(la[0]))
            else:
                cand('grid-log:shape', 'log grid nodes are not computed as exp(.) of an affine function of log a, log b (first seen at nx=%d); in exact reals with log/exp uninterpreted this cannot be shown equal to the documented nodes' % nx, shape=True)
                okp = False
                continue           # without the documented shape the uninterpreted-function model decides nothing: the candidate is confirmed natively
            r, m, _ = solver.check(p.pc, conv=conv, extra=ax + [za >= lim, z3.Or(viol)], label='log grid nx=%d: ends, monotone, equally spaced in log x (log/exp as monotone inverse UFs, %d lemma instances)' % (nx, len(ax)), want_model=True)
            if r == 'sat':
                cand('grid-log:nx=%d' % nx, 'log grid is not {exp(log a + (log b - log a)k/(nx-1))}', input=modelvals(m, conv, ['a', 'b']))
                okp = False
            elif r != 'unsat':
                out['undecided'].append('log grid nx=%d' % nx)
                okp = False
        if okp:
            hold('log grid nx=%d: x0=a, x_last=b, monotone, equally spaced in log x; a<1e-10 rejected (%d paths)' % (nx, len(ps)))
    elif kind == 'user':
        for ln in (nx - 1, nx, nx + 1):
            if ln < 1:
                continue
            prev = [Fraction(k) for k in range(nx)]
            vin = sym_vec('v', ln)
            ps = h.run('h_usergrid', [I(nx), I(ln), Buf('prev', prev), Buf('in', vin), Buf('out', n=nx)])
            exstats.append(h.last_ex.stats)
            okp = True
            for p in ps:
                if p.status != 'ok' or p.ret not in (0, 1):
                    cand('usergrid:nx=%d:len=%d:error' % (nx, ln), 'Set_xrange(vector) ends in %s ret=%r %r' % (p.status, p.ret, p.info), ln=ln)
                    okp = False
                    continue
                conv = S.Conv('real')
                zv = [conv.conv(v) for v in vin]
                srt = z3.And([zv[k] <= zv[k + 1] for k in range(ln - 1)]) if ln > 1 else z3.BoolVal(True)
                accept = z3.And(srt, z3.BoolVal(ln == nx))
                o = p.out('out')
                if p.ret == 0:
                    r = solver.check(p.pc, conv=conv, extra=[z3.Not(accept)], label='user grid nx=%d len=%d: accepted only if sorted and of size nx' % (nx, ln))
                    same = (ln == nx) and all(o[k] is vin[k] for k in range(nx))
                    if r != 'unsat' or not same:
                        cand('usergrid:nx=%d:len=%d:accepted' % (nx, ln), 'an unsorted/wrongly sized grid is accepted or not stored exactly', ln=ln)
                        okp = False
                    else:
                        out['witnesses']['reachability'] += 1
                else:
                    r = solver.check(p.pc, conv=conv, extra=[accept], label='user grid nx=%d len=%d: rejected only if unsorted or wrong size' % (nx, ln))
                    same = all((not isinstance(o[k], Term)) and o[k] == prev[k] for k in range(nx))
                    if r != 'unsat' or not same:
                        cand('usergrid:nx=%d:len=%d:rejected' % (nx, ln), 'a sorted grid of the right size is rejected, or the old grid is modified by a rejected call', ln=ln)
                        okp = False
            if okp:
                hold('user grid nx=%d len=%d: accepted iff sorted & size nx; stored exactly; old grid kept on rejection (%d paths)' % (nx, ln, len(ps)))
    elif kind in ('geti-lin', 'geti-sorted'):
        if kind == 'geti-lin':
            grid = [T.fadd(T.fdiv(T.fmul(T.fsub(b, a), Fraction(k)), Fraction(nx - 1)), a) for k in range(nx)]
            pre = [T.fcmp('olt', a, b)]
            names = ['a', 'b', 'x']
        else:
            grid = sym_vec('g', nx)
            pre = [T.fcmp('olt', grid[k], grid[k + 1]) for k in range(nx - 1)]
            names = ['g%d' % k for k in range(nx)] + ['x']
        ps = h.run('h_geti', [I(nx), Buf('grid', grid), D(x), IBuf('idx', [None])], prepare=lambda ex, st, bufs: st.pc.extend(pre))
        exstats.append(h.last_ex.stats)
        okp = True
        for p in ps:
            if p.status != 'ok' or p.ret not in (0, 1):
                cand('%s:nx=%d:error' % (kind, nx), 'Get_i ends in %s %r' % (p.status, p.info))
                okp = False
                continue
            conv = S.Conv('real')
            zg = [zc(conv, v) for v in grid]
            zx = conv.conv(x)
            inside = z3.And(zx >= zg[0], zx <= zg[-1])
            if kind == 'geti-sorted':
                # the same decision in the (1+delta) rounding model: the range test must be exact comparisons of x with the end nodes, so that the
                # end nodes themselves are accepted and their outer neighbours rejected whatever the rounding (a test computed through a rounded
                # centre/half-width is feasible to go wrong here)
                cr = S.Conv('round')
                zgr = [zc(cr, v) for v in grid]
                zxr = cr.conv(x)
                wrong = z3.Or(zxr == zgr[0], zxr == zgr[-1]) if p.ret == 1 else z3.Or(zxr < zgr[0], zxr > zgr[-1])
                rr = solver.check(p.pc, conv=cr, extra=[wrong], label='geti-sorted nx=%d, rounding model: %s' % (nx, 'an end node is never rejected' if p.ret == 1 else 'a point outside the range is never accepted'))
                if rr == 'sat':
                    cand('geti:range-test-rounding', 'the range test of Get_i is not an exact comparison with the end nodes: in the rounding model %s' % (
                        'x equal to an end node can be rejected' if p.ret == 1 else 'x outside [x_first,x_last] can be accepted'), ends=True)
                    okp = False
                elif rr != 'unsat':
                    out['undecided'].append('geti-sorted nx=%d rounding-model range test' % nx)
            if kind == 'geti-sorted' and nx <= 3:
                # and over IEEE binary64 values themselves (finite nodes and x, tiny and huge magnitudes included): a test that goes through
                # rounded arithmetic can underflow or overflow where exact comparisons cannot
                cf = S.Conv('fp')
                zgf = [zc(cf, v) for v in grid]
                zxf = cf.conv(x)
                fin_ = [z3.Not(z3.Or(z3.fpIsNaN(v_), z3.fpIsInf(v_))) for v_ in cf.vars.values() if z3.is_fp(v_)]
                wrongf = z3.And(z3.fpGEQ(zxf, zgf[0]), z3.fpLEQ(zxf, zgf[-1])) if p.ret == 1 else z3.Or(z3.fpLT(zxf, zgf[0]), z3.fpGT(zxf, zgf[-1]))
                big_ = solver.timeout_ms
                solver.timeout_ms = 120000
                rf, mf, _ = solver.check(p.pc, conv=cf, extra=fin_ + [wrongf], want_model=True,
                                         label='geti-sorted nx=%d over Float64 values: %s' % (nx, 'x inside the node range is never rejected' if p.ret == 1 else 'x outside the node range is never accepted'))
                solver.timeout_ms = big_
                if rf == 'sat':
                    vals = {}
                    for nm_ in names:
                        if nm_ in cf.vars:
                            q_ = mf.eval(z3.fpToReal(cf.vars[nm_]), model_completion=True)
                            vals[nm_] = frac_str(Fraction(q_.numerator_as_long(), q_.denominator_as_long()))
                    cand('geti:range-test-float64', 'over binary64 values Get_i %s' % ('rejects an x inside [x_first,x_last]' if p.ret == 1 else 'accepts an x outside [x_first,x_last]'), input=vals)
                    okp = False
                elif rf != 'unsat':
                    out['undecided'].append('geti-sorted nx=%d Float64 range test' % nx)
            if p.ret == 1:
                r, m, _ = solver.check(p.pc, conv=conv, extra=[inside], label='%s nx=%d: exception only for x outside [x_first,x_last]' % (kind, nx), want_model=True)
                if r == 'sat':
                    cand('%s:nx=%d:throws' % (kind, nx), 'Get_i throws for x inside the node range', input=modelvals(m, conv, names))
                    okp = False
                elif r != 'unsat':
                    out['undecided'].append('%s nx=%d throw path' % (kind, nx))
                    okp = False
                continue
            idx = p.out('idx')[0]
            if idx is None:
                out['broken'].append('%s nx=%d: index not written' % (kind, nx))
                okp = False
                continue
            out['witnesses']['reachability'] += 1
            if isinstance(idx, Term):
                zi = conv.conv(idx)
                good = z3.Or([z3.And(zi == k, zg[k] <= zx, zx <= zg[k + 1]) for k in range(nx - 1)])
            elif idx > nx - 2:
                good = z3.BoolVal(False)
            else:
                good = z3.And(zg[idx] <= zx, zx <= zg[idx + 1])
            r, m, _ = solver.check(p.pc, conv=conv, extra=[z3.Or(z3.Not(inside), z3.Not(good))],
                                   label='%s nx=%d: returned index brackets x (and x in range)' % (kind, nx), want_model=True)
            if r == 'sat':
                cand('%s:nx=%d' % (kind, nx), 'Get_i returns an index that does not bracket x', input=modelvals(m, conv, names))
                okp = False
            elif r != 'unsat':
                out['undecided'].append('%s nx=%d value path' % (kind, nx))
                okp = False
        if okp:
            hold('%s nx=%d: i<=nx-2, x_i<=x<=x_{i+1}, throws iff x outside the range (%d paths)' % (kind, nx, len(ps)))
    elif kind == 'geti-seq':
        # state carried between lookups: lookup on grid 1, re-grid, lookup on grid 2 -- the second answer must bracket x2 in grid 2
        g1, g2 = sym_vec('g', nx), sym_vec('q', nx)
        x1, x2 = T.var('x1'), T.var('x2')
        pre = [T.fcmp('olt', g1[k], g1[k + 1]) for k in range(nx - 1)] + [T.fcmp('olt', g2[k], g2[k + 1]) for k in range(nx - 1)]
        ps = h.run('h_geti_seq', [I(nx), Buf('grid1', g1), D(x1), Buf('grid2', g2), D(x2), I(0), IBuf('idx', [None])], prepare=lambda ex, st, bufs: st.pc.extend(pre))
        exstats.append(h.last_ex.stats)
        okp = True
        names = ['g%d' % k for k in range(nx)] + ['q%d' % k for k in range(nx)] + ['x1', 'x2']
        for p in ps:
            if p.status != 'ok' or p.ret not in (0, 1):
                cand('geti-seq:nx=%d:error' % nx, 'lookup / re-grid / lookup ends in %s %r' % (p.status, p.info), seq=True)
                okp = False
                continue
            conv = S.Conv('real')
            zq = [zc(conv, v) for v in g2]
            zx = conv.conv(x2)
            inside = z3.And(zx >= zq[0], zx <= zq[-1])
            if p.ret == 1:
                viol = inside
            else:
                idx = p.out('idx')[0]
                if isinstance(idx, Term):
                    zi = conv.conv(idx)
                    good = z3.Or([z3.And(zi == k, zq[k] <= zx, zx <= zq[k + 1]) for k in range(nx - 1)])
                elif idx is None or idx > nx - 2:
                    good = z3.BoolVal(False)
                else:
                    good = z3.And(zq[idx] <= zx, zx <= zq[idx + 1])
                viol = z3.Or(z3.Not(inside), z3.Not(good))
            r, m, _ = solver.check(p.pc, conv=conv, extra=[viol], want_model=True, label='lookup, re-grid, lookup (nx=%d): the second answer is decided by the new grid only' % nx)
            if r == 'sat':
                cand('geti-seq:nx=%d' % nx, 'after a lookup and a replacement of the grid, Get_i %s' % ('throws for x inside the new node range' if p.ret == 1 else 'returns an index that does not bracket x in the new grid (or accepts x outside it)'),
                     input=modelvals(m, conv, names), seq=True)
                okp = False
                break
            elif r != 'unsat':
                out['undecided'].append('geti-seq nx=%d' % nx)
                okp = False
        if okp:
            hold('lookup on one grid, re-grid, lookup: second answer brackets x in the new grid / throws iff outside, nx=%d (%d paths)' % (nx, len(ps)))
    out.update(worker_result(solver, exstats, functions=FUNCS))
    return out


def replay(chk, h, c):
    kind, nx = c['kind'], c['nx']
    chk.cov['replayed'] += 1
    inp = {k: float(Fraction(v)) for k, v in c.get('input', {}).items()}
    if c.get('seq'):
        g1 = [inp.get('g%d' % k, float(k)) for k in range(nx)]
        g2 = [inp.get('q%d' % k, float(k) + 0.5) for k in range(nx)]
        x1, x2 = inp.get('x1', g1[0]), inp.get('x2', g2[0])
        ret, o = h.native('h_geti_seq', [I(nx), Buf('grid1', g1), D(x1), Buf('grid2', g2), D(x2), I(0), IBuf('idx', [0])])
        inside = g2[0] <= x2 <= g2[-1]
        if ret == 1:
            return inside, 1.0
        i = o['idx'][0]
        c['native'] = {'grid1': g1, 'x1': x1, 'grid2': g2, 'x2': x2, 'returned': i}
        return (not inside) or i > nx - 2 or not (g2[i] <= x2 <= g2[i + 1]), 1.0
    if c.get('ends'):
        # battery of end points on exactly representable and awkward ranges: a and b accepted (last interval for b), their outer neighbours rejected
        for (a_, b_) in ((0.001, 1.0), (1.5, 7.3), (0.1, 1.0), (1.0, 10.0), (0.01, 100.0), (1.0, 1000.0), (-3.0, 7.5), (0.0, 1.0)):
            for n_ in (2, 5, 17):
                ret, o = h.native('h_grid', [I(n_), D(a_), D(b_), I(0), Buf('xs', n=n_)])
                grid = o['xs']
                for xv, inside in ((grid[0], True), (grid[-1], True), (float(np.nextafter(grid[0], -np.inf)), False), (float(np.nextafter(grid[-1], np.inf)), False)):
                    ret, o2 = h.native('h_geti', [I(n_), Buf('grid', grid), D(xv), IBuf('idx', [0])])
                    if (ret == 0) != inside or (inside and not (grid[o2['idx'][0]] <= xv <= grid[o2['idx'][0] + 1])):
                        c['native'] = {'grid ends': [grid[0], grid[-1]], 'nx': n_, 'x': xv, 'accepted': ret == 0, 'expected accepted': inside}
                        return True, 1.0
        return False, 0.0
    if kind in ('geti-lin', 'geti-sorted'):
        if kind == 'geti-lin':
            a, b = inp['a'], inp['b']
            ret, o = h.native('h_grid', [I(nx), D(a), D(b), I(0), Buf('xs', n=nx)])
            grid = o['xs']
        else:
            grid = [inp['g%d' % k] for k in range(nx)]
        x = inp['x']
        ret, o = h.native('h_geti', [I(nx), Buf('grid', grid), D(x), IBuf('idx', [0])])
        inside = grid[0] <= x <= grid[-1]
        if ret == 1:
            return inside, 1.0
        i = o['idx'][0]
        bad = (not inside) or i > nx - 2 or not (grid[i] <= x <= grid[i + 1])
        c['native'] = {'grid': grid, 'x': x, 'returned': i}
        return bad, 1.0
    if kind == 'lin' and c.get('shape'):
        # stress battery for a reshaped formula: windows whose node spacing is about one ulp, many nodes, awkward ends
        for (a_, b_, n_) in ((1e9, 1e9 + 1e-4, 527), (1000.0, 1000.0000000001, 544), (1.0, 1.0 + 14 * 2.0 ** -52, 14), (1.0, 1.0 + 2.0 ** -52, 14), (0.0, 1.0, 1000), (-3.0, 7.5, 33),
                            (1e-3, 1e3, 20000), (0.1, 0.7, 7), (1e9, 1e9 + 3e-6, 101), (5e15, 5e15 + 64, 97)):
            ret, o = h.native('h_grid', [I(n_), D(a_), D(b_), I(0), Buf('xs', n=n_)])
            xs = o['xs']
            bad = [k for k in range(n_ - 1) if xs[k] > xs[k + 1]]
            ulps = abs(xs[-1] - b_) / np.spacing(b_)
            if ret != 0 or bad or xs[0] != a_ or ulps > 8:
                c['native'] = {'a': a_, 'b': b_, 'nx': n_, 'decreasing at': bad[:3], 'x0 == a': xs[0] == a_, 'last node off b by ulp': float(ulps)}
                return True, 1.0
        return False, 0.0
    if kind == 'lin':
        a, b = inp.get('a', 0.0), inp.get('b', 1.0)
        ret, o = h.native('h_grid', [I(nx), D(a), D(b), I(0), Buf('xs', n=nx)])
        xs = o['xs']
        want = [a + (b - a) * k / (nx - 1) for k in range(nx)]
        dev = max(abs(u - v) for u, v in zip(xs, want)) / max(abs(a), abs(b), 1e-300)
        return (ret != 0) or dev > 1e-9, dev
    if kind == 'log':
        a, b = inp.get('a', 1.0), inp.get('b', 10.0)
        ret, o = h.native('h_grid', [I(nx), D(a), D(b), I(1), Buf('xs', n=nx)])
        if a < 1e-10:
            return ret != 1, 1.0
        xs = o['xs']
        want = [np.exp(np.log(a) + (np.log(b) - np.log(a)) * k / (nx - 1)) for k in range(nx)]
        dev = max(abs(u - v) / abs(v) for u, v in zip(xs, want))
        if (ret != 0) or dev > 1e-9:
            return True, dev
        if c.get('shape'):
            # a differently shaped but real-equivalent formula can only differ by rounding: the property allows "a few units in the last place" at the
            # end node for EVERY nx, so the native confirmation looks at large node counts (allowance: 8 (1+|log a|+|log b|) ulp of b, which
            # covers exp(log b) itself on the unmodified code)
            worst = 0.0
            for (a_, b_) in ((1.0, 10.0), (1e-3, 1e3), (0.5, 2.0), (3.0, 7.0e5)):
                for n_ in (1000, 20000, 200000):
                    ret, o = h.native('h_grid', [I(n_), D(a_), D(b_), I(1), Buf('xs', n=n_)])
                    if ret != 0:
                        return True, float('inf')
                    xs = o['xs']
                    ulps = abs(xs[-1] - b_) / np.spacing(b_)
                    allow = 8 * (1 + abs(np.log(a_)) + abs(np.log(b_)))
                    worst = max(worst, ulps / allow)
                    if ulps > allow or any(xs[k] > xs[k + 1] for k in range(n_ - 1)) or xs[0] != a_:
                        c['native'] = {'a': a_, 'b': b_, 'nx': n_, 'last_node_off_b_by_ulp': float(ulps), 'allowance_ulp': float(allow)}
                        return True, float(ulps)
            return False, worst
        return False, dev
    if kind == 'user':
        ln = c['ln']
        rng = np.random.RandomState(chk.seed)
        bad = False
        for trial in range(20):
            v = np.sort(rng.uniform(-1, 1, ln))
            if trial % 2:
                rng.shuffle(v)
            prev = np.arange(nx) * 1.0
            ret, o = h.native('h_usergrid', [I(nx), I(ln), Buf('prev', prev), Buf('in', v), Buf('out', n=nx)])
            acc = ln == nx and all(v[k] <= v[k + 1] for k in range(ln - 1))
            if acc != (ret == 0):
                bad = True
            elif acc and list(o['out']) != list(v):
                bad = True
            elif not acc and list(o['out']) != list(prev):
                bad = True
        return bad, 1.0
    return False, 0.0


def main(tier):
    chk = Check(PID, tier)
    chk.candidates = []
    top = 17 if tier == 'quick' else 33
    nxs = list(range(2, top + 1))
    chk.cov['bounds'] = {'nx': '2..%d (linear, log, lookup on exact linear grids and on arbitrary strictly increasing symbolic grids)' % top,
                         'user grids': 'nx 2..6, lengths nx-1, nx, nx+1, all values symbolic', 'a,b,x': 'symbolic reals, a<b'}
    chk.cov['domains'] = ['R (exact reals) for grid shape and lookup', 'E ((1+delta) rounding model) for the end point of the linear grid and for the range test of Get_i at the end nodes',
                          'log/exp: strictly monotone mutually inverse uninterpreted functions (lemma instances listed per query)']
    chk.cov['lemmas'] = ['exp(t) = y when t = log(y)', 'y1<y2 => log y1 < log y2', 't1<t2 => exp t1 < exp t2', 'exp t > 0']
    chk.cov['stubs'] = ['std::string ctor/compare: concrete intrinsics', 'operator new/new[]: fresh blocks', 'GSL matrix alloc/free (Const members): shim']
    chk.assumptions = ['finite non-NaN inputs', 'the lookup is decided on exact-real grids: uniform grids as the exact terms a+(b-a)k/(nx-1), other grids as arbitrary strictly increasing values',
                       'clang-14 -O1 IR is the semantics of the source (interpreter-vs-native diff every run)']
    h = Harness(CPP, LIBS)
    rng = np.random.RandomState(chk.seed + 5)
    cases = []
    for nx in (2, 3, 4, 7, 9):
        a, b = sorted(rng.uniform(0.5, 20, 2))
        cases.append(('h_grid', [I(nx), D(a), D(b), I(0), Buf('xs', n=nx)], ['xs']))
        cases.append(('h_grid', [I(nx), D(a), D(b), I(1), Buf('xs', n=nx)], ['xs']))
        g = sorted(rng.uniform(0, 10, nx))
        cases.append(('h_geti', [I(nx), Buf('grid', g), D(float(rng.uniform(g[0], g[-1]))), IBuf('idx', [0])], ['idx']))
    generic_interp_vs_native(chk, h, cases)
    items = []
    for nx in nxs:
        items += [('lin', nx, tier), ('log', nx, tier), ('geti-lin', nx, tier), ('geti-sorted', nx, tier)]
        if nx <= (5 if tier == 'quick' else 8):
            items.append(('geti-seq', nx, tier))
    for nx in range(2, 7):
        items.append(('user', nx, tier))
    with Pool(min(16, os.cpu_count() or 1)) as pool:
        results = pool.map(work, items, chunksize=1)
    for w in results:
        chk.merge_worker(w)
    seen = set()
    for c in chk.candidates:
        if c['key'] in seen:
            continue
        seen.add(c['key'])
        ok, dev = safe_replay(replay, chk, h, c)
        if ok:
            chk.report(c['key'], '%s; reproduced natively%s' % (c['what'], (' (%r)' % c['native']) if 'native' in c else ''), c)
        elif c.get('shape'):
            # a differently written node formula that passes the native stress battery: nothing shows a violation (for the linear grid the
            # exact-real clauses above still decide ends/spacing); recorded, not an alarm
            chk.obligation('%s -- native stress battery (node spacing ~1 ulp, up to 200000 nodes) clean: accepted' % c['what'][:160], 'holds natively (not solver-decided)')
        else:
            chk.broken_q('counterexample for %s did not reproduce natively: encoding discrepancy' % c['key'])
    return chk.finish()


def replay_main(path):
    c = json.load(open(path))['replay']
    chk = Check(PID, 'quick')
    ok, dev = safe_replay(replay, chk, Harness(CPP, LIBS), c)
    print('replay %s: %s' % (path, 'REPRODUCED' if ok else 'not reproduced'))
    return 1 if ok else 0


if __name__ == '__main__':
    sys.exit(main(sys.argv[1] if len(sys.argv) > 1 else 'quick'))
