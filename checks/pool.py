"""Driver for the pool harness (harness/pool.cpp): symbolic chaining of single public-API operations, raw inspection
of SU_vector objects, native replay of an operation history under ASan/UBSan."""
import os, subprocess, sys, json
from fractions import Fraction
from common import *
from irsym import build, llparse as L, term as T, solver as S
from irsym.exec import Executor, UNDEF, PathResult
from irsym.harness import load_module
from irsym.term import Term

OPS = dict(DEFAULT=1, SIZED=2, EXTERNAL=3, FROMLIST=4, ALIGNED=5, COPYCON=6, MOVECON=7, DESTROY=8, COPYASSIGN=9, MOVEASSIGN=10,
           SETBACKING=11, EXPR=12, PLAININC=13, PLAINDEC=14, SCALE=15, DIVIDE=16, EQ=17, TRACE=18, FILL=19, FROMMATRIX=20, FACTORY=21,
           ROTMAT=22, CLEARCACHE=23, PRINT=24, GETMATRIX=25, COMPONENTS=26, ROTATE=27, UNARYVIEW=28, CONVERT=31, CHURN=32, GEXPR=33)
OPNAME = {v: k for k, v in OPS.items()}
EXPRS = {0: 'a+b', 1: 'move(a)+b', 2: 'a+move(b)', 3: 'move(a)+move(b)', 4: 'a-b', 5: 'move(a)-b', 6: '-a', 7: '-move(a)', 8: 'a*c', 9: 'move(a)*c',
         10: 'c*a', 11: 'c*move(a)', 12: 'iCommutator(a,b)', 13: 'ACommutator(a,b)', 14: 'a.Evolve(b,c)', 15: 'a.Evolve(buf)', 16: 'ElementwiseProduct(a,b)',
         17: 'ElementwiseProduct(move(a),b)', 18: 'ElementwiseProduct(a,move(b))', 19: 'ElementwiseProduct(move(a),move(b))', 20: 'ElementwiseOperation(user,a,b)',
         21: 'ElementwiseOperation(user,a,move(b))', 22: 'ElementwiseOperation(user,move(a),b)', 23: 'ElementwiseOperation(user,move(a),move(b))'}
STMTS = {0: 'v = ', 1: 'v += ', 2: 'v -= ', 3: 'SU_vector v(', }
CONSTRUCTS = {OPS['DEFAULT'], OPS['SIZED'], OPS['EXTERNAL'], OPS['FROMLIST'], OPS['ALIGNED'], OPS['COPYCON'], OPS['MOVECON'], OPS['FROMMATRIX'], OPS['FACTORY']}
SLOT_SIZE = 32
BUF_DOUBLES = 80


class Ins:
    """one pool instruction"""

    def __init__(self, op, t=-1, s1=-1, s2=-1, x=0, y=0, c=0.0, ext=-1, preload=None):
        self.op = OPS[op] if isinstance(op, str) else op
        self.t, self.s1, self.s2, self.x, self.y, self.c, self.ext = t, s1, s2, x, y, c, ext
        self.preload = preload

    def constructs(self):
        return self.op in CONSTRUCTS or (self.op == OPS['EXPR'] and self.x // 32 == 3) or (self.op == OPS['CONVERT'] and self.x in (0, 5)) or (self.op == OPS['GEXPR'] and self.x // 1024 == 3)

    def describe(self):
        nm = OPNAME[self.op]
        if self.op == OPS['GEXPR']:
            return '%sguarantee<%d>(%s)%s  [v=slot%d a=slot%d b=slot%d]' % (STMTS[self.x // 1024], (self.x // 32) % 32, EXPRS[self.x % 32], ')' if self.x // 1024 == 3 else '', self.t, self.s1, self.s2)
        if self.op == OPS['EXPR']:
            return '%s%s%s  [v=slot%d a=slot%d b=slot%d]' % (STMTS[self.x // 32], EXPRS[self.x % 32], ')' if self.x // 32 == 3 else '', self.t, self.s1, self.s2)
        return '%s t=%d s1=%d s2=%d x=%d y=%d ext=%d' % (nm, self.t, self.s1, self.s2, self.x, self.y, self.ext)

    def line(self):
        c = self.c
        if isinstance(c, Term):
            c = 0.5
        s = '%d %d %d %d %d %d %.17g %d' % (self.op, self.t, self.s1, self.s2, self.x, self.y, float(c), self.ext)
        if self.preload is not None:
            s += ' = ' + ' '.join('%.17g' % float(v) for v in self.preload)
        return s

    def tojson(self):
        return {'op': OPNAME[self.op], 't': self.t, 's1': self.s1, 's2': self.s2, 'x': self.x, 'y': self.y, 'c': str(self.c), 'ext': self.ext,
                'text': self.describe()}


class Pool:
    def __init__(self, nslots=3, nbufs=3, solver=None, align='aligned', domain='R'):
        self.ir = build.ir_for('pool.cpp', ('SUNalg.cpp',), ('gsl_shim.c',))
        self.mod = load_module(self.ir)
        self.solver = solver or S.Solver()
        self.ex = Executor(self.mod, domain, self.solver)
        self.nslots = nslots
        self.nbufs = nbufs
        self.align = align
        self.stats = []

    def initial(self, buf_values=None):
        """state with dead slots and external buffers holding symbolic doubles e<b>_<k>"""
        st = self.ex.new_state()
        st.align_policy = self.align
        slots = st.user_buffer(SLOT_SIZE * self.nslots, 'slots', align=16)
        self.slot_addr = [slots.base + SLOT_SIZE * i for i in range(self.nslots)]
        self.buf_addr = []
        self.buf_init = []
        for b in range(self.nbufs):
            o = st.user_buffer(8 * BUF_DOUBLES, 'ext%d' % b, align=32)
            vals = []
            for k in range(BUF_DOUBLES):
                v = T.var('e%d_%d' % (b, k)) if buf_values is None else buf_values[b][k]
                o.cells[8 * k] = (8, v)
                vals.append(v)
            self.buf_addr.append(o.base)
            self.buf_init.append(vals)
        res = st.user_buffer(16, 'res')
        self.res_addr = res.base
        return st

    def args_for(self, ins):
        sa = lambda k: self.slot_addr[k] if k >= 0 else 0
        c = ins.c
        if not isinstance(c, Term):
            c = self.ex.dom.const(float(c))
        return [ins.op, sa(ins.t), sa(ins.s1), sa(ins.s2), ins.x, ins.y, c, self.buf_addr[ins.ext] if ins.ext >= 0 else 0, self.res_addr]

    def step(self, st, ins):
        """-> list of PathResult (forks over allocation alignment when policy is 'fork')"""
        if ins.preload is not None and ins.ext >= 0:
            st = st.clone()
            o = st.find(self.buf_addr[ins.ext])
            for k, v in enumerate(ins.preload):
                o.cells[8 * k] = (8, v if isinstance(v, Term) else self.ex.dom.const(float(v)))
        rs = self.ex.run(st, 'h_op', self.args_for(ins))
        return rs

    # ---- raw inspection of an SU_vector object
    def raw(self, st, k):
        a = self.slot_addr[k]
        ld = lambda off, ty: self.ex.load(st, a + off, ty)
        return {'dim': ld(0, L.I32), 'size': ld(4, L.I32), 'components': ld(8, L.I64), 'ptr_offset': ld(16, L.I8), 'isinit': ld(17, L.I8), 'isinit_d': ld(18, L.I8)}

    def values(self, st, k):
        r = self.raw(st, k)
        p, n = r['components'], r['size']
        if not isinstance(n, int) or n == 0:
            return []
        if not isinstance(p, int) or p == 0:
            return None
        o = st.find(p)
        if o is None or not o.live or p + 8 * n > o.base + o.size:
            return None
        out = []
        for i in range(n):
            c = o.cells.get(p - o.base + 8 * i)
            out.append(None if c is None else c[1])
        return out

    def buffer_values(self, st, b, n=BUF_DOUBLES):
        o = st.find(self.buf_addr[b])
        return [o.cells.get(8 * k, (8, None))[1] for k in range(n)]

    def which_buffer(self, addr):
        for b, base in enumerate(self.buf_addr):
            if base <= addr < base + 8 * BUF_DOUBLES:
                return b
        return None

    def read_res(self, st):
        o = st.find(self.res_addr)
        c = o.cells.get(0)
        return None if c is None else c[1]

    def quiesce(self, st, live_slots, leaks=True):
        """destroy every live slot, drain the cache; returns (ok, info) with the ledger verdict"""
        cur = [st]
        for k in live_slots:
            nxt = []
            for s in cur:
                for r in self.step(s, Ins('DESTROY', t=k)):
                    if r.status != 'ok':
                        return False, 'destroying slot %d: %s %r' % (k, r.status, r.info)
                    nxt.append(r.state)
            cur = nxt
        for s in cur:
            for r in self.step(s, Ins('CLEARCACHE')):
                if r.status != 'ok':
                    return False, 'clear_mem_cache: %s %r' % (r.status, r.info)
                leaked = r.state.live_heap(('new[]', 'new') if leaks == 'new' else ('new[]', 'new', 'malloc'))
                if leaked and leaks:
                    return False, 'leak: %d block(s) never released (%s)' % (len(leaked), ', '.join('%s %d bytes' % (o.kind, o.size) for o in leaked[:3]))
        return True, None


# ---------------------------------------------------------------------------------------- native replay
def native_driver(sanitize=True):
    """replay driver (pool.cpp with -DPOOL_MAIN + the library sources), built under ASan/UBSan; objects compiled in parallel"""
    with build._Lock('pooldrv.' + build.repo_hash()):
        os.makedirs(build.BUILD, exist_ok=True)
        src = os.path.join(build.VERIF, 'harness', 'pool.cpp')
        key = build.file_hash(src, extra=build.repo_hash() + str(sanitize))
        out = os.path.join(build.BUILD, 'pooldrv.%s.%s' % ('san' if sanitize else 'plain', key))
        if os.path.exists(out):
            return out
        build._prune('pooldrv.%s.' % ('san' if sanitize else 'plain'), key)
        flags = ['-fsanitize=address,undefined', '-fno-omit-frame-pointer', '-O0', '-g1'] if sanitize else ['-O2']
        jobs = [(src, ['-DPOOL_MAIN'])] + [(os.path.join(build.REPO, 'src', s_), []) for s_ in ('SUNalg.cpp', 'const.cpp', 'MatrixExp.cpp')]
        procs = []
        objs = []
        for i, (f, extra) in enumerate(jobs):
            o = out + '.%d.o' % i
            objs.append(o)
            cmd = ['g++', '-std=c++11'] + flags + extra + ['-I' + build.REPO + '/include', '-c', f, '-o', o]
            procs.append((subprocess.Popen(cmd, stdout=subprocess.PIPE, stderr=subprocess.PIPE, text=True), cmd))
        for p_, cmd in procs:
            so, se = p_.communicate()
            if p_.returncode != 0:
                sys.stderr.write(se[-3000:])
                raise RuntimeError('native driver build failed: ' + ' '.join(cmd[:4]))
        if build.file_hash(src, extra=build.repo_hash() + str(sanitize)) != key:
            for o in objs:
                os.remove(o)
            raise RuntimeError('the source tree %s changed during the build of the replay driver; nothing was cached' % build.REPO)
        build.sh(['g++'] + flags + objs + ['-lgsl', '-lgslcblas', '-lm', '-o', out])
        for o in objs:
            os.remove(o)
        return out


def native_replay(program, nslots=3, nbufs=3, sanitize=True, tag='replay'):
    """run the history natively; returns dict(rc list, observations per step, sanitizer report or None, exit status)"""
    drv = native_driver(sanitize)
    path = os.path.join(build.BUILD, '%s.%d.prog' % (tag, os.getpid()))
    with open(path, 'w') as f:
        f.write('%d %d\n' % (nslots, nbufs))
        for ins in program:
            f.write(ins.line() + '\n')
    env = dict(os.environ)
    env['ASAN_OPTIONS'] = 'detect_leaks=1:halt_on_error=1:abort_on_error=0:exitcode=66'
    env['UBSAN_OPTIONS'] = 'halt_on_error=1:exitcode=67:print_stacktrace=0'
    p = subprocess.run([drv, path], capture_output=True, text=True, env=env, timeout=120)
    os.remove(path)
    steps = []
    cur = None
    for ln in p.stdout.split('\n'):
      try:          # the output may be cut in the middle of a line when a sanitizer stops the process
        w = ln.split()
        if ln.startswith('step '):
            cur = {'rc': int(w[3]), 'res': int(w[5]), 'slots': {}, 'bufs': {}}
            steps.append(cur)
        elif ln.startswith('  slot ') and cur is not None:
            k = int(w[1])
            if w[2] == 'dead':
                cur['slots'][k] = None
            else:
                vals = [float(x) for x in w[9:]]
                cur['slots'][k] = {'dim': int(w[3]), 'size': int(w[5]), 'ext': int(w[7]), 'vals': vals}
        elif ln.startswith('  raw ') and cur is not None and len(w) >= 12:
            cur.setdefault('raw', {})[int(w[1])] = {'dim': int(w[3]), 'size': int(w[5]), 'isinit': int(w[7]), 'isinit_d': int(w[9]), 'comp': int(w[11])}
        elif ln.startswith('  buf ') and cur is not None and len(w) >= 3:
            cur['bufs'][int(w[1])] = [float(x) for x in w[3:]]
      except (IndexError, ValueError):
        continue
    report = None
    # representation invariants on the native objects (the same as in the symbolic check_state)
    inv = None
    for n_, st_ in enumerate(steps):
        for k_, r_ in (st_.get('raw') or {}).items():
            if r_['isinit'] and r_['isinit_d']:
                inv = inv or 'step %d: slot %d is flagged both as owning its storage and as bound to user storage' % (n_, k_)
            elif r_['size'] != r_['dim'] * r_['dim']:
                inv = inv or 'step %d: slot %d has dimension %d but size %d' % (n_, k_, r_['dim'], r_['size'])
            elif r_['isinit'] and not r_['comp']:
                inv = inv or 'step %d: slot %d is flagged as owning its storage but holds no block' % (n_, k_)
            elif not r_['isinit'] and not r_['isinit_d'] and r_['size'] != 0:
                inv = inv or 'step %d: slot %d neither owns nor borrows storage but has size %d' % (n_, k_, r_['size'])
    if p.returncode != 0 or 'ERROR: AddressSanitizer' in p.stderr or 'runtime error' in p.stderr or 'LeakSanitizer' in p.stderr:
        report = p.stderr[-1500:]
    return {'steps': steps, 'exit': p.returncode, 'report': report, 'finished': 'done' in p.stdout, 'invariant': inv}


def pool_interp_vs_native(chk, programs, nslots=5, nbufs=3):
    """translation validation for the pool harness: the IR interpreter in concrete-double mode against the g++/ASan build,
    step by step (return codes, dimensions, component values, buffer contents)"""
    import random
    rng = random.Random(chk.seed + 99)
    for prog in programs:
        bufs = [[float(rng.randint(-40, 40)) / 8 for _ in range(BUF_DOUBLES)] for _ in range(nbufs)]
        pool = Pool(nslots=nslots, nbufs=nbufs, domain='C')
        st = pool.initial(buf_values=bufs)
        full = []
        for b in range(nbufs):
            full += [Ins('EXTERNAL', t=nslots - 1, x=2, ext=b, preload=bufs[b]), Ins('DESTROY', t=nslots - 1)]
        full += prog
        res = native_replay(full, nslots=nslots, nbufs=nbufs)
        chk.cov['interp_vs_native']['cases'] += 1
        ok = res['report'] is None and len(res['steps']) == len(full)
        live = [False] * nslots
        if ok:
            for n, ins in enumerate(full):
                rs = pool.step(st, ins)
                if len(rs) != 1 or rs[0].status != 'ok':
                    ok = False
                    break
                st = rs[0].state
                obs = res['steps'][n]
                if rs[0].retval != obs['rc']:
                    ok = False
                    break
                if ins.constructs() and obs['rc'] == 0:
                    live[ins.t] = True
                if ins.op == OPS['DESTROY']:
                    live[ins.t] = False
                for k in range(nslots):
                    if not live[k]:
                        continue
                    raw = pool.raw(st, k)
                    o = obs['slots'].get(k)
                    vals = pool.values(st, k)
                    if o is None or raw['dim'] != o['dim'] or vals is None or any(v is None or float(v) != w for v, w in zip(vals, o['vals'])):
                        ok = False
                for b in range(nbufs if n >= 2 * nbufs else 0):
                    mine = pool.buffer_values(st, b, 37)
                    if any(float(v) != w for v, w in zip(mine, obs['bufs'][b])):
                        ok = False
                if not ok:
                    break
        if not ok:
            chk.cov['interp_vs_native']['mismatches'] += 1
            chk.broken_q('pool harness: interpreter and native (ASan) build disagree on %s (%s)' % (' ; '.join(i.describe() for i in prog), (res['report'] or '')[:200]))


def sample_programs(dA=2, dB=3):
    """a few representative histories for the interpreter-vs-native diff"""
    c = 1.75
    return [
        [Ins('EXTERNAL', t=0, x=dA, ext=0), Ins('COPYCON', t=1, s1=0), Ins('EXPR', t=2, s1=0, s2=1, x=96 + 0), Ins('EXPR', t=1, s1=2, s2=0, x=12), Ins('DESTROY', t=2)],
        [Ins('EXTERNAL', t=0, x=dB, ext=1), Ins('SIZED', t=1, x=dA), Ins('COPYASSIGN', t=1, s1=0), Ins('EXPR', t=1, s1=1, s2=0, x=64 + 10, c=c), Ins('MOVECON', t=2, s1=1), Ins('EQ', t=2, s1=0)],
        [Ins('FROMLIST', t=0, x=dA * dA, ext=2), Ins('FROMLIST', t=1, x=7, ext=2), Ins('EXPR', t=1, s1=0, s2=0, x=96 + 9, c=c), Ins('PLAININC', t=1, s1=0), Ins('MOVEASSIGN', t=0, s1=1)],
        [Ins('EXTERNAL', t=0, x=dA, ext=0), Ins('EXTERNAL', t=1, x=dB, ext=1), Ins('EXPR', t=2, s1=0, s2=1, x=96 + 0), Ins('PLAININC', t=0, s1=1), Ins('COPYASSIGN', t=0, s1=1), Ins('FACTORY', t=2, x=(2 << 16) | dB, y=2)],
        [Ins('SIZED', t=0, x=dB), Ins('FILL', t=0, c=c), Ins('ROTATE', t=0, s1=0, x=0, y=2, c=0.5), Ins('UNARYVIEW', t=0, x=0), Ins('UNARYVIEW', t=0, s1=0, x=2), Ins('COMPONENTS', t=0, ext=2), Ins('SETBACKING', t=0, ext=1)],
        [Ins('DEFAULT', t=0), Ins('PRINT', t=0), Ins('UNARYVIEW', t=0, x=0), Ins('SIZED', t=1, x=dA), Ins('COPYASSIGN', t=1, s1=0), Ins('CHURN', x=dA, y=34), Ins('ALIGNED', t=2, x=dA, y=1), Ins('CLEARCACHE')],
    ]
