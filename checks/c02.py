"""C02 -- iCommutator / ACommutator / scalar product equal their matrix definitions (d = 2..6, all components symbolic)."""
import sys, time, os
from fractions import Fraction
from multiprocessing import Pool
import numpy as np
from common import *
from irsym.harness import Harness, I, D, Buf
from irsym import solver as S

PID = 'C02'
CPP = 'c02.cpp'
LIBS = ('SUNalg.cpp',)
FUNCS = ['h_icomm', 'h_acomm', 'h_trace', 'h_s2m', 'squids::detail::iCommutatorProxy::compute', 'squids::detail::ACommutatorProxy::compute',
         'squids::SUTrace<0>', 'squids::SU_vector::operator*(const SU_vector&)', 'squids::SU_vector::GetGSLMatrix',
         'squids::SU_vector::assignProxy<AssignWrapper,...>', 'squids::SU_vector::SU_vector(unsigned,double*)']


def tol_for(d):
    # literal noise: every monomial coefficient of the residual carries O(ulp) error from the generated
    # decimal literals (1.7320508075688772, 0.5773502691896258, ...); at most d^4 monomials per entry.
    return Fraction(1, 10 ** 13)


def work(item):
    d, tier = item
    t0 = time.time()
    solver = S.Solver(timeout_ms=120000)
    h = Harness(CPP, LIBS, solver=solver)
    ctx = PolyCtx()
    n = d * d
    out = {'d': d, 'obligations': [], 'candidates': [], 'undecided': [], 'broken': [], 'witnesses': {'reachability': 0, 'sensitivity': 0}}
    exstats = []
    re, im, xat, st = s2m_map(h, d, ctx)
    exstats.append(st)
    a = sym_vec('a', n)
    b = sym_vec('b', n)
    pa = [ctx.poly(x) for x in a]
    pb = [ctx.poly(x) for x in b]
    MA = apply_map(re, im, xat, pa, d)
    MB = apply_map(re, im, xat, pb, d)
    AB = matmul(MA, MB, d)
    BA = matmul(MB, MA, d)
    res = Residual(solver, ctx, box=1, tol=tol_for(d))
    aat = set(ctx.atom(x) for x in a)
    bat = set(ctx.atom(x) for x in b)

    RAW = {}

    def run_op(fn, x, y):
        ps = h.run(fn, [I(d), Buf('a', x), Buf('b', y), Buf('o', n=n)])
        exstats.append(h.last_ex.stats)
        if len(ps) != 1 or ps[0].status != 'ok' or ps[0].ret != 0:
            out['broken'].append('%s d=%d: unexpected paths %r' % (fn, d, ps))
            return None
        vals = ps[0].out('o')
        if any(v is None for v in vals):
            out['candidates'].append({'key': '%s:d=%d:unwritten-component' % (fn, d), 'what': '%s leaves an output component unwritten' % fn,
                                      'kind': 'unwritten', 'd': d, 'fn': fn})
            return None
        out['witnesses']['reachability'] += 1
        RAW.setdefault(fn, vals)
        return [ctx.poly(v) for v in vals]

    def decide(name, polys, fn, sens_poly=None):
        """polys: residuals that must be within tol on the box"""
        t1 = time.time()
        r = res.relax_query(polys, '%s d=%d (linear relaxation of the normal-form residual, %d entries)' % (name, d, len(polys)))
        verdict = r
        if r == 'unsat':
            out['obligations'].append({'obligation': '%s d=%d' % (name, d), 'verdict': 'holds', 'seconds': round(time.time() - t1, 3),
                                       'max_l1': float(max([p.l1() for p in polys] or [0]))})
        else:
            # locate offending entries and ask for a true witness
            found = False
            for k, p in enumerate(polys):
                if p.l1() <= res.tol:
                    continue
                rr, env = res.exact_query(p, '%s d=%d entry %d (NRA witness query)' % (name, d, k), timeout_ms=60000)
                if rr == 'sat':
                    found = True
                    inp = {}
                    for at, v in env.items():
                        inp[ctx.atom_terms[at].aux] = v
                    out['candidates'].append({'key': '%s:d=%d' % (fn, d), 'what': '%s differs from its matrix definition (dimension %d, residual entry %d)' % (name, d, k),
                                              'kind': 'numeric', 'd': d, 'fn': fn, 'input': {k2: frac_str(v) for k2, v in inp.items()}})
                    break
                elif rr == 'unsat':
                    continue
                else:
                    out['undecided'].append('%s d=%d entry %d: NRA witness query unknown' % (name, d, k))
                    found = True
                    break
            if not found:
                out['obligations'].append({'obligation': '%s d=%d' % (name, d), 'verdict': 'holds (after per-entry NRA queries)',
                                           'seconds': round(time.time() - t1, 3)})
        if sens_poly is not None:
            r2 = res.relax_query([sens_poly], None)
            if r2 == 'sat':
                out['witnesses']['sensitivity'] += 1
            else:
                out['broken'].append('%s d=%d: sensitivity witness not sat' % (name, d))

    # ---- iCommutator
    O = run_op('h_icomm', a, b)
    if O is not None:
        MO = apply_map(re, im, xat, O, d)
        polys = []
        for i in range(d):
            for j in range(d):
                c = csub(AB[i][j], BA[i][j])       # AB-BA ; i*(x+iy) = -y + ix
                ref = (-c[1], c[0])
                polys.append(MO[i][j][0] - ref[0])
                polys.append(MO[i][j][1] - ref[1])
        # sensitivity twin: reference entry (0,1) negated
        c = csub(AB[0][1], BA[0][1])
        sens = MO[0][1][1] + c[0]
        decide('iCommutator(A,B) = i(AB-BA)', polys, 'h_icomm', sens)
        # identity component exactly zero; bilinear
        if not O[0].is_zero():
            decide('iCommutator identity component = 0', [O[0]], 'h_icomm')
        else:
            out['obligations'].append({'obligation': 'iCommutator identity component = 0 d=%d' % d, 'verdict': 'holds (normal form is the zero polynomial)'})
        bil = all(len(m) == 2 and {m[0][0] in aat, m[1][0] in aat} == {True, False} and m[0][1] == 1 and m[1][1] == 1
                  for p in O for m in p.d)
        out['obligations'].append({'obligation': 'iCommutator bilinear d=%d' % d, 'verdict': 'holds (every monomial is a_i*b_j)' if bil else 'FAILS'})
        if not bil:
            out['candidates'].append({'key': 'h_icomm:d=%d:bilinear' % d, 'what': 'iCommutator is not bilinear', 'kind': 'structure', 'd': d, 'fn': 'h_icomm'})
        # antisymmetry on the kernel itself
        O2 = run_op('h_icomm', b, a)
        if O2 is not None:
            decide('iCommutator(A,B) + iCommutator(B,A) = 0', [x + y for x, y in zip(O, O2)], 'h_icomm')
    # ---- ACommutator
    Q = run_op('h_acomm', a, b)
    if Q is not None:
        MQ = apply_map(re, im, xat, Q, d)
        polys = []
        for i in range(d):
            for j in range(d):
                ref = cadd(AB[i][j], BA[i][j])
                polys.append(MQ[i][j][0] - ref[0])
                polys.append(MQ[i][j][1] - ref[1])
        sens = MQ[0][0][0] + cadd(AB[0][0], BA[0][0])[0]
        decide('ACommutator(A,B) = AB+BA', polys, 'h_acomm', sens)
        Q2 = run_op('h_acomm', b, a)
        if Q2 is not None:
            decide('ACommutator(A,B) - ACommutator(B,A) = 0', [x - y for x, y in zip(Q, Q2)], 'h_acomm')
        bil = all(len(m) == 2 and {m[0][0] in aat, m[1][0] in aat} == {True, False} and m[0][1] == 1 and m[1][1] == 1
                  for p in Q for m in p.d)
        out['obligations'].append({'obligation': 'ACommutator bilinear d=%d' % d, 'verdict': 'holds (every monomial is a_i*b_j)' if bil else 'FAILS'})
        if not bil:
            out['candidates'].append({'key': 'h_acomm:d=%d:bilinear' % d, 'what': 'ACommutator is not bilinear', 'kind': 'structure', 'd': d, 'fn': 'h_acomm'})
    # ---- the same results when the target shares storage with an operand or already has content
    MODES = {0: 'target = second vector viewing the buffer of A', 1: 'target = second vector viewing the buffer of B', 2: 'target already holds the other operation\'s result', 3: 'target = A itself',
             4: 'A -= op(A,B)', 5: 'A += op(A,B)'}
    for which, base, nm in ((0, O, 'iCommutator'), (1, Q, 'ACommutator')):
        if base is None:
            continue
        base_t = RAW['h_icomm' if which == 0 else 'h_acomm']
        pa_ = [ctx.poly(x_) for x_ in a]
        for mode in (0, 1, 2, 3, 4, 5):
            ps = h.run('h_comm_into', [I(which), I(mode), I(d), Buf('a', a), Buf('b', b), Buf('o', n=n)])
            exstats.append(h.last_ex.stats)
            if len(ps) != 1 or ps[0].status != 'ok' or ps[0].ret != 0:
                out['broken'].append('h_comm_into %d %d d=%d: %r' % (which, mode, d, ps))
                continue
            vals = ps[0].out('o')
            if any(v is None for v in vals):
                out['candidates'].append({'key': 'h_comm_into:%d:%d:d=%d' % (which, mode, d), 'what': '%s leaves a component unwritten (%s)' % (nm, MODES[mode]), 'kind': 'into', 'd': d, 'fn': 'h_comm_into', 'which': which, 'mode': mode})
                continue
            # cheap screen first (an in-place evaluation over operands it still reads makes the terms cascade, whose normal form explodes):
            # both sides evaluated exactly at a random rational point
            import random as _rnd
            rr_ = _rnd.Random(1234 + d + 7 * which + mode)
            env_ = {('a%d' % k): Fraction(rr_.randint(-9, 9), 10) for k in range(n)}
            env_.update({('b%d' % k): Fraction(rr_.randint(-9, 9), 10) for k in range(n)})
            want_pt = [base_t[k] if not isinstance(base_t[k], Term) else T.evaluate(base_t[k], env_, real=True) for k in range(n)]
            if mode in (4, 5):
                want_pt = [env_['a%d' % k] + (Fraction(want_pt[k]) if mode == 5 else -Fraction(want_pt[k])) for k in range(n)]
            got_pt = [v if not isinstance(v, Term) else T.evaluate(v, env_, real=True) for v in vals]
            offp = [k for k in range(n) if abs(Fraction(got_pt[k]) - Fraction(want_pt[k])) > Fraction(1, 10 ** 9)]
            if offp:
                out['candidates'].append({'key': 'h_comm_into:%d:%d:d=%d' % (which, mode, d), 'what': '%s(A,B) gives another result when %s (component %d at a rational test point) than when assigned to a fresh vector' % (nm, MODES[mode], offp[0]),
                                          'kind': 'into', 'd': d, 'fn': 'h_comm_into', 'which': which, 'mode': mode})
                continue
            got = [ctx.poly(v) for v in vals]
            ref_ = base if mode < 4 else [(pa_[k] + base[k]) if mode == 5 else (pa_[k] - base[k]) for k in range(n)]
            diff = [x - y for x, y in zip(got, ref_)]
            if all(p_.l1() <= res.tol for p_ in diff):
                out['obligations'].append({'obligation': '%s(A,B), %s: same result as into a fresh vector, d=%d' % (nm, MODES[mode], d), 'verdict': 'holds', 'max_l1': float(max([p_.l1() for p_ in diff] or [0]))})
            else:
                k_ = [k for k, p_ in enumerate(diff) if p_.l1() > res.tol][0]
                out['candidates'].append({'key': 'h_comm_into:%d:%d:d=%d' % (which, mode, d), 'what': '%s(A,B) gives another result when %s (component %d) than when assigned to a fresh vector' % (nm, MODES[mode], k_),
                                          'kind': 'into', 'd': d, 'fn': 'h_comm_into', 'which': which, 'mode': mode})
    # ---- scalar product
    ps = h.run('h_trace', [I(d), Buf('a', a), Buf('b', b), Buf('o', n=2)])
    exstats.append(h.last_ex.stats)
    if len(ps) != 1 or ps[0].status != 'ok' or ps[0].ret != 0:
        out['broken'].append('h_trace d=%d: unexpected paths %r' % (d, ps))
    else:
        tv = [ctx.poly(v) for v in ps[0].out('o')]
        tr = Poly()
        tri = Poly()
        for i in range(d):
            tr = tr + AB[i][i][0]
            tri = tri + AB[i][i][1]
        decide('A*B = Tr(AB)', [tv[0] - tr, tv[1] - tr, tri], 'h_trace', tv[0] + tr)
        # Tr(A i[A,B]) = 0 through the two kernels: substitute O for the second operand of the trace kernel
        if O is not None:
            bidx = {ctx.atom(x): k for k, x in enumerate(b)}
            comp = Poly()
            for m, c in tv[0].d.items():
                am = [x for x in m if x[0] in aat]
                bm = [x for x in m if x[0] in bidx]
                if len(am) != 1 or len(bm) != 1:
                    comp = None
                    break
                comp = comp + (Poly({(am[0],): c}) * O[bidx[bm[0][0]]])
            if comp is None:
                out['candidates'].append({'key': 'h_trace:d=%d:bilinear' % d, 'what': 'scalar product is not bilinear', 'kind': 'structure', 'd': d, 'fn': 'h_trace'})
            else:
                res3 = Residual(solver, ctx, box=1, tol=tol_for(d) * d * d)
                t1 = time.time()
                r = res3.relax_query([comp], 'Tr(A i[A,B]) = 0 d=%d (cubic residual, linear relaxation)' % d)
                if r == 'unsat':
                    out['obligations'].append({'obligation': 'Tr(A i[A,B]) = 0 d=%d' % d, 'verdict': 'holds', 'seconds': round(time.time() - t1, 3)})
                else:
                    rr, env = res3.exact_query(comp, 'Tr(A i[A,B]) = 0 d=%d (NRA)' % d, timeout_ms=60000)
                    if rr == 'unsat':
                        out['obligations'].append({'obligation': 'Tr(A i[A,B]) = 0 d=%d' % d, 'verdict': 'holds (NRA)'})
                    elif rr == 'sat':
                        out['candidates'].append({'key': 'trace-of-commutator:d=%d' % d, 'what': 'Tr(A i[A,B]) != 0', 'kind': 'numeric-tr', 'd': d, 'fn': 'h_icomm',
                                                  'input': {ctx.atom_terms[k].aux: frac_str(v) for k, v in env.items()}})
                    else:
                        out['undecided'].append('Tr(A i[A,B]) d=%d' % d)
    out.update(worker_result(solver, exstats, functions=FUNCS))
    out['seconds'] = time.time() - t0
    return out


# ------------------------------------------------------------------------------------------ replay
def np_matrix(h, d, v):
    n = d * d
    ret, o = h.native('h_s2m', [I(d), Buf('a', v), Buf('re', n=n), Buf('im', n=n)])
    return (np.array(o['re']) + 1j * np.array(o['im'])).reshape(d, d)


def replay(chk, h, cand):
    """run the candidate input on the native build; True if the deviation reproduces"""
    d = cand['d']
    n = d * d
    fn = cand['fn']
    if cand['kind'] == 'into':
        rng = np.random.RandomState(chk.seed + 9)
        worst = 0.0
        for _ in range(4):
            av, bv = rng.uniform(-1, 1, n), rng.uniform(-1, 1, n)
            ret, o = h.native('h_comm_into', [I(cand['which']), I(cand['mode']), I(d), Buf('a', av), Buf('b', bv), Buf('o', [np.nan] * n)])
            ret2, o2 = h.native('h_icomm' if cand['which'] == 0 else 'h_acomm', [I(d), Buf('a', av), Buf('b', bv), Buf('o', [np.nan] * n)])
            ref_ = np.array(o2['o']) if cand['mode'] < 4 else (av + np.array(o2['o']) if cand['mode'] == 5 else av - np.array(o2['o']))
            dev = np.abs(np.array(o['o']) - ref_).max()
            worst = max(worst, float('inf') if dev != dev else dev)
        return worst > 1e-9, worst
    if cand['kind'] in ('structure', 'unwritten'):
        # structural findings are replayed with random inputs: compare with the matrix definition
        rng = np.random.RandomState(chk.seed + 7)
        trials = [(rng.uniform(-1, 1, n), rng.uniform(-1, 1, n)) for _ in range(8)]
    else:
        inp = {k: Fraction(v) for k, v in cand['input'].items()}
        av = np.array([float(inp.get('a%d' % i, 0)) for i in range(n)])
        bv = np.array([float(inp.get('b%d' % i, 0)) for i in range(n)])
        trials = [(av, bv)]
    worst = 0.0
    for av, bv in trials:
        A = np_matrix(h, d, av)
        B = np_matrix(h, d, bv)
        if fn == 'h_trace':
            ret, o = h.native('h_trace', [I(d), Buf('a', av), Buf('b', bv), Buf('o', n=2)])
            ref = np.trace(A @ B).real
            dev = max(abs(o['o'][0] - ref), abs(o['o'][1] - ref))
        else:
            ret, o = h.native(fn, [I(d), Buf('a', av), Buf('b', bv), Buf('o', [np.nan] * n)])
            if any(x != x for x in o['o']):
                dev = float('inf')
            else:
                O = np_matrix(h, d, np.array(o['o']))
                ref = 1j * (A @ B - B @ A) if fn == 'h_icomm' else (A @ B + B @ A)
                dev = np.abs(O - ref).max()
                if cand['kind'] == 'numeric-tr':
                    dev = abs(np.trace(A @ O))
        worst = max(worst, dev)
    chk.cov['replayed'] += 1
    return worst > 1e-9, worst


def interp_vs_native(chk, h, dims):
    """concrete-double interpretation of the IR vs the g++ build, bit for bit"""
    rng = np.random.RandomState(chk.seed + 1)
    for d in dims:
        n = d * d
        for fn in ('h_icomm', 'h_acomm', 'h_trace', 'h_s2m'):
            av = list(rng.uniform(-2, 2, n))
            bv = list(rng.uniform(-2, 2, n))
            if fn == 'h_s2m':
                args = [I(d), Buf('a', av), Buf('b', n=n), Buf('o', n=n)]
            elif fn == 'h_trace':
                args = [I(d), Buf('a', av), Buf('b', bv), Buf('o', n=2)]
            else:
                args = [I(d), Buf('a', av), Buf('b', bv), Buf('o', n=n)]
            ps = h.run(fn, args, domain='C')
            ret, o = h.native(fn, args)
            chk.cov['interp_vs_native']['cases'] += 1
            names = ['b', 'o'] if fn == 'h_s2m' else ['o']
            ok = len(ps) == 1 and ps[0].ret == ret
            if ok:
                for nm in names:
                    mine = ps[0].out(nm)
                    if any((x is None) or (x != y) for x, y in zip(mine, o[nm])):
                        ok = False
            if not ok:
                chk.cov['interp_vs_native']['mismatches'] += 1
                chk.broken_q('interpreter and native build disagree on %s d=%d' % (fn, d))


def main(tier):
    chk = Check(PID, tier)
    chk.candidates = []
    dims = [2, 3, 4, 5, 6]
    chk.cov['bounds'] = {'dimensions': dims, 'inputs': 'all 2*d^2 components symbolic reals in [-1,1] (kernels are bilinear/homogeneous)',
                         'tolerance': '1e-13 on the unit box (absorbs the rounding of the generated decimal literals; any wrong structure constant is >= 1e-3)'}
    chk.cov['domains'] = ['R (exact real arithmetic over the IR; literals are the exact rationals of the doubles)']
    chk.cov['stubs'] = ['GSL accessors gsl_matrix_complex_alloc/get/free: reference shim harness/gsl_shim.c',
                        'std::runtime_error construction: message recorded only']
    chk.assumptions = ['finite inputs; overflow/underflow/NaN outside the claim', 'clang-14 -O1 IR is the semantics of the source (bridged by interpreter-vs-native diff and native replay)',
                       'floating-point evaluation differs from exact-real evaluation by the standard forward error of a division-free bilinear form (not decided here)',
                       'the vector<->matrix map used for the reference is the implementation\'s own GetGSLMatrix, pinned against the Gell-Mann definition by C01']
    h = Harness(CPP, LIBS)
    interp_vs_native(chk, h, [2, 3, 4, 5, 6] if tier == 'thorough' else [2, 3, 6])
    with Pool(min(5, os.cpu_count() or 1)) as pool:
        results = pool.map(work, [(d, tier) for d in dims])
    for w in results:
        chk.merge_worker(w)
    for c in chk.candidates:
        ok, dev = safe_replay(replay, chk, h, c)
        if ok:
            chk.report(c['key'], '%s; native deviation %.3g' % (c['what'], dev), c)
        else:
            chk.broken_q('counterexample for %s did not reproduce natively (deviation %.3g): encoding discrepancy' % (c['key'], dev))
    return chk.finish()


if __name__ == '__main__':
    sys.exit(main(sys.argv[1] if len(sys.argv) > 1 else 'quick'))
