"""C14 -- mismatched / unsupported dimensions are rejected before any read or write."""
import sys, time, os, json, itertools
from fractions import Fraction
from multiprocessing import Pool as MPool
import numpy as np
import z3
from common import *
from pool import *
from irsym import solver as S

PID = 'C14'
FUNCS = ['operator+ / operator- (all value-category overloads)', 'operator*(const SU_vector&) / SUTrace', 'iCommutator', 'ACommutator', 'ElementwiseOperation / ElementwiseProduct (4 overloads)',
         'operator+=/-= (vector and expression forms)', 'operator=(const SU_vector&) / operator=(SU_vector&&) to external storage', 'SU_vector::Evolve(const SU_vector&,double)',
         'SU_vector::Rotate(const gsl_matrix_complex*)', 'SU_vector(unsigned)', 'SU_vector(unsigned,double*)', 'SU_vector::make_aligned', 'SU_vector(const std::vector<double>&)',
         'SU_vector(const gsl_matrix_complex*)', 'Projector/Identity/PosProjector/NegProjector/Generator', 'assignProxy']

# (name, builder(d1,d2) -> Ins using slot0 (dim d1), slot1 (dim d2), slot2 (target / third operand))
BINARY = [
    ('A+B', lambda: Ins('EXPR', t=2, s1=0, s2=1, x=0)),
    ('move(A)+B', lambda: Ins('EXPR', t=2, s1=0, s2=1, x=1)),
    ('A+move(B)', lambda: Ins('EXPR', t=2, s1=0, s2=1, x=2)),
    ('move(A)+move(B)', lambda: Ins('EXPR', t=2, s1=0, s2=1, x=3)),
    ('A-B', lambda: Ins('EXPR', t=2, s1=0, s2=1, x=4)),
    ('move(A)-B', lambda: Ins('EXPR', t=2, s1=0, s2=1, x=5)),
    ('A*B (scalar product)', lambda: Ins('TRACE', t=0, s1=1, ext=2)),
    ('(A+A)*(B+B) (scalar product of two expressions)', lambda: Ins('TRACE', t=0, s1=1, ext=2, y=1)),
    ('A*(B+B) (scalar product with an expression)', lambda: Ins('TRACE', t=0, s1=1, ext=2, y=2)),
    ('iCommutator(A,A)*iCommutator(B,B)', lambda: Ins('TRACE', t=0, s1=1, ext=2, y=3)),
    ('iCommutator(A,B)', lambda: Ins('EXPR', t=2, s1=0, s2=1, x=12)),
    ('ACommutator(A,B)', lambda: Ins('EXPR', t=2, s1=0, s2=1, x=13)),
    ('ElementwiseOperation(op,A,B)', lambda: Ins('EXPR', t=2, s1=0, s2=1, x=20)),
    ('ElementwiseProduct(A,B)', lambda: Ins('EXPR', t=2, s1=0, s2=1, x=16)),
    ('ElementwiseProduct(move(A),B)', lambda: Ins('EXPR', t=2, s1=0, s2=1, x=17)),
    ('ElementwiseProduct(A,move(B))', lambda: Ins('EXPR', t=2, s1=0, s2=1, x=18)),
    ('ElementwiseProduct(move(A),move(B))', lambda: Ins('EXPR', t=2, s1=0, s2=1, x=19)),
    ('A+=B', lambda: Ins('PLAININC', t=0, s1=1)),
    ('A-=B', lambda: Ins('PLAINDEC', t=0, s1=1)),
    ('A+=B+B', lambda: Ins('EXPR', t=0, s1=1, s2=1, x=32 + 0)),
    ('A-=c*B', lambda: Ins('EXPR', t=0, s1=1, s2=1, x=64 + 10, c=1.5)),
    ('A+=iCommutator(B,B)', lambda: Ins('EXPR', t=0, s1=1, s2=1, x=32 + 12)),
    ('V+=B+B (V self-owned, dimension of A)', lambda: Ins('EXPR', t=2, s1=1, s2=1, x=32 + 0)),
    ('V-=c*B (V self-owned)', lambda: Ins('EXPR', t=2, s1=1, s2=1, x=64 + 10, c=1.5)),
    ('V+=iCommutator(B,B) (V self-owned)', lambda: Ins('EXPR', t=2, s1=1, s2=1, x=32 + 12)),
    ('V-=B (V self-owned)', lambda: Ins('PLAINDEC', t=2, s1=1)),
    ('A=B (A on external storage)', lambda: Ins('COPYASSIGN', t=0, s1=1)),
    ('A=move(B) (A on external storage)', lambda: Ins('MOVEASSIGN', t=0, s1=1)),
    ('A=B+B (A on external storage)', lambda: Ins('EXPR', t=0, s1=1, s2=1, x=0)),
    ('A.Evolve(B,t)', lambda: Ins('EXPR', t=2, s1=0, s2=1, x=14, c=0.75)),
    ('A.Rotate(matrix of dimension dim(B))', None),
]


def raw_tuple(pool, st, k):
    r = pool.raw(st, k)
    return tuple(r[f] for f in ('dim', 'size', 'components', 'isinit', 'isinit_d'))


def make_monitor(pool, d1, d2, log):
    lim = {pool.buf_addr[0]: 8 * d1 * d1, pool.buf_addr[1]: 8 * d2 * d2}

    def hook(st, kind, addr, n, obj):
        for base, size in lim.items():
            if base <= addr < base + 8 * BUF_DOUBLES and addr + n > base + size:
                log.append((kind, addr - base, n))
        if obj.kind == 'user' and obj.name == 'ext2' and kind == 'store':
            pass
    return hook


def work(item):
    kind = item[0]
    solver = S.Solver(timeout_ms=60000)
    out = new_out(item=list(item))
    exstats = []

    def cand(key, what, program, **kw):
        c = {'key': key, 'what': what, 'program': [i.tojson() for i in program], 'lines': [i.line() for i in program]}
        c.update(kw)
        out['candidates'].append(c)

    if kind == 'binary':
        d1, d2 = item[1], item[2]
        pool = Pool(nslots=4, nbufs=3, solver=solver)
        st0 = pool.initial()
        nheld = 0
        for shared in (False, True, 'moved'):
            # shared: both operands are views of ONE user buffer (different dimensions over the same storage)
            setup = [Ins('EXTERNAL', t=0, x=d1, ext=0), Ins('EXTERNAL', t=1, x=d2, ext=0 if shared else 1), Ins('SIZED', t=2, x=d1)]
            if shared == 'moved':
                # the first operand got its dimension d1 by move assignment from a vector of that dimension into a self-owned vector of dimension d2
                setup = [Ins('SIZED', t=0, x=d2), Ins('SIZED', t=3, x=d1), Ins('MOVEASSIGN', t=0, s1=3), Ins('DESTROY', t=3), Ins('EXTERNAL', t=1, x=d2, ext=1), Ins('SIZED', t=2, x=d1)]
            st = st0
            for ins in setup:
                rs = pool.step(st, ins)
                assert len(rs) == 1 and rs[0].status == 'ok' and rs[0].retval == 0, rs
                st = rs[0].state
            for name, mk in BINARY:
                if shared == 'moved' and 'external storage' in name:
                    continue          # A is self-owned in this variant: a resizing assignment to it is legal
                ins = mk() if mk else Ins('ROTMAT', t=2, s1=0, x=d2)
                log = []
                s = st.clone()
                s.access_hook = make_monitor(pool, max(d1, d2) if shared is True else d1, d2, log)
                before = [raw_tuple(pool, s, k) for k in (0, 1, 2)]
                bv = [pool.buffer_values(s, b) for b in (0, 1)] + [pool.values(s, 2)]
                rs = pool.step(s, ins)
                exstats.append(dict(pool.ex.stats))
                prog = setup + [ins]
                key = 'binary:%s%s' % (name, {False: '', True: ':shared-buffer', 'moved': ':after-move'}[shared])
                name = name + {False: '', True: ' [both operands view one user buffer]', 'moved': ' [A obtained its dimension by move assignment across dimensions]'}[shared]
                ok = True
                for r in rs:
                    if r.status == 'error':
                        cand(key, '%s with dimensions (%d,%d): %s: %s' % (name, d1, d2, r.info['kind'], r.info['msg']), prog, d1=d1, d2=d2, expect='throw')
                        ok = False
                        continue
                    if r.status != 'ok' or r.retval != 1:
                        cand(key, '%s with dimensions (%d,%d) does not raise an exception (returns %r)' % (name, d1, d2, r.retval), prog, d1=d1, d2=d2, expect='throw')
                        ok = False
                        continue
                    after = [raw_tuple(pool, r.state, k) for k in (0, 1, 2)]
                    try:
                        av = [pool.buffer_values(r.state, b) for b in (0, 1)] + [pool.values(r.state, 2)]
                    except Exception:
                        av = [[None]] * 3
                    if after != before or any(len(av[b]) != len(bv[b]) or any(x is not y for x, y in zip(av[b], bv[b])) for b in (0, 1, 2)):
                        cand(key, '%s with dimensions (%d,%d) throws but modifies an operand or the self-owned target' % (name, d1, d2), prog, d1=d1, d2=d2, expect='throw')
                        ok = False
                if log:
                    cand(key, '%s with dimensions (%d,%d) accesses memory outside the operands\' components (%s of %d bytes at offset %d of a %d-double operand)' % (
                        name, d1, d2, log[0][0], log[0][2], log[0][1], d1 * d1), prog, d1=d1, d2=d2, expect='throw')
                    ok = False
                if ok:
                    nheld += 1
        out['obligations'].append({'obligation': 'binary entry points with dimensions (%d,%d): exception, operands bit-identical, no access outside the operands' % (d1, d2),
                                   'verdict': '%d of %d hold (each entry point with separate buffers, with both operands viewing one user buffer, and with a first operand that changed dimension by move assignment)' % (nheld, 3 * len(BINARY))})
        out['witnesses']['reachability'] += nheld
        pool.ex.stats['paths'] = 0
    elif kind == 'ctor':
        pool = Pool(nslots=2, nbufs=1, solver=solver)
        st = pool.initial()
        cases = []
        for d in (1, 7, 8):
            cases += [('SU_vector(%d)' % d, Ins('SIZED', t=0, x=d)), ('SU_vector(%d,ptr)' % d, Ins('EXTERNAL', t=0, x=d, ext=0)),
                      ('make_aligned(%d)' % d, Ins('ALIGNED', t=0, x=d, y=1)), ('make_aligned(%d,false)' % d, Ins('ALIGNED', t=0, x=d, y=0))]
        for ln in range(1, 65):
            r_ = int(round(ln ** 0.5))
            if r_ * r_ == ln and 2 <= r_ <= 6:
                continue
            cases.append(('SU_vector(std::vector<double>(%d))' % ln, Ins('FROMLIST', t=0, x=ln, ext=0)))
        for rows in range(1, 9):
            for cols in range(1, 9):
                if rows == cols and 2 <= rows <= 6:
                    continue
                if rows * cols * 2 > BUF_DOUBLES:
                    continue
                cases.append(('SU_vector(gsl_matrix_complex %dx%d)' % (rows, cols), Ins('FROMMATRIX', t=0, x=rows, y=cols, ext=0)))
        nheld = 0
        for name, ins in cases:
            rs = pool.step(st, ins)
            exstats.append(dict(pool.ex.stats))
            key = 'ctor:%s' % name.split('(')[0] + ':' + name
            ok = True
            for r in rs:
                if r.status == 'error':
                    # leaks are C15's subject; here only invalid accesses count
                    cand(key, '%s: %s: %s' % (name, r.info['kind'], r.info['msg']), [ins], expect='throw')
                    ok = False
                elif r.status != 'ok' or r.retval != 1:
                    cand(key, '%s does not raise an exception' % name, [ins], expect='throw')
                    ok = False
            nheld += ok
        out['obligations'].append({'obligation': 'constructors with unsupported dimension / size / shape must throw', 'verdict': '%d of %d hold' % (nheld, len(cases))})
        out['witnesses']['reachability'] += nheld
        pool.ex.stats['paths'] = 0
    elif kind == 'factory':
        d = item[1]
        pool = Pool(nslots=2, nbufs=1, solver=solver)
        st = pool.initial()
        iT = T.bvvar('idx', 32)
        nheld = 0
        total = 0
        for which, nm in enumerate(['Projector', 'Identity', 'PosProjector', 'NegProjector', 'Generator']):
            total += 1
            ins = Ins('FACTORY', t=0, x=(which << 16) | d, y=iT)
            s = st.clone()
            hi = (d * d + 2) if 2 <= d <= 6 else 66
            s.pc.append(T.icmp('ule', iT, hi, 32))
            rs = pool.ex.run(s, 'h_op', pool.args_for(ins))
            exstats.append(dict(pool.ex.stats))
            ok = True
            for r in rs:
                conv = S.Conv('real')
                zi = conv.conv(iT)
                if 2 <= d <= 6:
                    adm = z3.BoolVal(True) if which == 1 else (z3.ULT(zi, d * d) if which == 4 else z3.ULT(zi, d))
                else:
                    adm = z3.BoolVal(False)
                if r.status == 'error':
                    cand('factory:%s:d=%d' % (nm, d), '%s(%d, i): %s: %s' % (nm, d, r.info['kind'], r.info['msg']), [Ins('FACTORY', t=0, x=(which << 16) | d, y=0)], expect='throw')
                    ok = False
                    continue
                if r.retval == 0:
                    rr, m, _ = solver.check(r.state.pc, conv=conv, extra=[z3.Not(adm)], want_model=True, label='%s(%d,i): accepted only for admissible i (i symbolic in 0..%d)' % (nm, d, hi))
                    if rr != 'unsat':
                        k = m.eval(zi, model_completion=True).as_long() if m is not None else 0
                        cand('factory:%s:d=%d' % (nm, d), '%s(%d,%d) does not raise an exception' % (nm, d, k), [Ins('FACTORY', t=0, x=(which << 16) | d, y=k)], expect='throw')
                        ok = False
                elif r.retval != 1:
                    out['broken'].append('factory %s d=%d ret %r' % (nm, d, r.retval))
                    ok = False
            nheld += ok
        out['obligations'].append({'obligation': 'factories with dimension %d: every inadmissible (dimension,index) in the window throws, no invalid access' % d, 'verdict': '%d of %d hold' % (nheld, total)})
        pool.ex.stats['paths'] = 0
    if kind == 'views':
        from irsym.harness import Harness, I as HI, Buf as HBuf
        hv = Harness('c14v.cpp', ('SUNalg.cpp',), solver=solver)
        nv = 0
        for prows, pcols in ((2, 2), (3, 3), (4, 4), (6, 6), (3, 5), (5, 3), (7, 7)):
            for rows in range(1, prows + 1):
                for cols in range(1, pcols + 1):
                    vals = sym_vec('m', 2 * prows * pcols)
                    ps = hv.run('h_view_ctor', [HI(rows), HI(cols), HI(prows), HI(pcols), HBuf('vals', vals), HBuf('o', n=1)])
                    exstats.append(dict(hv.last_ex.stats))
                    supported = rows == cols and 2 <= rows <= 6
                    nv += 1
                    for p in ps:
                        if p.status != 'ok':
                            out['candidates'].append({'key': 'view-ctor:%dx%d-of-%dx%d' % (rows, cols, prows, pcols), 'what': 'SU_vector(matrix view %dx%d of a %dx%d matrix): %s: %s' % (rows, cols, prows, pcols, (p.info or {}).get('kind'), (p.info or {}).get('msg')),
                                                      'view': [rows, cols, prows, pcols], 'lines': [], 'program': []})
                        elif (p.ret == 0) != supported:
                            out['candidates'].append({'key': 'view-ctor:%dx%d-of-%dx%d' % (rows, cols, prows, pcols), 'what': 'SU_vector(matrix view %dx%d, row stride %d) %s' % (rows, cols, pcols, 'does not raise an exception' if p.ret == 0 else 'is rejected although it is a supported square'),
                                                      'view': [rows, cols, prows, pcols], 'lines': [], 'program': []})
        out['obligations'].append({'obligation': 'matrix constructor on %d blocks of larger matrices (row stride != columns): accepted iff a supported square' % nv, 'verdict': 'holds' if not out['candidates'] else 'fails'})
        out['witnesses']['reachability'] += nv
    out.update(worker_result(solver, [{'paths': sum(1 for _ in exstats), 'steps': max([e['steps'] for e in exstats] or [0])}], functions=FUNCS))
    return out


def replay(chk, c):
    """native replay under ASan/UBSan: the last instruction must return rc 1 (exception) and leave earlier slots untouched"""
    chk.cov['replayed'] += 1
    if 'view' in c:
        from irsym.harness import Harness, I as HI, Buf as HBuf
        rows, cols, prows, pcols = c['view']
        hv = Harness('c14v.cpp', ('SUNalg.cpp',))
        try:
            ret, o = hv.native('h_view_ctor', [HI(rows), HI(cols), HI(prows), HI(pcols), HBuf('vals', [0.1 * k for k in range(2 * prows * pcols)]), HBuf('o', n=1)])
        except Exception as e:
            return True, 'native crash: %s' % str(e)[:100]
        supported = rows == cols and 2 <= rows <= 6
        return (ret == 0) != supported, 'native: %s' % ('no exception' if ret == 0 else 'exception (rc %d)' % ret)
    prog = []
    for ln in c['lines']:
        w = ln.split(' = ')[0].split()
        ins = Ins(int(w[0]), int(w[1]), int(w[2]), int(w[3]), int(w[4]), int(w[5]), float(w[6]), int(w[7]))
        prog.append(ins)
    # give the external buffers recognisable contents
    pre = [Ins('DEFAULT', t=-1)]
    res = native_replay(prog, nslots=4, nbufs=3)
    c['native'] = {'exit': res['exit'], 'rcs': [s['rc'] for s in res['steps']], 'report': (res['report'] or '')[:600]}
    if res['report']:
        return True, 'sanitizer/exit: ' + res['report'].strip().split('\n')[0][:200]
    if not res['steps']:
        return False, 'no output'
    last = res['steps'][-1]
    if last['rc'] != 1:
        return True, 'no exception (rc=%d)' % last['rc']
    if len(res['steps']) >= 2:
        prev = res['steps'][-2]
        for k in (0, 1):
            if prev['slots'].get(k) != last['slots'].get(k):
                return True, 'operand slot %d modified' % k
        for b in (0, 1):
            if prev['bufs'].get(b) != last['bufs'].get(b):
                return True, 'operand buffer %d modified' % b
    return False, 'exception raised, operands intact'


def main(tier):
    chk = Check(PID, tier)
    chk.candidates = []
    dims = [2, 3, 4, 5, 6]
    items = [('binary', a, b, tier) for a in dims for b in dims if a != b]
    items.append(('ctor', tier))
    items.append(('views', tier))
    items += [('factory', d, tier) for d in (1, 2, 3, 4, 5, 6, 7, 8)]
    chk.cov['bounds'] = {'dimension pairs': 'all 20 ordered (d1,d2), d1!=d2, in {2..6}^2', 'binary entry points': [b[0] for b in BINARY],
                         'constructors': 'dimension 1,7,8; list lengths 1..64 except supported squares; matrices r x c up to 8x8 (<=40 entries) except supported squares',
                         'factories': 'dimension 1..8, index symbolic in 0..d*d+2'}
    chk.cov['exhaustive'] = True
    chk.cov['domains'] = ['heap/object model with access monitor on the operands; contents symbolic (unused by the guards)']
    chk.cov['stubs'] = ['operator new[]: fresh aligned block', 'GSL containers: shim', 'std::runtime_error construction: message only']
    chk.assumptions = ['operands are externally backed vectors over 80-double buffers so that an out-of-range read inside the buffer is observable by the monitor',
                       'the target of value-returning expressions is a self-owned vector of dimension d1']
    pool_interp_vs_native(chk, sample_programs()[:4], nslots=5)
    with MPool(min(16, os.cpu_count() or 1)) as mp:
        results = mp.map(work, items, chunksize=1)
    for w in results:
        chk.merge_worker(w)
    seen = set()
    for c in chk.candidates:
        if c['key'] in seen:
            continue
        seen.add(c['key'])
        ok, info = replay(chk, c)
        if ok:
            chk.report(c['key'], '%s; native: %s' % (c['what'], info), c)
        else:
            chk.broken_q('counterexample for %s did not reproduce natively (%s): encoding discrepancy' % (c['key'], info))
    return chk.finish()


def replay_main(path):
    c = json.load(open(path))['replay']
    chk = Check(PID, 'quick')
    ok, info = replay(chk, c)
    print('replay %s: %s (%s)' % (path, 'REPRODUCED' if ok else 'not reproduced', info))
    return 1 if ok else 0


if __name__ == '__main__':
    sys.exit(main(sys.argv[1] if len(sys.argv) > 1 else 'quick'))
