"""C13 -- factory operators are exactly the documented projectors / identity / generators (d=2..6, index symbolic)."""
import sys, time, os, json
from fractions import Fraction
from multiprocessing import Pool
import numpy as np
import z3
from common import *
from irsym.harness import Harness, I, D, Buf
from irsym import solver as S

PID = 'C13'
CPP = 'c13.cpp'
LIBS = ('SUNalg.cpp',)
TOL = Fraction(1, 10 ** 13)
NAMES = {0: 'Projector', 1: 'Identity', 2: 'PosProjector', 3: 'NegProjector', 4: 'Generator'}
FUNCS = ['SU_vector::Projector', 'SU_vector::Identity', 'SU_vector::PosProjector', 'SU_vector::NegProjector', 'SU_vector::Generator',
         'SU_vector::make_aligned', 'ComponentsFromMatrices (MatrixToSUN kernels)', 'SU_vector move ctor / move assignment', 'SU_vector::GetGSLMatrix']


def spec_diag(which, d, ii, j):
    """z3 Bool: diagonal entry j of the documented matrix is 1 (ii: z3 BitVec 32)"""
    if which == 0:
        return ii == j
    if which == 1:
        return z3.BoolVal(True)
    if which == 2:
        return z3.UGT(ii, z3.BitVecVal(j, 32))            # ones in the first ii positions: j < ii
    if which == 3:
        return z3.UGE(z3.BitVecVal(j, 32) + ii, z3.BitVecVal(d, 32))   # ones in the last ii positions: j >= d-ii
    raise ValueError


def admissible(which, d, ii):
    if which == 4:
        return z3.ULT(ii, d * d)
    if which == 1:
        return z3.BoolVal(True)
    return z3.ULT(ii, d)


def work(item):
    d, tier = item
    solver = S.Solver(timeout_ms=60000)
    h = Harness(CPP, LIBS, solver=solver)
    ctx = PolyCtx()
    out = new_out(d=d)
    dec = Decider(solver, ctx, out, tol=TOL)
    exstats = []
    n = d * d
    re, im, xat, st = s2m_map(h, d, ctx)
    exstats.append(st)
    coef_re = [[float(0)] * n for _ in range(n)]
    iiT = T.bvvar('ii', 32)
    results = {}
    junkT = T.var('junk')
    for which, hist in [(w, hh) for w in range(5) for hh in (0, 1, 2, 3)]:
        nm = NAMES[which]
        ps = h.run('h_factory', [I(which), I(d), I(iiT), Buf('o', n=n), I(hist), D(junkT)])
        exstats.append(h.last_ex.stats)
        if hist == 0:
            results[which] = ps
        good = True
        hs = {0: '', 1: ' after a vector of the same dimension (all components = junk, symbolic) was destroyed', 2: ' after the same factory ran in dimension %d' % (d + 1 if d < 6 else d - 1),
              3: ' after an earlier result of the same call was overwritten in place (all components = junk, symbolic) by its owner'}[hist]
        for p in ps:
            if p.status != 'ok' or p.ret not in (0, 1):
                if (p.info or {}).get('kind') == 'uninit':
                    out['candidates'].append({'key': '%s:d=%d:value' % (nm, d), 'what': '%s(%d, i) returns components it never wrote (uninitialised storage)%s' % (nm, d, hs), 'kind': 'value', 'd': d, 'which': which, 'index': 0, 'hist': 1})
                else:
                    out['candidates'].append({'key': '%s:d=%d:error' % (nm, d), 'what': '%s(%d, i) ends in %s %r%s' % (nm, d, p.status, p.info, hs), 'kind': 'error', 'd': d, 'which': which, 'hist': hist})
                good = False
                continue
            conv = S.Conv('real')
            ii = conv.conv(iiT)
            if p.ret == 1:
                r, m, _ = solver.check(p.pc, conv=conv, extra=[admissible(which, d, ii)], label='%s d=%d: exception only for inadmissible index' % (nm, d), want_model=True)
                if r == 'sat':
                    k = m.eval(ii, model_completion=True).as_long()
                    out['candidates'].append({'key': '%s:d=%d:throws' % (nm, d), 'what': '%s(%d,%d) throws for an admissible index%s' % (nm, d, k, hs), 'kind': 'throws', 'd': d, 'which': which, 'index': k, 'hist': hist})
                    good = False
                elif r != 'unsat':
                    out['undecided'].append('%s d=%d throw path' % (nm, d))
                    good = False
                continue
            out['witnesses']['reachability'] += 1
            r, m, _ = solver.check(p.pc, conv=conv, extra=[z3.Not(admissible(which, d, ii))], label='%s d=%d: inadmissible index is rejected' % (nm, d), want_model=True)
            if r == 'sat':
                k = m.eval(ii, model_completion=True).as_long()
                out['candidates'].append({'key': '%s:d=%d:accepts' % (nm, d), 'what': '%s(%d,%d) accepts an out-of-range index%s' % (nm, d, k, hs), 'kind': 'accepts', 'd': d, 'which': which, 'index': k, 'hist': hist})
                good = False
            o = p.out('o')
            if any(v is None for v in o):
                out['candidates'].append({'key': '%s:d=%d:unwritten' % (nm, d), 'what': '%s leaves components unwritten%s' % (nm, hs), 'kind': 'value', 'd': d, 'which': which, 'index': 0, 'hist': 1})
                good = False
                continue
            zo = [conv.conv(v) if isinstance(v, Term) else conv.rconst(v) for v in o]
            tol = conv.rconst(TOL)
            viol = []
            if which == 4:
                # unit vector along component ii
                for k in range(n):
                    want = z3.If(ii == k, z3.RealVal(1), z3.RealVal(0))
                    viol.append(zo[k] != want)
            else:
                for i in range(d):
                    for j in range(d):
                        er = z3.Sum([conv.rconst(c) * zo[xat.index(mo[0][0])] for mo, c in re[i * d + j].d.items()]) if re[i * d + j].d else z3.RealVal(0)
                        ei = z3.Sum([conv.rconst(c) * zo[xat.index(mo[0][0])] for mo, c in im[i * d + j].d.items()]) if im[i * d + j].d else z3.RealVal(0)
                        want = z3.If(spec_diag(which, d, ii, j), z3.RealVal(1), z3.RealVal(0)) if i == j else z3.RealVal(0)
                        viol.append(z3.Or(er - want > tol, want - er > tol))
                        viol.append(z3.Or(ei > tol, -ei > tol))
            r, m, _ = solver.check(p.pc, conv=conv, extra=[z3.Or(viol)], label='%s d=%d: represented matrix equals the documented 0/1 diagonal for every index (symbolic index)' % (nm, d), want_model=True)
            if r == 'sat':
                k = m.eval(ii, model_completion=True).as_long()
                out['candidates'].append({'key': '%s:d=%d:value' % (nm, d), 'what': '%s(%d,%d) does not represent the documented matrix%s' % (nm, d, k, hs), 'kind': 'value', 'd': d, 'which': which, 'index': k, 'hist': hist})
                good = False
            elif r != 'unsat':
                out['undecided'].append('%s d=%d value query' % (nm, d))
                good = False
        if good:
            dec.holds('%s(d=%d, i) for every unsigned i%s: value and admissibility (%d paths)' % (nm, d, hs, len(ps)))
    # sensitivity witness: the Projector query with the spec shifted by one must be sat
    p0 = [p for p in results[0] if p.status == 'ok' and p.ret == 0]
    if p0:
        conv = S.Conv('real')
        ii = conv.conv(iiT)
        o = p0[0].out('o')
        zo = [conv.conv(v) if isinstance(v, Term) else conv.rconst(v) for v in o]
        er = z3.Sum([conv.rconst(c) * zo[xat.index(mo[0][0])] for mo, c in re[0].d.items()])
        want = z3.If(ii == 1, z3.RealVal(1), z3.RealVal(0))
        r = solver.check(p0[0].pc, conv=conv, extra=[z3.Or(er - want > conv.rconst(TOL), want - er > conv.rconst(TOL))])
        if r == 'sat':
            out['witnesses']['sensitivity'] += 1
        else:
            out['broken'].append('sensitivity witness d=%d' % d)
    # derived algebra: PosProjector(d,k) + NegProjector(d,d-k) = Identity for 0<k<d (two executions sharing k)
    kT = T.bvvar('k', 32)
    pa = h.run('h_factory', [I(2), I(d), I(kT), Buf('o', n=n), I(0), D(0.0)])
    exstats.append(h.last_ex.stats)
    pb = h.run('h_factory', [I(3), I(d), I(T.bvop('sub', d, kT, 32)), Buf('o', n=n), I(0), D(0.0)])
    exstats.append(h.last_ex.stats)
    pi_ = [p for p in results[1] if p.status == 'ok' and p.ret == 0]
    okd = bool(pi_)
    for A in (pa if pi_ else []):
        for B in pb:
            if A.status != 'ok' or B.status != 'ok':
                okd = False          # already reported above as a candidate of the factory concerned
                continue
            conv = S.Conv('real')
            kk = conv.conv(kT)
            rng = [z3.UGT(kk, 0), z3.ULT(kk, d)]
            if A.ret != 0 or B.ret != 0:
                r = solver.check(A.pc + B.pc, conv=conv, extra=rng)
                if r != 'unsat':
                    out['candidates'].append({'key': 'PosNeg:d=%d' % d, 'what': 'PosProjector(d,k)/NegProjector(d,d-k) rejects an index 0<k<d', 'kind': 'posneg', 'd': d})
                    okd = False
                continue
            oa, ob, oi = A.out('o'), B.out('o'), pi_[0].out('o')
            if any(v is None for v in oa + ob + oi):
                okd = False          # an unwritten component: already reported for the factory concerned
                continue
            viol = []
            for k in range(n):
                ea = conv.conv(oa[k]) if isinstance(oa[k], Term) else conv.rconst(oa[k])
                eb = conv.conv(ob[k]) if isinstance(ob[k], Term) else conv.rconst(ob[k])
                ei = conv.conv(oi[k]) if isinstance(oi[k], Term) else conv.rconst(oi[k])
                viol.append(z3.Or(ea + eb - ei > conv.rconst(TOL), ei - ea - eb > conv.rconst(TOL)))
            r, m, _ = solver.check(A.pc + B.pc, conv=conv, extra=rng + [z3.Or(viol)], label='PosProjector(d,k)+NegProjector(d,d-k) = Identity(d), d=%d, 0<k<d symbolic' % d, want_model=True)
            if r == 'sat':
                out['candidates'].append({'key': 'PosNeg:d=%d' % d, 'what': 'PosProjector(%d,k)+NegProjector(%d,%d-k) != Identity for k=%d' % (d, d, d, m.eval(kk, model_completion=True).as_long()),
                                          'kind': 'posneg', 'd': d, 'index': m.eval(kk, model_completion=True).as_long()})
                okd = False
            elif r != 'unsat':
                out['undecided'].append('PosNeg d=%d' % d)
                okd = False
    if okd:
        dec.holds('PosProjector(d,k)+NegProjector(d,d-k) = Identity(d) for 0<k<d, d=%d' % d)
    out.update(worker_result(solver, exstats, functions=FUNCS))
    return out


def np_diag_spec(which, d, k):
    if which == 0:
        return np.diag([1.0 if j == k else 0.0 for j in range(d)])
    if which == 1:
        return np.eye(d)
    if which == 2:
        return np.diag([1.0 if j < k else 0.0 for j in range(d)])
    if which == 3:
        return np.diag([1.0 if j >= d - k else 0.0 for j in range(d)])


def native_matrix(h, d, comps):
    n = d * d
    ret, o = h.native('h_s2m', [I(d), Buf('a', comps), Buf('re', n=n), Buf('im', n=n)])
    return (np.array(o['re']) + 1j * np.array(o['im'])).reshape(d, d)


def replay(chk, h, c):
    d = c['d']
    n = d * d
    chk.cov['replayed'] += 1
    kind = c['kind']
    if kind == 'posneg':
        for k in ([c['index']] if 'index' in c else range(1, d)):
            ra, oa = h.native('h_factory', [I(2), I(d), I(k), Buf('o', n=n), I(0), D(0.0)])
            rb, ob = h.native('h_factory', [I(3), I(d), I(d - k), Buf('o', n=n), I(0), D(0.0)])
            if ra or rb:
                return True, 1.0
            M = native_matrix(h, d, np.array(oa['o']) + np.array(ob['o']))
            dev = np.abs(M - np.eye(d)).max()
            if dev > 1e-9:
                return True, dev
        return False, 0.0
    which = c['which']
    k = c.get('index', 0)
    ret, o = h.native('h_factory', [I(which), I(d), I(k), Buf('o', [np.nan] * n), I(c.get('hist', 0)), D(7.5)])
    adm = (k < d * d) if which == 4 else (True if which == 1 else k < d)
    if kind == 'throws':
        return (ret == 1 and adm), 1.0
    if kind == 'accepts':
        return (ret == 0 and not adm), 1.0
    if kind == 'error':
        return ret not in (0, 1), 1.0
    if ret != 0:
        return False, 0.0
    if which == 4:
        want = np.zeros(n)
        want[k] = 1
        dev = np.abs(np.array(o['o']) - want).max()
    else:
        dev = np.abs(native_matrix(h, d, np.array(o['o'])) - np_diag_spec(which, d, k)).max()
    return bool(dev > 1e-9 or dev != dev), float(dev)


def main(tier):
    chk = Check(PID, tier)
    chk.candidates = []
    dims = [2, 3, 4, 5, 6]
    chk.cov['bounds'] = {'dimensions': dims, 'index': 'one unconstrained 32-bit symbolic index per call (all 2^32 values, admissible and not)', 'tolerance': '1e-13 per matrix entry'}
    chk.cov['exhaustive'] = True
    chk.cov['domains'] = ['bit-vectors for the index, exact reals for the components']
    chk.cov['stubs'] = ['GSL accessors: harness/gsl_shim.c', 'operator new[]: fresh 32-byte aligned block', 'block cache: empty, or holding the block of a destroyed vector of the same dimension whose components are one symbolic value']
    chk.assumptions = ['clang-14 -O1 IR is the semantics of the source (interpreter-vs-native diff on every admissible index, every run)',
                       'dimension 2..6 (other dimensions belong to C14)']
    h = Harness(CPP, LIBS)
    cases = []
    for d in dims:
        for which in range(5):
            for k in range(d * d + 1 if which == 4 else d + 1):
                if which == 1 and k > 0:
                    continue
                cases.append(('h_factory', [I(which), I(d), I(k), Buf('o', n=d * d), I((which + k + d) % 2), D(7.5)], ['o']))
    if tier == 'quick':
        chk.rng.shuffle(cases)
        cases = cases[:40]
    generic_interp_vs_native(chk, h, cases)
    with Pool(min(5, os.cpu_count() or 1)) as pool:
        results = pool.map(work, [(d, tier) for d in dims])
    for w in results:
        chk.merge_worker(w)
    seen = set()
    for c in chk.candidates:
        if c['key'] in seen:
            continue
        seen.add(c['key'])
        ok, dev = safe_replay(replay, chk, h, c)
        if ok:
            chk.report(c['key'], '%s; native deviation %.3g' % (c['what'], dev), c)
        else:
            chk.broken_q('counterexample for %s did not reproduce natively (deviation %.3g): encoding discrepancy' % (c['key'], dev))
    return chk.finish()


def replay_main(path):
    c = json.load(open(path))['replay']
    chk = Check(PID, 'quick')
    ok, dev = safe_replay(replay, chk, Harness(CPP, LIBS), c)
    print('replay %s: %s (deviation %.3g)' % (path, 'REPRODUCED' if ok else 'not reproduced', dev))
    return 1 if ok else 0


if __name__ == '__main__':
    sys.exit(main(sys.argv[1] if len(sys.argv) > 1 else 'quick'))
