"""C11 -- averaging PrepareEvolve overloads and LowPass/AvgRamp filters (d=2..6; diamonds merged, so one path per call)."""
import sys, time, os, json, math
from fractions import Fraction
from multiprocessing import Pool
import numpy as np
import z3
from common import *
from irsym.harness import Harness, I, D, Buf, IBuf
from irsym import solver as S

PID = 'C11'
CPP = 'c11.cpp'
LIBS = ('SUNalg.cpp',)
TOL = Fraction(1, 10 ** 13)
FUNCS = ['SU_vector::PrepareEvolve(double*,double)', 'SU_vector::PrepareEvolve(double*,double,double,std::vector<bool>&) (PreSinCosEvolSUNAvg)',
         'SU_vector::PrepareEvolve(double*,double,double) (PreSinCosEvolSUNAvgRange)', 'SU_vector::LowPassFilter (LowPassFilterSUN + ApplyLowPassRamp)',
         'SU_vector::AvgRampFilter (AvgWithRampSUN + ApplyLowPassRamp)', 'std::vector<bool> bit reference writes (inlined)', 'SU_vector::GetGSLMatrix']


def diag_indices(d):
    return [0] + [d * l + l for l in range(1, d)]


def zc(conv, v):
    return conv.conv(v) if isinstance(v, Term) else conv.rconst(v)


def zabs(e):
    return z3.If(e >= 0, e, -e)


def work(item):
    d, tier = item
    solver = S.Solver(timeout_ms=120000)
    h = Harness(CPP, LIBS, solver=solver)
    out = new_out(d=d)
    exstats = []
    n = d * d
    npairs = d * (d - 1) // 2
    ctx = PolyCtx()
    dec = Decider(solver, ctx, out, tol=TOL)
    re, im, xat, st = s2m_map(h, d, ctx)
    exstats.append(st)
    hv = [Fraction(0)] * n
    for k in diag_indices(d):
        hv[k] = T.var('h%d' % k)
    ph = [ctx.poly(x) for x in hv]
    MH = apply_map(re, im, xat, ph, d)
    E = [MH[j][j][0] for j in range(d)]
    t = T.var('t')
    t0, t1 = T.var('t0'), T.var('t1')
    scale = T.var('scale')
    cutoff, ramp = T.var('cutoff'), T.var('ramp')

    def call(fn, args, merge=True, divs=False):
        ex = h.executor()
        ex.merge = merge
        ex.record_divs = divs
        ps = h.run(fn, args, ex=ex)
        exstats.append(ex.stats)
        return ps

    def single(ps, what):
        if len(ps) != 1 or ps[0].status != 'ok' or ps[0].ret != 0:
            out['broken'].append('%s d=%d: %r' % (what, d, [(p.status, p.ret, p.info) for p in ps]))
            return None
        return ps[0]

    # ---- base tables: unaveraged at symbolic t, and at t=1 (frequencies)
    pb = single(call('h_prepare', [I(d), Buf('h', hv), D(t), Buf('buf', n=2 * npairs)]), 'h_prepare')
    pf = single(call('h_prepare', [I(d), Buf('h', hv), D(Fraction(1)), Buf('buf', n=2 * npairs)]), 'h_prepare(t=1)')
    if pb is None or pf is None:
        out.update(worker_result(solver, exstats, functions=FUNCS))
        return out
    B = pb.out('buf')
    Fq = pf.out('buf')
    shape_ok = all(isinstance(B[m], Term) and B[m].op == 'cos' and isinstance(B[npairs + m], Term) and B[npairs + m].op == 'sin'
                   and B[m].args[0] is B[npairs + m].args[0] for m in range(npairs)) and \
        all(isinstance(Fq[m], Term) and Fq[m].op == 'cos' for m in range(npairs))
    if not shape_ok:
        out['undecided'].append('d=%d: unaveraged table is not [cos(theta_m)..., sin(theta_m)...] with a common argument per pair; oracle cannot be built' % d)
        out.update(worker_result(solver, exstats, functions=FUNCS))
        return out
    theta = [B[m].args[0] for m in range(npairs)]      # phase of table entry m at time t
    omega = [Fq[m].args[0] for m in range(npairs)]     # frequency of table entry m
    # which level pair is entry m?  theta_m = sigma_m (E_j - E_k) t   (solver-decided on the argument residual)
    tp = ctx.poly(t)
    res = Residual(solver, ctx, box=1, tol=TOL)
    pair_of = {}
    for m in range(npairs):
        ap = ctx.poly(theta[m])
        for j in range(d):
            for k in range(j + 1, d):
                for sg in (1, -1):
                    diff = ap - ((E[j] - E[k]) * tp).scale(sg)
                    if diff.is_zero() or (diff.l1() <= TOL * 8 and res.relax_query([diff], 'table entry %d phase = +-(E_%d-E_%d)t d=%d' % (m, j, k, d)) == 'unsat'):
                        pair_of[m] = (j, k, sg)
    if len(pair_of) == npairs and len(set((j, k) for j, k, _ in pair_of.values())) == npairs:
        dec.holds('table entries <-> level pairs is a bijection; phase_m = +-(E_j-E_k)t, d=%d' % d)
    else:
        dec.candidate('table-pairs:d=%d' % d, 'PrepareEvolve table entries do not correspond one-to-one to level pairs', kind='avg', d=d)

    # ---- 1. averaging scale
    pas = []
    for init in (0, 1):
        pi_ = call('h_prep_avg', [I(d), Buf('h', hv), D(t), D(scale), Buf('buf', n=2 * npairs), IBuf('flags', [None] * npairs), I(init)])
        if any(p_.status != 'ok' or p_.ret != 0 for p_ in pi_) or not pi_:
            out['broken'].append('h_prep_avg d=%d: %r' % (d, [(p_.status, p_.ret, p_.info) for p_ in pi_]))
            pas = []
            break
        for p_ in pi_:
            p_.init = init
        pas += pi_
    for ipa, pa in enumerate(pas):
        if True:
            A = pa.out('buf')
            F = pa.out('flags')
            if any(v is None for v in A) or any(v is None for v in F):
                dec.candidate('avg:d=%d:unwritten' % d, 'PrepareEvolve(avg) leaves a table entry or flag unwritten', kind='avg', d=d, init=pa.init)
            else:
                out['witnesses']['reachability'] += 1
                conv = S.Conv('real')
                zs = conv.conv(scale)
                viol = []
                for m in range(npairs):
                    cond = zabs(zc(conv, theta[m])) > zabs(zs)
                    viol.append(zc(conv, A[m]) != z3.If(cond, z3.RealVal(0), zc(conv, B[m])))
                    viol.append(zc(conv, A[npairs + m]) != z3.If(cond, z3.RealVal(0), zc(conv, B[npairs + m])))
                    fl = zc(conv, F[m]) if isinstance(F[m], Term) else z3.BitVecVal(F[m], 32)
                    viol.append((fl == 1) != cond)
                    viol.append(z3.And(fl != 0, fl != 1))
                r, mdl, _ = solver.check(pa.pc, conv=conv, extra=[z3.Or(viol)], want_model=True,
                                         label='averaging PrepareEvolve d=%d: entry m zeroed and flagged iff |phase_m| > |scale|, else equal to the unaveraged table (%d pairs, one merged path)' % (d, npairs))
                if r == 'unsat':
                    dec.holds('PrepareEvolve(buf,t,scale,avr): zeroes+flags exactly the pairs with |omega t| > |scale|, others as unaveraged, d=%d, flag vector previously all %s' % (d, 'true' if pa.init else 'false'))
                elif r == 'sat':
                    names = ['h%d' % k for k in diag_indices(d)] + ['t', 'scale']
                    dec.candidate('avg:d=%d' % d, 'averaging PrepareEvolve does not zero/flag exactly the pairs whose phase exceeds the scale (flag vector previously all %s)' % ('true' if pa.init else 'false'), kind='avg', d=d, init=pa.init,
                                  input={nm: frac_str(S.model_value(mdl, conv, nm)) for nm in names})
                else:
                    out['undecided'].append('avg d=%d' % d)
                if ipa > 0:
                    continue
                # sensitivity: with the threshold comparison reversed the claim must be refutable
                conv = S.Conv('real')
                cond = zabs(zc(conv, theta[0])) < zabs(conv.conv(scale))
                r = solver.check(pa.pc, conv=conv, extra=[zc(conv, A[0]) != z3.If(cond, z3.RealVal(0), zc(conv, B[0]))])
                if r == 'sat':
                    out['witnesses']['sensitivity'] += 1
                else:
                    out['broken'].append('sensitivity avg d=%d' % d)

    # ---- 2. filters
    for fn, ph_terms, extra_args, nm in (('h_lowpass', omega, [], 'LowPassFilter (on frequency)'), ('h_avgramp', theta, [D(t)], 'AvgRampFilter (on phase)')):
        cin = sym_vec('c', npairs) + sym_vec('s', npairs)
        ps = call(fn, [I(d), Buf('h', hv), Buf('buf', cin)] + extra_args + [D(cutoff), D(ramp)])
        okf = True
        seen_ok = False
        for p in ps:
            conv = S.Conv('real')
            zcut, zr = zabs(conv.conv(cutoff)), zabs(conv.conv(ramp))
            if p.status != 'ok' or p.ret not in (0, 1):
                dec.candidate('%s:d=%d:error' % (fn, d), '%s ends in %s %r' % (nm, p.status, p.info), kind='filter', d=d, fn=fn)
                okf = False
                continue
            if p.ret == 1:
                r = solver.check(p.pc, conv=conv, extra=[zr <= zcut], label='%s d=%d: throws only if |ramp| > |cutoff|' % (nm, d))
                if r != 'unsat':
                    dec.candidate('%s:d=%d:throws' % (fn, d), '%s rejects a ramp not wider than the cutoff' % nm, kind='filter', d=d, fn=fn)
                    okf = False
                continue
            seen_ok = True
            r = solver.check(p.pc, conv=conv, extra=[zr > zcut], label='%s d=%d: a ramp wider than the cutoff is rejected' % (nm, d))
            if r != 'unsat':
                dec.candidate('%s:d=%d:accepts' % (fn, d), '%s accepts a ramp wider than the cutoff' % nm, kind='filter', d=d, fn=fn)
                okf = False
            o = p.out('buf')
            names = ['h%d' % k for k in diag_indices(d)] + ['t', 'cutoff', 'ramp'] + ['c%d' % i for i in range(npairs)] + ['s%d' % i for i in range(npairs)]
            for m in range(npairs):
                conv = S.Conv('real')
                zcut, zr = zabs(conv.conv(cutoff)), zabs(conv.conv(ramp))
                w = zabs(zc(conv, ph_terms[m]))
                mult = z3.If(w > zcut, z3.RealVal(0), z3.If(w > zcut - zr, (zcut - w) / zr, z3.RealVal(1)))
                viol = [zc(conv, o[m]) != conv.conv(cin[m]) * mult, zc(conv, o[npairs + m]) != conv.conv(cin[npairs + m]) * mult]
                r, mdl, _ = solver.check(p.pc, conv=conv, extra=[z3.Or(viol)], want_model=True,
                                         label='%s d=%d pair %d: multiplied by 1 / linear ramp / 0 according to its |%s|' % (nm, d, m, 'omega' if fn == 'h_lowpass' else 'omega t'))
                if r == 'sat':
                    dec.candidate('%s:d=%d' % (fn, d), '%s does not apply the documented pass / ramp / cut multiplier (table entry %d)' % (nm, m), kind='filter', d=d, fn=fn,
                                  input={x: frac_str(S.model_value(mdl, conv, x)) for x in names})
                    okf = False
                    break
                elif r != 'unsat':
                    out['undecided'].append('%s d=%d pair %d' % (fn, d, m))
                    okf = False
        if okf and seen_ok:
            dec.holds('%s: multiplier 1 / (|cutoff|-|x|)/|ramp| / 0 per pair; |ramp|>|cutoff| rejected, d=%d (%d paths)' % (nm, d, len(ps)))

    # ---- 3. interval average
    ex = h.executor()
    ex.merge = True
    ex.record_divs = True
    ps = h.run('h_prep_range', [I(d), Buf('h', hv), D(t0), D(t1), Buf('buf', n=2 * npairs)], ex=ex,
               prepare=lambda ex_, st, bufs: st.pc.append(T.fcmp('olt', t0, t1)))
    exstats.append(ex.stats)
    rng_ok = True
    for pr in ps:
        if pr.status != 'ok' or pr.ret != 0:
            out['broken'].append('h_prep_range d=%d: %r' % (d, (pr.status, pr.ret, pr.info)))
            rng_ok = False
            continue
        Rg = pr.out('buf')
        if any(v is None for v in Rg):
            dec.candidate('range:d=%d:unwritten' % d, 'PrepareEvolve(t0,t1) leaves a table entry unwritten', kind='range', d=d)
            rng_ok = False
            continue
        # finiteness: can a divisor vanish for finite inputs with t0 < t1 ?
        for (pc, den, where) in pr.state.divs:
            conv = S.Conv('real')
            r, mdl, _ = solver.check(pc, conv=conv, extra=[conv.conv(den) == 0], want_model=True,
                                     label='interval average d=%d: divisor %s can be zero for finite inputs with t0<t1' % (d, T.show(den, 3)))
            if r == 'sat':
                names = ['h%d' % k for k in diag_indices(d)] + ['t0', 't1']
                dec.candidate('range-finite:d=%d' % d, 'PrepareEvolve(buf,t0,t1) divides by zero (NaN table entries) for coincident levels', kind='range-finite', d=d,
                              input={x: frac_str(S.model_value(mdl, conv, x)) for x in names})
                rng_ok = False
                break
            elif r != 'unsat':
                out['undecided'].append('range finiteness d=%d' % d)
        # value: CX[m] * alpha*(t1-t0) = sin(alpha t1) - sin(alpha t0), SX[m] * alpha*(t1-t0) = cos(alpha t0) - cos(alpha t1), alpha = frequency of entry m
        if len(pair_of) == npairs:
            angles = {}
            p0, p1 = ctx.poly(t0), ctx.poly(t1)
            for m in range(npairs):
                j, k, sg = pair_of[m]
                al = (E[j] - E[k]).scale(sg)
                angles['%d@t0' % m] = al * p0
                angles['%d@t1' % m] = al * p1
            # value clause is for distinct levels (alpha_m != 0, t0 < t1): select the non-degenerate branch of every guard
            def nondegenerate(cnd):
                if isinstance(cnd, Term) and cnd.op == 'fcmp' and not isinstance(cnd.args[1], Term) and cnd.args[1] == 0:
                    return {'ne': True, 'eq': False}.get(cnd.aux)
                if isinstance(cnd, Term) and cnd.op == 'not':
                    r_ = nondegenerate(cnd.args[0])
                    return None if r_ is None else (not r_)
                return None
            Rdeg = [T.rebuild(v, lambda cnd: (None if nondegenerate(cnd) is None else not nondegenerate(cnd))) for v in Rg]
            guarded = any(Rdeg[m] is not Rg[m] for m in range(2 * npairs))
            if guarded:
                if all((not isinstance(Rdeg[m], Term)) and Rdeg[m] == 1 and (not isinstance(Rdeg[npairs + m], Term)) and Rdeg[npairs + m] == 0 for m in range(npairs)):
                    dec.holds('interval average d=%d: for coincident levels (alpha_m (t1-t0) = 0) the entries are the limits cos->1, sin->0' % d)
                else:
                    dec.candidate('range-degenerate:d=%d' % d, 'interval-average entries for coincident levels are not the limit values (1,0)', kind='range-finite', d=d)
            Rg = [T.rebuild(v, nondegenerate) for v in Rg]
            trig = Trig(ctx, solver, angles)
            trig.canon(Rg)
            rr = Residual(solver, ctx, box=1, tol=TOL)
            trig.bounds(rr)
            polys = []
            for m in range(npairs):
                j, k, sg = pair_of[m]
                al = (E[j] - E[k]).scale(sg)
                den = al * (p1 - p0)
                nC, dC = ctx.rat(Rg[m])
                nS, dS = ctx.rat(Rg[npairs + m])
                expC = trig.sin('%d@t1' % m) - trig.sin('%d@t0' % m)
                expS = trig.cos('%d@t0' % m) - trig.cos('%d@t1' % m)
                polys.append(nC * den - expC * dC)
                polys.append(nS * den - expS * dS)
            if trig.unmatched:
                dec.candidate('range:d=%d' % d, 'interval-average table uses a phase that is not omega_m*t0 / omega_m*t1: %s' % T.show(trig.unmatched[0], 4), kind='range', d=d)
                rng_ok = False
            else:
                okv = dec.decide('interval average d=%d: CX*alpha*(t1-t0) = sin(alpha t1)-sin(alpha t0), SX*alpha*(t1-t0) = cos(alpha t0)-cos(alpha t1) (cross-multiplied)' % d,
                                 polys, 'range:d=%d' % d, dict(kind='range', d=d), res=rr)
                rng_ok = rng_ok and okv
    out.update(worker_result(solver, exstats, functions=FUNCS))
    return out


def replay(chk, h, c):
    d = c['d']
    n = d * d
    npairs = d * (d - 1) // 2
    chk.cov['replayed'] += 1
    rng = np.random.RandomState(chk.seed + 13)
    inp = {k: float(Fraction(v)) for k, v in c.get('input', {}).items()}
    kind = c['kind']

    def hvec(src=None):
        v = np.zeros(n)
        for k in diag_indices(d):
            v[k] = src.get('h%d' % k, 0.0) if src is not None else rng.uniform(-1, 1)
        return v

    def levels(hv):
        ret, o = h.native('h_s2m', [I(d), Buf('a', hv), Buf('re', n=n), Buf('im', n=n)])
        return np.array(o['re']).reshape(d, d).diagonal()

    def base(hv, tt):
        ret, o = h.native('h_prepare', [I(d), Buf('h', hv), D(tt), Buf('buf', n=2 * npairs)])
        return np.array(o['buf'])
    trials = [inp] if inp else []
    trials += [None] * 8
    worst = 0.0
    for tr in trials:
        hv = hvec(tr)
        if kind == 'range-finite':
            if tr is None:
                # make two levels coincide
                hv = np.zeros(n)
                hv[0] = 0.3
            t0v, t1v = (tr.get('t0', 0.0), tr.get('t1', 1.0)) if tr else (0.1, 0.9)
            ret, o = h.native('h_prep_range', [I(d), Buf('h', hv), D(t0v), D(t1v), Buf('buf', n=2 * npairs)])
            if any((x != x) or abs(x) == float('inf') for x in o['buf']):
                return True, float('inf')
            continue
        if kind == 'range':
            t0v, t1v = sorted([(tr or {}).get('t0', rng.uniform(-1, 1)), (tr or {}).get('t1', rng.uniform(-1, 1))])
            if t0v == t1v:
                t1v += 0.5
            ret, o = h.native('h_prep_range', [I(d), Buf('h', hv), D(t0v), D(t1v), Buf('buf', [np.nan] * (2 * npairs))])
            got = np.array(o['buf'])
            # numeric time average of the unaveraged table
            ts = np.linspace(t0v, t1v, 2001)
            acc = np.zeros(2 * npairs)
            vals = np.array([base(hv, float(x)) for x in ts])
            ref = np.trapezoid(vals, ts, axis=0) / (t1v - t0v)
            if np.isnan(got).any():
                worst = max(worst, 1.0)
            else:
                worst = max(worst, np.abs(got - ref).max() - 1e-5)
            # special magnitudes: nearly coincident (not coincident) levels averaged over a short window at a late time -- |omega (t1-t0)| ~ 1e-9 while
            # omega t0 ~ 1: the average is (cos, sin)(omega t_mid) to 1e-12; the library's own cancellation error there is ~1e-7
            hs = np.zeros(n)
            for q, k in enumerate(diag_indices(d)):
                hs[k] = 1e-3 * (0.7 + 0.45 * q)
            t0s, t1s = 1000.0, 1000.0 + 1e-6
            rets, os_ = h.native('h_prep_range', [I(d), Buf('h', hs), D(t0s), D(t1s), Buf('buf', [np.nan] * (2 * npairs))])
            refs = np.array(base(hs, 0.5 * (t0s + t1s)))
            gs = np.array(os_['buf'])
            worst = max(worst, 1.0 if np.isnan(gs).any() else float(np.abs(gs - refs).max()) - 1e-4)
            continue
        tt = (tr or {}).get('t', float(rng.uniform(-2, 2)))
        if kind == 'avg':
            sc = (tr or {}).get('scale', float(rng.uniform(0, 2)))
            ret, o = h.native('h_prep_avg', [I(d), Buf('h', hv), D(tt), D(sc), Buf('buf', [np.nan] * (2 * npairs)), IBuf('flags', [7] * npairs), I(c.get('init', 0))])
            b = base(hv, tt)
            Ed = levels(hv)
            got = np.array(o['buf'])
            # phases from the unaveraged table itself (atan2) are ambiguous; use cos/sin equality + the flag count against |omega t|
            phases = sorted(abs((Ed[j] - Ed[k]) * tt) for j in range(d) for k in range(j + 1, d))
            nflag_expected = sum(1 for x in phases if x > abs(sc))
            if sum(o['flags']) != nflag_expected or any(f not in (0, 1) for f in o['flags']):
                worst = max(worst, 1.0)
            for m in range(npairs):
                if o['flags'][m] == 1:
                    dev = max(abs(got[m]), abs(got[npairs + m]))
                else:
                    dev = max(abs(got[m] - b[m]), abs(got[npairs + m] - b[npairs + m]))
                if dev != dev:
                    dev = 1.0
                worst = max(worst, dev)
                # flag must agree with the phase of that entry: |phase| from the unaveraged entry (cos) is only defined mod 2pi, so compare via t=1 table
        elif kind == 'filter':
            fn = c['fn']
            cut = (tr or {}).get('cutoff', float(rng.uniform(0.2, 2)))
            rmp = (tr or {}).get('ramp', float(rng.uniform(0, 1)) * cut)
            cin = np.array([(tr or {}).get('c%d' % i, rng.uniform(-1, 1)) for i in range(npairs)] + [(tr or {}).get('s%d' % i, rng.uniform(-1, 1)) for i in range(npairs)])
            if abs(rmp) > abs(cut):
                ret, o = h.native(fn, [I(d), Buf('h', hv), Buf('buf', cin)] + ([D(tt)] if fn == 'h_avgramp' else []) + [D(cut), D(rmp)])
                worst = max(worst, 0.0 if ret == 1 else 1.0)
                continue
            args = [I(d), Buf('h', hv), Buf('buf', cin)] + ([D(tt)] if fn == 'h_avgramp' else []) + [D(cut), D(rmp)]
            ret, o = h.native(fn, args)
            if ret != 0:
                worst = max(worst, 1.0)
                continue
            got = np.array(o['buf'])
            if not np.isfinite(got).all():
                return True, float('inf')
            # a hard step (ramp 0) with a pair sitting exactly on the cutoff: only the first diagonal generator is non-zero, so |omega_01| = 2|h| exactly
            hx = np.zeros(n)
            hx[diag_indices(d)[1]] = 0.375
            for tx in ([1.0] if fn == 'h_lowpass' else [1.0, 0.5]):
                argx = [I(d), Buf('h', hx), Buf('buf', cin)] + ([D(tx)] if fn == 'h_avgramp' else []) + [D(0.75 * tx), D(0.0)]
                retx, ox = h.native(fn, argx)
                if retx != 0 or not np.isfinite(np.array(ox['buf'])).all():
                    return True, float('inf')
            # per-entry multiplier from the data; compare the multiset of multipliers with the documented function of |omega| (or |omega t|)
            Ed = levels(hv)
            xs = sorted(abs((Ed[j] - Ed[k]) * (tt if fn == 'h_avgramp' else 1.0)) for j in range(d) for k in range(j + 1, d))

            def mult(x):
                if x > abs(cut):
                    return 0.0
                if x > abs(cut) - abs(rmp):
                    return (abs(cut) - x) / abs(rmp)
                return 1.0
            want = sorted(mult(x) for x in xs)
            have = sorted(float(got[m] / cin[m]) for m in range(npairs))
            have2 = sorted(float(got[npairs + m] / cin[npairs + m]) for m in range(npairs))
            worst = max(worst, max(abs(a - b) for a, b in zip(want, have)), max(abs(a - b) for a, b in zip(want, have2)))
    return worst > 1e-9, worst


def main(tier):
    chk = Check(PID, tier)
    chk.candidates = []
    dims = [2, 3, 4, 5, 6]
    chk.cov['bounds'] = {'dimensions': dims, 'inputs': 'diagonal generators of H, t, t0<t1, scale, cutoff, ramp and the incoming table entries all symbolic reals',
                         'paths': 'if/else diamonds merged at their post-dominator with ite, so each call is one symbolic path covering all 2^(pairs) flag patterns'}
    chk.cov['domains'] = ['R (exact reals); sin/cos uninterpreted (same-argument congruence only) for the threshold/filter clauses; canonical atoms with circle lemma for the interval average']
    chk.cov['lemmas'] = ['congruence of sin/cos applications', 'phase identification theta_m = +-(E_j-E_k)t by solver query on the argument residual',
                         'the interval average of cos(a t), sin(a t) over [t0,t1] is (sin(a t1)-sin(a t0))/(a(t1-t0)), (cos(a t0)-cos(a t1))/(a(t1-t0)) (trusted calculus fact)']
    chk.cov['stubs'] = ['GSL accessors: harness/gsl_shim.c', 'libm sin/cos/fabs', 'operator new for std::vector<bool>']
    chk.assumptions = ['finite inputs', 'oracle for "unaveraged table" is the library\'s own PrepareEvolve(buf,t), whose entries are tied to level pairs here and to conjugation in C03',
                       'clang-14 -O1 IR is the semantics of the source (interpreter-vs-native diff every run)']
    h = Harness(CPP, LIBS)
    rng = np.random.RandomState(chk.seed + 1)
    cases = []
    for d in ([2, 3, 4, 5, 6] if tier == 'thorough' else [2, 3, 6]):
        n = d * d
        npairs = d * (d - 1) // 2
        hv = [0.0] * n
        for k in diag_indices(d):
            hv[k] = float(rng.uniform(-1, 1))
        tb = list(rng.uniform(-1, 1, 2 * npairs))
        cases.append(('h_prep_avg', [I(d), Buf('h', hv), D(1.3), D(0.8), Buf('buf', n=2 * npairs), IBuf('flags', [0] * npairs), I(d % 2)], ['buf', 'flags']))
        cases.append(('h_prep_range', [I(d), Buf('h', hv), D(0.2), D(1.7), Buf('buf', n=2 * npairs)], ['buf']))
        cases.append(('h_lowpass', [I(d), Buf('h', hv), Buf('buf', tb), D(1.1), D(0.6)], ['buf']))
        cases.append(('h_avgramp', [I(d), Buf('h', hv), Buf('buf', tb), D(0.9), D(1.1), D(0.6)], ['buf']))
    generic_interp_vs_native(chk, h, cases)
    with Pool(min(5, os.cpu_count() or 1)) as pool:
        results = pool.map(work, [(d, tier) for d in dims])
    for w in results:
        chk.merge_worker(w)
    seen = set()
    for c in chk.candidates:
        if c['key'] in seen:
            continue
        seen.add(c['key'])
        ok, dev = safe_replay(replay, chk, h, c)
        if ok:
            chk.report(c['key'], '%s; native deviation %.3g' % (c['what'], dev), c)
        else:
            chk.broken_q('counterexample for %s did not reproduce natively (deviation %.3g): encoding discrepancy' % (c['key'], dev))
    return chk.finish()


def replay_main(path):
    c = json.load(open(path))['replay']
    chk = Check(PID, 'quick')
    ok, dev = safe_replay(replay, chk, Harness(CPP, LIBS), c)
    print('replay %s: %s (deviation %.3g)' % (path, 'REPRODUCED' if ok else 'not reproduced', dev))
    return 1 if ok else 0


if __name__ == '__main__':
    sys.exit(main(sys.argv[1] if len(sys.argv) > 1 else 'quick'))
