"""C09 -- fused expression evaluation equals evaluation through a fresh temporary, for every expression shape."""
import sys, time, os, json, hashlib, random, itertools
from fractions import Fraction
from multiprocessing import Pool as MPool
from common import *
from pool import *
from vmodel import Model, Throw, ARITY2, CONSUMES1, CONSUMES2
import c08
from irsym import solver as S

PID = 'C09'
NSLOTS = 5
FUNCS = ['SU_vector::assignProxy<AssignWrapper/IncrementWrapper/DecrementWrapper> for every proxy type', 'SU_vector(ProxyType&&)', 'AdditionProxy/SubtractionProxy/NegationProxy/MultiplicationProxy/BinaryElementwiseOpProxy::compute',
         'iCommutatorProxy/ACommutatorProxy::compute', 'EvolutionProxy/FastEvolutionProxy::compute', 'EvaluationProxy::operator SU_vector (both ref-qualifiers)', 'detail::guarantee / GuaranteeWrapper', 'alloc_aligned / deallocate_mem / cache']
TARGETS = ['empty', 'own-same', 'own-other', 'ext-same', 'ext-other', 'dead']
STORE = ['own', 'ext']
ALIAS = ['none', 't=a', 't=b', 't~a', 'a=b']     # t~a: distinct objects over the same external buffer
NOALLOC_EXPRS = {0, 4, 6, 8, 10, 12, 13, 14, 15, 16, 20}


def shapes(d, dother):
    """yield (stmt, expr, target kind, a storage, b storage, alias)"""
    for e in sorted(EXPRS):
        binary = e in ARITY2
        for stmt in (0, 1, 2, 3):
            for tk in TARGETS:
                if (stmt == 3) != (tk == 'dead'):
                    continue
                for sa in STORE:
                    for sb in (STORE if binary else ['own']):
                        for al in ALIAS:
                            if al in ('t=b', 'a=b') and not binary:
                                continue
                            if stmt == 3 and al in ('t=a', 't=b', 't~a'):
                                continue
                            if al == 't=a' and (e in CONSUMES1 or tk in ('empty', 'own-other', 'ext-other') or (tk.startswith('own') != (sa == 'own'))):
                                continue
                            if al == 't=b' and (e in CONSUMES2 or tk in ('empty', 'own-other', 'ext-other') or (tk.startswith('own') != (sb == 'own'))):
                                continue
                            if al == 't~a' and (sa != 'ext' or not tk.startswith('ext') or e in CONSUMES1):
                                continue
                            if al == 'a=b' and (sa != sb or e in CONSUMES1 or e in CONSUMES2):
                                continue
                            yield (stmt, e, tk, sa, sb, al)


def build_shape(d, dother, shape):
    """-> (program building the pre-state, the statement) ; slots: 0 = a, 1 = b, 2 = v (target), buffers: 0 for a, 1 for b, 2 for v; evolve table in buffer 1 tail"""
    stmt, e, tk, sa, sb, al = shape
    prog = []

    def mk(slot, store, dim, buf):
        if store == 'own':
            return [Ins('EXTERNAL', t=4, x=dim, ext=buf), Ins('COPYCON', t=slot, s1=4), Ins('DESTROY', t=4)]
        return [Ins('EXTERNAL', t=slot, x=dim, ext=buf)]
    prog += mk(0, sa, d, 0)
    a_slot, b_slot, t_slot = 0, 1, 2
    if al == 'a=b':
        b_slot = 0
    else:
        prog += mk(1, sb, d, 1)
    if al == 't=a':
        t_slot = 0
    elif al == 't=b':
        t_slot = 1
    elif tk == 'dead':
        t_slot = 3
    else:
        if tk == 'empty':
            prog.append(Ins('DEFAULT', t=2))
        elif tk.startswith('own'):
            prog += mk(2, 'own', d if tk.endswith('same') else dother, 2)
        else:
            prog.append(Ins('EXTERNAL', t=2, x=d if tk.endswith('same') else dother, ext=0 if al == 't~a' else 2))
    st_ins = Ins('EXPR', t=t_slot, s1=a_slot, s2=b_slot, x=stmt * 32 + e, c=T.var('c'), ext=1 if e == 15 else -1)
    return prog, st_ins


def work(item):
    d, dother, chunk, nchunks, tier, seed = item
    solver = S.Solver(timeout_ms=30000)
    out = new_out(item=[d, dother, chunk])
    pool = Pool(nslots=NSLOTS, nbufs=3, solver=solver)
    twin = Pool(nslots=3, nbufs=3, solver=solver)
    ctx = PolyCtx()
    st0 = pool.initial()
    tw0 = twin.initial()
    kcache = {}

    def kernel(e, dim, a, b, c, tab):
        """value of op(a,b) computed by the real kernel into a fresh temporary from fresh, non-aliased operands"""
        key = (e, dim, tuple(id(x) for x in a), tuple(id(x) for x in (b or [])), id(c), tuple(id(x) for x in (tab or [])))
        if key in kcache:
            return kcache[key]
        s = tw0.clone()
        for buf, vals in ((0, a), (1, b), (2, tab)):
            if vals is None:
                continue
            o = s.find(twin.buf_addr[buf])
            for i, v in enumerate(vals):
                o.cells[8 * i] = (8, v)
        steps = [Ins('EXTERNAL', t=0, x=dim, ext=0), Ins('EXTERNAL', t=1, x=dim, ext=1 if b is not None else 0),
                 Ins('EXPR', t=2, s1=0, s2=1, x=96 + e, c=c, ext=2 if e == 15 else -1)]
        for ins in steps:
            rs = twin.step(s, ins)
            if len(rs) != 1 or rs[0].status != 'ok' or rs[0].retval != 0:
                raise RuntimeError('twin evaluation failed: %r' % (rs,))
            s = rs[0].state
        r = twin.values(s, 2)
        kcache[key] = r
        return r

    allshapes = list(shapes(d, dother))
    mine = allshapes[chunk::nchunks]
    if tier == 'quick' and d > 2:
        rng = random.Random(seed * 31 + d)
        rng.shuffle(mine)
        # stratum first: every (statement kind, operation form) pair of this dimension once, in its plainest storage/alias setting, so that a
        # dimension-specific kernel line interacting with =, += or -= is never left to chance; then the seeded sample
        core = [sh for sh in allshapes if sh[2] in ('own-same', 'dead') and sh[3] == 'own' and sh[4] == 'own' and sh[5] == 'none'][chunk::nchunks]
        mine = core + [sh for sh in mine if sh not in core][:max(1, (480 if d == 3 else 160) // nchunks)]
    nrun = 0
    for shape in mine:
        prog, stmt_ins = build_shape(d, dother, shape)
        model = Model(NSLOTS, pool.buf_init)
        model.kernel = kernel
        st = st0
        okpre = True
        for ins in prog:
            model.apply(ins)
            rs = pool.step(st, ins)
            if len(rs) != 1 or rs[0].status != 'ok' or rs[0].retval != 0:
                okpre = False
                break
            st = rs[0].state
        if not okpre:
            out['broken'].append('shape %r: pre-state construction failed' % (shape,))
            continue
        variants = [stmt_ins]
        stmt, e, tk, sa, sb, al = shape
        # guarantee flags that are TRUE for this shape: NoAlias (1) if nothing aliases the target, EqualSizes (2) if the target already has the size, AlignedStorage (4) if all storage is library-allocated
        if e in (0, 4, 6, 8, 12, 13, 14, 15, 16):
            flags = 0
            if al in ('none', 'a=b') :
                flags |= 1
            if tk in ('own-same', 'ext-same') or al in ('t=a', 't=b'):
                flags |= 2
            if sa == 'own' and sb == 'own' and tk in ('own-same',):
                flags |= 4
            sub = [f for f in (1, 2, 4, 3, 5, 6, 7) if f & ~flags == 0]
            if tier == 'quick':
                sub = sub[-1:] if sub else []
            for f in sub:
                variants.append(Ins('GEXPR', t=stmt_ins.t, s1=stmt_ins.s1, s2=stmt_ins.s2, x=stmt * 1024 + f * 32 + e, c=stmt_ins.c, ext=stmt_ins.ext))
        for ins in variants:
            m2 = model.clone()
            try:
                res = m2.apply(ins)
                expect = None if res == 'any' else 0
            except Throw:
                m2 = model.clone()
                expect = 1
            nrun += 1
            problems = []
            base_alloc = st.nalloc
            for r in pool.step(st, ins):
                where = ins.describe()
                if r.status != 'ok':
                    problems.append('%s: %s' % (r.info.get('kind'), r.info.get('msg')))
                    continue
                if expect is not None and r.retval != expect:
                    problems.append('returned %r; evaluation through a temporary %s' % (r.retval, 'throws' if expect else 'succeeds'))
                    continue
                c08.check_state(pool, r.state, m2, ctx, 'after the statement', problems)
                if not problems and expect == 0 and ins.op == OPS['EXPR'] and stmt in (0, 1, 2) and al == 'none' and tk in ('own-same', 'ext-same') and e in NOALLOC_EXPRS and r.state.nalloc != base_alloc:
                    problems.append('the statement allocates memory (%d allocation(s)) although target and operands pre-exist with matching sizes and no aliasing' % (r.state.nalloc - base_alloc))
                if not problems:
                    okq, info = pool.quiesce(r.state, [k for k, x in enumerate(m2.slots) if x is not None], leaks=False)
                    if not okq:
                        problems.append('at quiescence: ' + info)
            if problems:
                full = prog + [ins]
                scal = None
                try:
                    # a concrete scalar satisfying the failing path (e.g. c == 0 for a special-value branch)
                    for r in pool.step(st, ins):
                        if r.status == 'ok' and r.state.pc:
                            rr, mdl, cv = solver.check(r.state.pc, want_model=True)
                            if rr == 'sat':
                                v_ = S.model_value(mdl, cv, 'c')
                                probs2 = []
                                c08.check_state(pool, r.state, m2, ctx, 'x', probs2)
                                if probs2 or (expect is not None and r.retval != expect):
                                    scal = float(v_)
                                    break
                except Exception:
                    pass
                sig = '%s|%s|%s' % (ins.describe().split('  [')[0], shape[2:], problems[0][:50])
                out['candidates'].append({'key': 'shape:' + hashlib.sha1(sig.encode()).hexdigest()[:10], 'what': 'd=%d target %s, a %s, b %s, alias %s: %s -> %s' % (d, tk, sa, sb, al, ins.describe(), problems[0]),
                                          'lines': [i.line() for i in full], 'program': [i.tojson() for i in full], 'sig': ins.describe().split('  [')[0] + '|' + problems[0][:40], 'd': d, 'scalar': scal})
    out['obligations'].append({'obligation': 'd=%d (other size %d), shape slice %d/%d: %d statements (incl. guarantee<> variants) equal evaluation through a fresh temporary; illegal shapes throw with the target unchanged; no-allocation shapes allocate nothing' % (
        d, dother, chunk, nchunks, nrun), 'verdict': 'holds' if not out['candidates'] else '%d fail' % len(out['candidates'])})
    out['witnesses']['reachability'] += nrun
    out['nshapes'] = nrun
    out.update(worker_result(solver, [pool.ex.stats, twin.ex.stats], functions=FUNCS))
    return out


def replay(chk, c):
    chk.cov['replayed'] += 1
    prog = []
    for ln in c['lines']:
        w = ln.split(' = ')[0].split()
        prog.append(Ins(int(w[0]), int(w[1]), int(w[2]), int(w[3]), int(w[4]), int(w[5]), float(w[6]), int(w[7])))
    rng = random.Random(4321)
    bufs = [[Fraction(rng.randint(-30, 30), 8) for _ in range(BUF_DOUBLES)] for _ in range(3)]
    pre = []
    for b in range(3):
        pre += [Ins('EXTERNAL', t=4, x=2, ext=b, preload=bufs[b]), Ins('DESTROY', t=4)]
    # naive twin natively: the same statement on fresh copies into a fresh target, then component-wise =/+=/-= in the model
    stmt_ins = prog[-1]
    if c.get('scalar') is not None:
        stmt_ins.c = float(c['scalar'])
    res = native_replay(pre + prog, nslots=NSLOTS, nbufs=3)
    c['native'] = {'exit': res['exit'], 'report': (res['report'] or '')[:600]}
    if res['report']:
        return True, 'sanitizer: ' + [l for l in res['report'].split('\n') if l.strip()][0][:200]
    if res.get('invariant'):
        return True, 'native object representation: ' + res['invariant']
    # model with a native kernel oracle (expression evaluated natively on copies)
    def kernel(e, dim, a, b, cc, tab):
        p2 = []
        vb = [list(map(float, a)) + [0.0] * (BUF_DOUBLES - len(a)), (list(map(float, b)) if b is not None else []) + [0.0] * (BUF_DOUBLES - len(b or [])), (list(map(float, tab)) if tab else []) + [0.0] * (BUF_DOUBLES - len(tab or []))]
        for bb in range(3):
            p2 += [Ins('EXTERNAL', t=4, x=2, ext=bb, preload=vb[bb]), Ins('DESTROY', t=4)]
        p2 += [Ins('EXTERNAL', t=0, x=dim, ext=0), Ins('EXTERNAL', t=1, x=dim, ext=1 if b is not None else 0), Ins('EXPR', t=2, s1=0, s2=1, x=96 + e, c=float(cc), ext=2 if e == 15 else -1)]
        r2 = native_replay(p2, nslots=NSLOTS, nbufs=3, tag='twin')
        return [Fraction(x) for x in r2['steps'][-1]['slots'][2]['vals']]
    model = Model(NSLOTS, bufs)
    model.kernel = kernel
    off = 6
    for n, ins in enumerate(prog):
        if isinstance(ins.c, float):
            pass
        m2 = model.clone()
        try:
            r_ = m2.apply(ins)
            expect = None if r_ == 'any' else 0
        except Throw:
            m2 = model.clone()
            expect = 1
        obs = res['steps'][off + n]
        if expect is not None and obs['rc'] != expect:
            return True, 'step %d (%s): rc %d, evaluation through a temporary gives %d' % (n, ins.describe(), obs['rc'], expect)
        model = m2
        for k in range(NSLOTS):
            if model.slots[k] is None or not model.specified(k):
                continue
            dd, want = model.value(k)
            got = obs['slots'].get(k)
            if got is None or got['dim'] != dd:
                return True, 'step %d: slot %d dimension %r, expected %d' % (n, k, got and got['dim'], dd)
            for i, (g, w) in enumerate(zip(got['vals'], want)):
                wv = float(T.evaluate(w, {})) if isinstance(w, T.Term) else float(w)
                if abs(g - wv) > 1e-9 * max(1.0, abs(wv)):
                    return True, 'step %d (%s): slot %d component %d is %.6g, evaluation through a temporary gives %.6g' % (n, ins.describe(), k, i, g, wv)
    if 'allocates memory' in c['what']:
        return True, 'allocation count is decided on the symbolic ledger (no native counterpart needed)'
    return False, 'native run equals evaluation through a temporary'


def main(tier):
    chk = Check(PID, tier)
    chk.candidates = []
    dims = [2, 3, 4, 5, 6]
    nchunks = 8
    items = []
    for d in dims:
        dother = 3 if d == 2 else 2
        for ch in range(nchunks):
            items.append((d, dother, ch, nchunks, tier, chk.seed))
    nshape = len(list(shapes(2, 3)))
    chk.cov['bounds'] = {'shape space per dimension': '%d shapes = {=,+=,-=,construct} x 21 operation/value-category forms (9 operations) x target {empty, self-owned same/other size, external same/other size} x operand storage {self-owned, external}^2 x alias {none, v=a, v=b, v shares a\'s external buffer, a=b}, minus combinations that do not exist' % nshape,
                         'guarantee flags': 'every subset of {NoAlias, EqualSizes, AlignedStorage} that is true for the shape (thorough); the maximal true subset (quick)',
                         'dimensions': 'quick: every shape for d=2, for d=3..6 every (statement kind, operation form) pair once with plain storage (84 shapes per dimension) plus seeded samples of 480 shapes for d=3 and 160 shapes for each of d=4,5,6 (VERIF_SEED rotates them); thorough: every shape for d=2..6', 'values': 'all components, the scalar and the evolution table symbolic'}
    chk.cov['domains'] = ['heap/object model; values compared as normal-form polynomials against the twin (same kernels on fresh, non-aliased operands into a fresh temporary)']
    chk.cov['stubs'] = ['operator new[]: ledger (allocation count for the documented no-allocation shapes)', 'sin/cos: atoms (Evolve shapes)']
    chk.assumptions = ['the twin uses the library\'s own kernels on fresh operands: the content of the kernels is decided in C02/C03; here the subject is the glue (alias detection, resize/theft policy, wrappers, traits)',
                       'rvalue operands must be distinct objects from the target', 'AlignedStorage is asserted only when every participating vector is library-allocated (make_aligned policy)']
    Pool(nslots=NSLOTS)
    pool_interp_vs_native(chk, sample_programs()[:3], nslots=NSLOTS)
    with MPool(min(16, os.cpu_count() or 1)) as mp:
        results = mp.map(work, items, chunksize=1)
    ns = 0
    for w in results:
        chk.merge_worker(w)
        ns += w.get('nshapes', 0)
    chk.cov['statements_checked'] = ns
    seen = set()
    for c in chk.candidates:
        if c['sig'] in seen:
            continue
        seen.add(c['sig'])
        ok, info = replay(chk, c)
        if ok:
            chk.report(c['key'], '%s; native: %s' % (c['what'], info), c)
        else:
            chk.broken_q('counterexample %s did not reproduce natively (%s): %s' % (c['key'], info, c['what'][:300]))
    return chk.finish()


def replay_main(path):
    c = json.load(open(path))['replay']
    chk = Check(PID, 'quick')
    ok, info = replay(chk, c)
    print('replay %s: %s (%s)' % (path, 'REPRODUCED' if ok else 'not reproduced', info))
    return 1 if ok else 0


if __name__ == '__main__':
    sys.exit(main(sys.argv[1] if len(sys.argv) > 1 else 'quick'))
