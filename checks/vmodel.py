"""Reference model of SU_vector value semantics (what the documentation promises), used by C08/C15/C16.

A slot is None (no object), or a dict:
  bind : 'own' | ('ext', b)     -- who provides the storage ('own' also covers empty vectors)
  dim  : int
  vals : list of component values (Terms/Fractions) for 'own'; for ext the values live in model.bufs[b]
  unspec : True after the vector has been consumed by a move -- only safety is required of it afterwards
"""
from fractions import Fraction
from irsym import term as T
from pool import OPS, EXPRS, Ins

ELEMENTWISE = set(range(0, 12)) | {16, 17, 18, 19, 20, 21, 22, 23}
CONSUMES1 = {1, 3, 5, 7, 9, 11, 17, 19, 22, 23}
CONSUMES2 = {2, 3, 18, 19, 21, 23}
ARITY2 = {0, 1, 2, 3, 4, 5, 12, 13, 14, 16, 17, 18, 19, 20, 21, 22, 23}


class Throw(Exception):
    pass


class Model:
    def __init__(self, nslots, bufs):
        self.slots = [None] * nslots
        self.bufs = [list(b) for b in bufs]
        self.kernel = None
        self.dirty = set()      # external buffers whose contents are unspecified (an rvalue bound to them was consumed)

    def clone(self):
        m = Model(len(self.slots), self.bufs)
        m.dirty = set(self.dirty)
        m.kernel = self.kernel
        m.slots = [None if s is None else dict(s, vals=(list(s['vals']) if s.get('vals') is not None else None)) for s in self.slots]
        return m

    def value(self, k):
        s = self.slots[k]
        if s['bind'] == 'own':
            return s['dim'], list(s['vals'])
        b = s['bind'][1]
        n = s['dim'] * s['dim']
        return s['dim'], list(self.bufs[b][:n])

    def setvals(self, k, vals):
        s = self.slots[k]
        if s['bind'] == 'own':
            s['vals'] = list(vals)
        else:
            b = s['bind'][1]
            for i, v in enumerate(vals):
                self.bufs[b][i] = v

    def specified(self, k):
        s = self.slots[k]
        if s is None or s.get('unspec') or s.get('uninit'):
            return False
        if s['bind'] != 'own' and s['bind'][1] in self.dirty:
            return False
        return True

    def apply(self, ins):
        """update the model; raises Throw if the documented behaviour is an exception (model unchanged).
        Returns 'any' when the outcome (success or exception) is not specified by the property: operations that write to, or
        move from, a vector that was consumed while bound to user storage (the property only promises re-usability of
        consumed *self-owned* sources)."""
        op = ins.op
        if op == OPS['GEXPR']:
            return self.apply(Ins('EXPR', t=ins.t, s1=ins.s1, s2=ins.s2, x=(ins.x // 1024) * 32 + ins.x % 32, c=ins.c, ext=ins.ext))
        S = self.slots
        own = lambda d, vals: {'bind': 'own', 'dim': d, 'vals': list(vals)}
        writes_t = op in (OPS['COPYASSIGN'], OPS['MOVEASSIGN'], OPS['FILL'], OPS['PLAININC'], OPS['PLAINDEC'], OPS['SETBACKING']) or (op == OPS['EXPR'] and ins.x // 32 != 3)
        if writes_t and ins.t >= 0 and S[ins.t] is not None and S[ins.t].get('unspec') and S[ins.t].get('origin') == 'ext':
            if S[ins.t]['bind'] != 'own':
                self.dirty.add(S[ins.t]['bind'][1])
            for k in (ins.s1, ins.s2):
                if op == OPS['MOVEASSIGN'] and k >= 0 and k != ins.t and S[k] is not None:
                    if S[k]['bind'] != 'own':
                        self.dirty.add(S[k]['bind'][1])
                    S[k] = dict(S[k], unspec=True, origin='ext' if S[k]['bind'] != 'own' or S[k].get('origin') == 'ext' else 'own')
            return 'any'
        if op in (OPS['MOVEASSIGN'], OPS['MOVECON']) and ins.s1 != ins.t and S[ins.s1] is not None and S[ins.s1].get('unspec'):
            org = S[ins.s1].get('origin', 'own')
            if op == OPS['MOVECON']:
                S[ins.t] = dict(own(0, []), unspec=True, origin=org)
                return None if org == 'own' else 'any'
            tgt = S[ins.t]
            if tgt['bind'] != 'own':
                self.dirty.add(tgt['bind'][1])
                S[ins.t] = dict(tgt, unspec=True, origin='ext')
                return 'any'
            S[ins.t] = dict(own(0, []), unspec=True, origin=org)
            return None if org == 'own' else 'any'
        if op == OPS['DEFAULT']:
            S[ins.t] = own(0, [])
        elif op == OPS['SIZED']:
            if ins.x == 1 or ins.x > 6:
                raise Throw()
            S[ins.t] = own(ins.x, [Fraction(0)] * (ins.x * ins.x))
        elif op == OPS['ALIGNED']:
            if ins.x == 1 or ins.x > 6:
                raise Throw()
            S[ins.t] = own(ins.x, [Fraction(0)] * (ins.x * ins.x)) if ins.y else dict(own(ins.x, [None] * (ins.x * ins.x)), uninit=True)
        elif op == OPS['EXTERNAL']:
            if ins.x == 1 or ins.x > 6:
                raise Throw()
            S[ins.t] = {'bind': ('ext', ins.ext), 'dim': ins.x, 'vals': None}
        elif op == OPS['FROMLIST']:
            d = int(round(ins.x ** 0.5))
            if d * d != ins.x or d == 1 or d > 6 or d == 0:
                raise Throw()
            S[ins.t] = own(d, self.bufs[ins.ext][:ins.x])
        elif op == OPS['COPYCON']:
            d, v = self.value(ins.s1)
            S[ins.t] = own(d, v)
        elif op == OPS['MOVECON']:
            src = S[ins.s1]
            if src['bind'] == 'own':
                S[ins.t] = own(src['dim'], src['vals'])
                S[ins.s1] = own(0, [])          # "left empty, as if default constructed"
            else:
                S[ins.t] = dict(src)
        elif op == OPS['DESTROY']:
            S[ins.t] = None
        elif op == OPS['COPYASSIGN']:
            if ins.t == ins.s1:
                return
            d, v = self.value(ins.s1)
            tgt = S[ins.t]
            if tgt['bind'] != 'own':
                if tgt['dim'] != d:
                    raise Throw()
                self.setvals(ins.t, v)
            else:
                S[ins.t] = own(d, v)
        elif op == OPS['MOVEASSIGN']:
            if ins.t == ins.s1:
                return
            tgt, src = S[ins.t], S[ins.s1]
            d, v = self.value(ins.s1)
            if tgt['bind'] != 'own':
                if tgt['dim'] != d:
                    raise Throw()
                self.setvals(ins.t, v)
            else:
                was_empty = tgt['dim'] == 0 and not tgt.get('vals')
                S[ins.t] = dict(src, vals=(list(src['vals']) if src.get('vals') is not None else None))
                S[ins.t].pop('unspec', None)
                # the source relinquished whatever it had ("switch to using whatever storage was used by other"): safe, value unspecified
                S[ins.s1] = dict(own(0, []), unspec=True, origin='own') if src['bind'] == 'own' else dict(src, unspec=True, origin='ext')
        elif op == OPS['SETBACKING']:
            S[ins.t] = {'bind': ('ext', ins.ext), 'dim': S[ins.t]['dim'], 'vals': None}
        elif op == OPS['FILL']:
            d, v = self.value(ins.t)
            self.setvals(ins.t, [T.R(ins.c) if not isinstance(ins.c, T.Term) else ins.c] * len(v))
        elif op == OPS['EXPR']:
            stmt, e = ins.x // 32, ins.x % 32
            d1, a = self.value(ins.s1)
            if e in ARITY2:
                d2, b = self.value(ins.s2)
                if d1 != d2:
                    raise Throw()
            c = ins.c if isinstance(ins.c, T.Term) else T.R(ins.c)
            if e in (0, 1, 2, 3):
                r = [T.fadd(x, y) for x, y in zip(a, b)]
            elif e in (4, 5):
                r = [T.fsub(x, y) for x, y in zip(a, b)]
            elif e in (6, 7):
                r = [T.fneg(x) for x in a]
            elif e in (8, 9, 10, 11):
                r = [T.fmul(c, x) for x in a]
            elif e in (16, 17, 18, 19):
                r = [T.fmul(x, y) for x, y in zip(a, b)]
            elif e in (20, 21, 22, 23):
                r = [T.fadd(T.fmul(x, y), x) for x, y in zip(a, b)]       # the user operation a*b+a is not commutative: operand order matters
            elif e in (12, 13, 14, 15) and self.kernel is not None:
                # non-element-wise operations: the value of op(a,b) evaluated into a fresh temporary (twin execution of the real kernel)
                r = self.kernel(e, d1, a, b if e in ARITY2 else None, c, list(self.bufs[ins.ext][:d1 * (d1 - 1)]) if e == 15 else None)
            else:
                raise NotImplementedError('model: expression %d' % e)
            # an element-wise expression may hand the storage of an rvalue operand to its destination; if that operand was bound to
            # user storage the destination shares the user's buffer (allowed: "vectors derived by move from such a vector share it")
            donor = None
            if e in ELEMENTWISE:
                if e in CONSUMES1 and S[ins.s1]['bind'] != 'own':
                    donor = S[ins.s1]['bind'][1]
                elif e in CONSUMES2 and e not in CONSUMES1 and S[ins.s2]['bind'] != 'own':
                    donor = S[ins.s2]['bind'][1]
            if stmt == 3:
                if donor is not None and e in CONSUMES1:
                    S[ins.t] = {'bind': ('ext', donor), 'dim': d1, 'vals': None}
                    self.setvals(ins.t, r)
                else:
                    S[ins.t] = own(d1, r)
            else:
                tgt = S[ins.t]
                dt, tv = self.value(ins.t)
                if stmt == 0:
                    if tgt['bind'] != 'own':
                        if dt != d1:
                            raise Throw()
                        self.setvals(ins.t, r)
                    elif donor is not None and dt != d1:
                        S[ins.t] = {'bind': ('ext', donor), 'dim': d1, 'vals': None}
                        self.setvals(ins.t, r)
                    else:
                        S[ins.t] = own(d1, r)
                else:
                    if dt != d1:
                        raise Throw()
                    self.setvals(ins.t, [T.fadd(x, y) if stmt == 1 else T.fsub(x, y) for x, y in zip(tv, r)])
            # consumed rvalue operands: only safety is promised afterwards (unless they are external: storage is never taken from the user...
            # the library may let the destination share it, the source keeps its binding)
            for cons, k in ((CONSUMES1, ins.s1), (CONSUMES2, ins.s2)):
                if e in cons and k != ins.t and S[k] is not None:
                    org = 'own' if S[k]['bind'] == 'own' else 'ext'
                    if S[k]['bind'] != 'own' and S[k]['bind'][1] != donor:
                        self.dirty.add(S[k]['bind'][1])
                    elif S[k]['bind'] != 'own' and not (S[ins.t] is not None and S[ins.t]['bind'] == ('ext', donor)):
                        self.dirty.add(S[k]['bind'][1])
                    S[k] = dict(S[k], unspec=True, origin=org)
        elif op in (OPS['EQ'], OPS['CLEARCACHE'], OPS['TRACE']):
            pass
        elif op == OPS['PLAININC'] or op == OPS['PLAINDEC']:
            dt, tv = self.value(ins.t)
            d1, a = self.value(ins.s1)
            if dt != d1:
                raise Throw()
            self.setvals(ins.t, [T.fadd(x, y) if op == OPS['PLAININC'] else T.fsub(x, y) for x, y in zip(tv, a)])
        else:
            raise NotImplementedError('model: op %d' % op)
