"""Shared infrastructure for the per-property checks: evidence, violations, known findings, numeric deciders."""
import json, os, sys, time, hashlib, random
from fractions import Fraction
import z3

VERIF = os.path.dirname(os.path.dirname(os.path.abspath(__file__)))
sys.path.insert(0, VERIF)
from irsym import term as T, solver as S
from irsym.term import Term, Poly, PolyCtx

KNOWN_FILE = os.path.join(VERIF, 'known_findings.txt')
OUT = os.environ.get('VERIF_OUT', VERIF)      # evidence/ and replays/ are written below this directory (default: /verif)


def load_known():
    out = []
    if not os.path.exists(KNOWN_FILE):
        return out
    for ln in open(KNOWN_FILE):
        ln = ln.strip()
        if ln.startswith('known:'):
            head, _, what = ln[6:].partition('::')
            kv = dict(x.split('=', 1) for x in head.split() if '=' in x)
            out.append({'status': 'known', 'property': kv.get('property'), 'key': kv.get('key'), 'what': what.strip()})
        elif ln.startswith('fixed:'):
            parts = ln[6:].split(None, 2)
            kv = dict(x.split('=', 1) for x in parts[:1] if '=' in x)
            out.append({'status': 'fixed', 'property': kv.get('property'), 'commit': parts[1] if len(parts) > 1 else None, 'what': parts[2] if len(parts) > 2 else ''})
    return out


class Check:
    def __init__(self, pid, tier, level='model_checking'):
        self.pid = pid
        self.tier = tier
        self.level = level
        self.seed = int(os.environ.get('VERIF_SEED', '0') or 0)
        self.rng = random.Random(self.seed)
        self.t0 = time.time()
        self.violations = []      # unlisted, reproduced
        self.known_hits = []
        self.undecided = []
        self.broken = []
        self.samples = []
        self.assumptions = []
        self.cov = {'functions_encoded': [], 'bounds': {}, 'domains': [], 'stubs': [], 'lemmas': [],
                    'queries': {'sat': 0, 'unsat': 0, 'unknown': 0}, 'solver_s': 0.0, 'paths': 0, 'ir_instructions': 0,
                    'witnesses': {'reachability': 0, 'sensitivity': 0}, 'interp_vs_native': {'cases': 0, 'mismatches': 0},
                    'replayed': 0, 'obligation_list': []}
        self.hashes = set()
        self.nqueries = 0
        self.known = [k for k in load_known() if k.get('property') == pid]
        os.makedirs(os.path.join(OUT, 'replays'), exist_ok=True)
        os.makedirs(os.path.join(OUT, 'evidence'), exist_ok=True)

    # ------------------------------------------------------------ bookkeeping
    def note_solver(self, solver):
        st = solver.stats
        for k in ('sat', 'unsat', 'unknown'):
            self.cov['queries'][k] += st.get(k, 0)
        self.cov['solver_s'] += st.get('time', 0.0)
        self.nqueries += st.get('queries', 0)
        self.hashes |= solver.hashes
        self.note_cross(getattr(solver, 'cross', None))
        solver.cross = {'agree': 0, 'inconclusive': 0, 'disagree': []}
        for s in solver.samples:
            if len(self.samples) < 24:
                self.samples.append(s)

    def note_exec(self, ex):
        self.cov['paths'] += ex.stats['paths']
        self.cov['ir_instructions'] += ex.stats['steps']

    def merge_worker(self, w):
        """merge a worker's partial result dict (see worker_result)"""
        for k in ('sat', 'unsat', 'unknown'):
            self.cov['queries'][k] += w['queries'].get(k, 0)
        self.cov['solver_s'] += w['solver_s']
        self.nqueries += w['nqueries']
        self.hashes |= set(w['hashes'])
        self.cov['paths'] += w['paths']
        self.cov['ir_instructions'] += w['ir_instructions']
        for s in w['samples']:
            if len(self.samples) < 24:
                self.samples.append(s)
        for o in w.get('obligations', []):
            self.cov['obligation_list'].append(o)
        for k, v in w.get('witnesses', {}).items():
            self.cov['witnesses'][k] = self.cov['witnesses'].get(k, 0) + v
        for f in w.get('functions', []):
            if f not in self.cov['functions_encoded']:
                self.cov['functions_encoded'].append(f)
        for c in w.get('candidates', []):
            self.candidates.append(c)
        for u in w.get('undecided', []):
            self.undecided.append(u)
        for b in w.get('broken', []):
            self.broken.append(b)
        self.note_cross(w.get('cvc5'))

    def note_cross(self, c):
        if not c:
            return
        x = self.cov.setdefault('cvc5_second_opinion', {'agree': 0, 'inconclusive': 0, 'disagree': 0})
        x['agree'] += c['agree']
        x['inconclusive'] += c['inconclusive']
        x['disagree'] += len(c['disagree'])
        for dgr in c['disagree']:
            self.broken_q('z3 and cvc5 disagree on a dumped query: %r' % (dgr,))

    candidates = None

    def obligation(self, name, verdict, seconds=None, detail=None):
        d = {'obligation': name, 'verdict': verdict}
        if seconds is not None:
            d['seconds'] = round(seconds, 3)
        if detail:
            d['detail'] = detail
        self.cov['obligation_list'].append(d)

    # ------------------------------------------------------------ findings
    def report(self, key, what, replay):
        """a reproduced violation.  key identifies the failing call site / input class."""
        path = os.path.join(OUT, 'replays', '%s-%s.json' % (self.pid, hashlib.sha1(key.encode()).hexdigest()[:10]))
        with open(path, 'w') as f:
            json.dump({'property': self.pid, 'key': key, 'what': what, 'replay': replay}, f, indent=1, default=str)
        for k in self.known:
            if k.get('status') == 'known' and k.get('key') == key:
                self.known_hits.append((key, what))
                print('KNOWN-FINDING: property=%s %s [%s]' % (self.pid, k.get('what', what), key))
                return
        self.violations.append((key, what, path))
        print('VIOLATION property=%s replay=%s' % (self.pid, path))
        print('  what: %s' % what)
        print('  key:  %s' % key)

    def undecided_q(self, what):
        self.undecided.append(what)
        print('UNDECIDED %s: %s' % (self.pid, what))

    def broken_q(self, what):
        self.broken.append(what)
        print('BROKEN %s: %s' % (self.pid, what))

    # ------------------------------------------------------------ output
    def finish(self):
        wall = time.time() - self.t0
        cov = self.cov
        cov['evaluations'] = max(self.nqueries, 1)
        cov['distinct_nontrivial'] = len(self.hashes)
        cov['rule'] = ('one evaluation = one solver query discharged (z3); distinct_nontrivial = number of distinct SMT-LIB '
                       'texts among the labelled queries (hash of the formula), constant-folded obligations are not counted')
        cov['samples'] = self.samples[:24] or [{'note': 'no labelled query'}]
        cov['states'] = max(cov['paths'], 1)
        cov['transitions'] = max(cov['ir_instructions'], 1)
        cov['traces_validated_against_impl'] = cov['interp_vs_native']['cases'] + cov['replayed']
        cov['solver_s'] = round(cov['solver_s'], 3)
        cov['known_findings_hit'] = [k for k, _ in self.known_hits]
        cov['undecided'] = self.undecided
        cov['broken'] = self.broken
        if self.level == 'other':
            cov['explanation'] = cov.get('explanation', 'see level_note in MANIFEST.json')
        ev = {'property_id': self.pid, 'tier': self.tier, 'seed': self.seed, 'level': self.level, 'coverage': cov,
              'assumptions': self.assumptions, 'wall_s': round(wall, 2), 'violations': len(self.violations)}
        with open(os.path.join(OUT, 'evidence', '%s.json' % self.pid), 'w') as f:
            json.dump(ev, f, indent=1, default=str)
        q = cov['queries']
        print('%s %s: %d queries (unsat %d / sat %d / unknown %d), %d paths, %d IR instructions, %.1fs solver, %.1fs wall' % (
            self.pid, self.tier, self.nqueries, q['unsat'], q['sat'], q['unknown'], cov['paths'], cov['ir_instructions'],
            cov['solver_s'], wall))
        if self.violations:
            print('%s: %d violation(s)' % (self.pid, len(self.violations)))
            return 1
        if self.broken:
            print('%s: BROKEN infrastructure (%d): %s' % (self.pid, len(self.broken), self.broken[:3]))
            return 3
        if self.undecided:
            print('%s: %d obligation(s) undecided: %s' % (self.pid, len(self.undecided), self.undecided[:3]))
            return 2
        print('%s: holds on everything explored%s' % (self.pid, (' (%d known finding(s) listed)' % len(self.known_hits)) if self.known_hits else ''))
        return 0


def worker_result(solver, ex_stats_list, **kw):
    d = {'queries': {k: solver.stats.get(k, 0) for k in ('sat', 'unsat', 'unknown')}, 'solver_s': solver.stats.get('time', 0.0),
         'nqueries': solver.stats.get('queries', 0), 'hashes': list(solver.hashes), 'samples': solver.samples,
         'paths': sum(s['paths'] for s in ex_stats_list), 'ir_instructions': sum(s['steps'] for s in ex_stats_list), 'cvc5': solver.cross}
    d.update(kw)
    return d


# ------------------------------------------------------------------------------------ numeric deciders
class Residual:
    """decides  forall x in box: |p(x)| <= tol  for polynomials p (in normal form) by solver queries."""

    def __init__(self, solver, ctx, box=1, tol=Fraction(1, 10 ** 13)):
        self.solver = solver
        self.ctx = ctx
        self.box = Fraction(box)
        self.tol = Fraction(tol)
        self.atom_bound = {}     # atom index -> bound on |atom| (default: box)

    def bound(self, a):
        return self.atom_bound.get(a, self.box)

    def relax_query(self, polys, label):
        """LRA relaxation: every monomial is a fresh variable bounded by the product of its atoms' bounds.
        One query for the whole family: exists k: |p_k| > tol.   unsat => all bounds hold."""
        s = self.solver
        mon = {}
        cons = []
        sums = []
        for p in polys:
            e = z3.RealVal(0)
            terms = []
            for m, c in p.d.items():
                if not m:
                    terms.append(S.Conv().rconst(c))
                    continue
                y = mon.get(m)
                if y is None:
                    y = z3.Real('m!%d' % len(mon))
                    mon[m] = y
                    b = Fraction(1)
                    for a, pw in m:
                        b *= self.bound(a) ** pw
                    bb = S.Conv().rconst(b)
                    cons.append(z3.And(y >= -bb, y <= bb))
                terms.append(S.Conv().rconst(c) * y)
            sums.append(z3.Sum(terms) if terms else z3.RealVal(0))
        tol = S.Conv().rconst(self.tol)
        viol = z3.Or([z3.Or(e > tol, e < -tol) for e in sums]) if sums else z3.BoolVal(False)
        return s.check([], extra=cons + [viol], label=label)

    def exact_query(self, p, label, extra_terms=(), timeout_ms=None):
        """NRA query on the residual itself: exists atoms in bounds with |p| > tol.  Returns (verdict, model env)."""
        conv = S.Conv('real')
        atoms = sorted(p.atoms())
        av = {}
        cons = []
        for a in atoms:
            t = self.ctx.atom_terms[a]
            if t.op == 'var':
                v = conv.conv(t)
            else:
                v = z3.Real('atom!%d' % a)
            av[a] = v
            b = conv.rconst(self.bound(a))
            cons.append(z3.And(v >= -b, v <= b))
        e = z3.RealVal(0)
        terms = []
        for m, c in p.d.items():
            x = conv.rconst(c)
            for a, pw in m:
                for _ in range(pw):
                    x = x * av[a]
            terms.append(x)
        e = z3.Sum(terms) if terms else z3.RealVal(0)
        tol = conv.rconst(self.tol)
        old = self.solver.timeout_ms
        if timeout_ms:
            self.solver.timeout_ms = timeout_ms
        try:
            r, m, _ = self.solver.check(list(extra_terms), conv=conv, extra=cons + [z3.Or(e > tol, e < -tol)], label=label, want_model=True)
        finally:
            self.solver.timeout_ms = old
        env = None
        if r == 'sat':
            env = {}
            for a in atoms:
                v = m.eval(av[a], model_completion=True)
                if z3.is_rational_value(v):
                    env[a] = Fraction(v.numerator_as_long(), v.denominator_as_long())
                else:
                    ap = v.approx(20)
                    env[a] = Fraction(ap.numerator_as_long(), ap.denominator_as_long())
        return r, env


def cmul(a, b):
    """complex product on pairs of Poly"""
    return (a[0] * b[0] - a[1] * b[1], a[0] * b[1] + a[1] * b[0])


def cadd(a, b):
    return (a[0] + b[0], a[1] + b[1])


def csub(a, b):
    return (a[0] - b[0], a[1] - b[1])


def matmul(A, B, d):
    out = [[None] * d for _ in range(d)]
    for i in range(d):
        for j in range(d):
            s = (Poly(), Poly())
            for k in range(d):
                s = cadd(s, cmul(A[i][k], B[k][j]))
            out[i][j] = s
    return out


def dagger(A, d):
    return [[(A[j][i][0], -A[j][i][1]) for j in range(d)] for i in range(d)]


def frac_str(x):
    return '%d/%d' % (x.numerator, x.denominator)


# ------------------------------------------------------------------------------------ shared symbolic helpers
def sym_vec(prefix, n):
    return [T.var('%s%d' % (prefix, i)) for i in range(n)]


def s2m_map(h, d, ctx, fn='h_s2m'):
    """execute GetGSLMatrix symbolically with all d^2 components symbolic; returns per-entry linear Polys"""
    from irsym.harness import I, Buf
    n = d * d
    xs = sym_vec('x', n)
    ps = h.run(fn, [I(d), Buf('a', xs), Buf('re', n=n), Buf('im', n=n)])
    if not (len(ps) == 1 and ps[0].status == 'ok' and ps[0].ret == 0):
        raise RuntimeError('S2M execution: unexpected paths %r' % (ps,))
    p = ps[0]
    re = [ctx.poly(v) for v in p.out('re')]
    im = [ctx.poly(v) for v in p.out('im')]
    for q in re + im:
        if not (q.degree() <= 1 and () not in q.d):
            raise RuntimeError('S2M is not linear-homogeneous')
    xat = [ctx.atom(x) for x in xs]
    return re, im, xat, h.last_ex.stats


def apply_map(re, im, xat, comps, d):
    """matrix (d x d of (Poly re, Poly im)) of the vector whose components are the Polys `comps`"""
    idx = {a: k for k, a in enumerate(xat)}
    M = [[None] * d for _ in range(d)]
    for i in range(d):
        for j in range(d):
            pr = Poly()
            pi = Poly()
            for m, c in re[i * d + j].d.items():
                pr = pr + comps[idx[m[0][0]]].scale(c)
            for m, c in im[i * d + j].d.items():
                pi = pi + comps[idx[m[0][0]]].scale(c)
            M[i][j] = (pr, pi)
    return M


def gellmann(d):
    """generalised Gell-Mann basis in the SQuIDS component layout (index d*i+j): list of d^2 complex matrices with
    entries as pairs of Fractions (sqrt factors to ~1e-30).  0: identity; (i<j): symmetric at d*i+j, antisymmetric
    (-i at (i,j), +i at (j,i)) at d*j+i; diagonal l=1..d-1 at d*l+l: sqrt(2/(l(l+1))) diag(1,..,1,-l,0,..)."""
    from decimal import Decimal, getcontext
    getcontext().prec = 50
    n = d * d
    B = [[[(Fraction(0), Fraction(0)) for _ in range(d)] for _ in range(d)] for _ in range(n)]
    for i in range(d):
        B[0][i][i] = (Fraction(1), Fraction(0))
    for i in range(d):
        for j in range(i + 1, d):
            B[d * i + j][i][j] = (Fraction(1), Fraction(0))
            B[d * i + j][j][i] = (Fraction(1), Fraction(0))
            B[d * j + i][i][j] = (Fraction(0), Fraction(-1))
            B[d * j + i][j][i] = (Fraction(0), Fraction(1))
    for l in range(1, d):
        c = Fraction((Decimal(2) / Decimal(l * (l + 1))).sqrt())
        for k in range(l):
            B[d * l + l][k][k] = (c, Fraction(0))
        B[d * l + l][l][l] = (-l * c, Fraction(0))
    return B


class Decider:
    """residual-based decision of numeric obligations inside a worker; fills the worker's `out` dict"""

    def __init__(self, solver, ctx, out, tol=Fraction(1, 10 ** 13), box=1):
        self.solver = solver
        self.ctx = ctx
        self.out = out
        self.res = Residual(solver, ctx, box=box, tol=tol)

    def holds(self, name, detail=None, seconds=None):
        d = {'obligation': name, 'verdict': 'holds'}
        if detail:
            d['detail'] = detail
        if seconds is not None:
            d['seconds'] = round(seconds, 3)
        self.out['obligations'].append(d)

    def candidate(self, key, what, **kw):
        c = {'key': key, 'what': what}
        c.update(kw)
        self.out['candidates'].append(c)

    def decide(self, name, polys, key, cand_extra, sens_poly=None, res=None):
        """polys: residual polynomials that must stay within tol on the box.  Returns True if it holds."""
        res = res or self.res
        t1 = time.time()
        ok = True
        r = res.relax_query(polys, '%s (linear relaxation of the normal-form residual, %d entries)' % (name, len(polys)))
        if r == 'unsat':
            self.holds(name, seconds=time.time() - t1, detail='max L1 norm of a residual %.3g' % float(max([p.l1() for p in polys] or [0])))
        else:
            found = False
            for k, p in enumerate(polys):
                if p.l1() <= res.tol:
                    continue
                rr, env = res.exact_query(p, '%s entry %d (NRA witness query)' % (name, k), timeout_ms=60000)
                if rr == 'sat':
                    found = True
                    ok = False
                    inp = {}
                    for at, v in env.items():
                        t = self.ctx.atom_terms[at]
                        inp[t.aux if t.op == 'var' else 'atom:%s' % T.show(t, 2)] = frac_str(v)
                    self.candidate(key, '%s is violated (residual entry %d)' % (name, k), input=inp, entry=k, **cand_extra)
                    break
                elif rr == 'unsat':
                    continue
                else:
                    self.out['undecided'].append('%s entry %d: NRA witness query returned unknown' % (name, k))
                    found = True
                    ok = False
                    break
            if not found:
                self.holds(name + ' (after per-entry NRA queries)', seconds=time.time() - t1)
        if sens_poly is not None:
            r2 = res.relax_query([sens_poly], None)
            if r2 == 'sat':
                self.out['witnesses']['sensitivity'] += 1
            else:
                self.out['broken'].append('%s: sensitivity witness not sat' % name)
        return ok


def new_out(**kw):
    d = {'obligations': [], 'candidates': [], 'undecided': [], 'broken': [], 'witnesses': {'reachability': 0, 'sensitivity': 0}}
    d.update(kw)
    return d


def generic_interp_vs_native(chk, h, cases):
    """cases: list of (fn, args, out buffer names).  Concrete-double interpretation of the IR vs the g++ build."""
    for fn, args, names in cases:
        ps = h.run(fn, args, domain='C')
        chk.cov['interp_vs_native']['cases'] += 1
        try:
            ret, o = h.native(fn, args)
        except Exception as e:
            # the real code crashed: the interpreter must have ended this path in an error as well
            if not (len(ps) == 1 and ps[0].status == 'error'):
                chk.cov['interp_vs_native']['mismatches'] += 1
                chk.broken_q('native build crashed on %s (%s) but the interpreter did not report an error' % (fn, e))
            continue
        ok = len(ps) == 1 and ps[0].status == 'ok' and ps[0].ret == ret
        if ok:
            for nm in names:
                mine = ps[0].out(nm)
                for x, y in zip(mine, o[nm]):
                    if x is None:
                        if y == y:
                            ok = False   # native wrote a value the interpreter did not
                    elif not (x == y or (x != x and y != y)):
                        ok = False
        if not ok:
            chk.cov['interp_vs_native']['mismatches'] += 1
            chk.broken_q('interpreter and native build disagree on %s %r: %r vs native ret %r' % (fn, [getattr(a, 'v', None) for a in args[:3]], ps, ret))


# ------------------------------------------------------------------------------------ trigonometric atoms
class Trig:
    """canonicalises sin/cos atoms against a table of named angles.

    angles: dict name -> Poly (the angle as a polynomial in the input atoms).  For every sin/cos subterm of the given
    terms whose argument polynomial equals +-(angle) (decided by the solver on the residual of the arguments, with
    tolerance arg_tol on the unit box) the atom is substituted by +-S[name] / C[name].  Lemmas (sin^2+cos^2=1, |.|<=1)
    are then available on the canonical atoms only."""

    def __init__(self, ctx, solver, angles, arg_tol=Fraction(1, 10 ** 13)):
        self.ctx = ctx
        self.solver = solver
        self.angles = angles
        self.S = {}
        self.C = {}
        self.pairs = []
        self.unmatched = []
        self.matched = {}
        self.arg_tol = arg_tol
        for name in angles:
            s = T.var('S[%s]' % name)
            c = T.var('C[%s]' % name)
            self.S[name] = ctx.atom(s)
            self.C[name] = ctx.atom(c)
            self.pairs.append((self.C[name], self.S[name]))

    def sin(self, name):
        return Poly.atom(self.S[name])

    def cos(self, name):
        return Poly.atom(self.C[name])

    def canon(self, terms):
        res = Residual(self.solver, self.ctx, box=1, tol=self.arg_tol)
        for t in T.atoms_of(terms, ('sin', 'cos')):
            if t.id in self.ctx.atom_of:
                continue
            ap = self.ctx.poly(t.args[0])
            hit = None
            for name, w in self.angles.items():
                for sg in (1, -1):
                    diff = ap - w.scale(sg)
                    if diff.is_zero() or (diff.l1() <= self.arg_tol * 8 and res.relax_query([diff], None) == 'unsat'):
                        hit = (name, sg)
                        break
                if hit:
                    break
            i = self.ctx.atom(t)
            if hit is None:
                self.unmatched.append(t)
                continue
            name, sg = hit
            self.matched[t.id] = hit
            if t.op == 'sin':
                self.ctx.subst[i] = self.sin(name).scale(sg)
            else:
                self.ctx.subst[i] = self.cos(name)

    def bounds(self, residual):
        for c, s in self.pairs:
            residual.atom_bound[c] = Fraction(1)
            residual.atom_bound[s] = Fraction(1)

    def reduce(self, p):
        return self.ctx.reduce_squares(p, self.pairs)


class TrigLin:
    """sin/cos of integer combinations of base angle variables, rewritten over canonical atoms S[v], C[v] by the
    addition formulas (true lemmas: sin(x+y), cos(x+y), parity, sin 0 = 0, cos 0 = 1); circle lemma via reduce()."""

    def __init__(self, ctx):
        self.ctx = ctx
        self.S = {}
        self.C = {}
        self.pairs = []
        self.unmatched = []
        self.instances = 0

    def base(self, vterm):
        """register angle variable (a Term var) and return (S poly, C poly)"""
        i = self.ctx.atom(vterm)
        if i not in self.S:
            s = self.ctx.atom(T.var('S[%s]' % vterm.aux))
            c = self.ctx.atom(T.var('C[%s]' % vterm.aux))
            self.S[i], self.C[i] = s, c
            self.pairs.append((c, s))
        return Poly.atom(self.S[i]), Poly.atom(self.C[i])

    def expand(self, combo):
        """combo: dict atom index -> integer multiple.  returns (sin, cos) Polys of the combination"""
        s, c = Poly(), Poly.const(1)
        for a, n in sorted(combo.items()):
            sa, ca = Poly.atom(self.S[a]), Poly.atom(self.C[a])
            if n < 0:
                sa = -sa
                n = -n
            for _ in range(n):
                s, c = s * ca + c * sa, c * ca - s * sa
        return s, c

    def canon(self, terms):
        for t in T.atoms_of(terms, ('sin', 'cos')):
            if t.id in self.ctx.atom_of:
                continue
            ap = self.ctx.poly(t.args[0])
            combo = {}
            ok = True
            for m, cf in ap.d.items():
                if len(m) != 1 or m[0][1] != 1 or cf.denominator != 1 or m[0][0] not in self.S or abs(cf) > 8:
                    ok = False
                    break
                combo[m[0][0]] = int(cf)
            i = self.ctx.atom(t)
            if not ok:
                self.unmatched.append(t)
                continue
            s, c = self.expand(combo)
            self.ctx.subst[i] = s if t.op == 'sin' else c
            self.instances += 1

    def bounds(self, residual):
        for c, s in self.pairs:
            residual.atom_bound[c] = Fraction(1)
            residual.atom_bound[s] = Fraction(1)

    def reduce(self, p):
        return self.ctx.reduce_squares(p, self.pairs)


def safe_replay(fn, chk, h, c):
    """run a replay function; a crash of the native code (abort, segfault) counts as reproduced"""
    from irsym.harness import NativeCrash
    try:
        return fn(chk, h, c)
    except NativeCrash as e:
        c['native_crash'] = str(e)
        return True, float('inf')
