"""C15 -- no operation history leaks, double-frees, touches foreign memory or executes undefined operations."""
import sys, time, os, json, hashlib, random
from fractions import Fraction
from multiprocessing import Pool as MPool
from common import *
from pool import *
import c08
from irsym import solver as S, build
from irsym.exec import Executor
from irsym.harness import load_module

PID = 'C15'
NSLOTS = 5
FUNCS = ['every SU_vector constructor and factory (valid and invalid arguments)', 'copy/move/proxy assignment, compound assignment, SetBackingStore, destructor', 'operator+ - * scalar, iCommutator, ACommutator, Evolve, ElementwiseProduct/Operation, implicit proxy conversions',
         'operator==, operator*(vector), SetAllComponents, *= /=', 'Rotate(i,j,..), Rotate(matrix), Transpose/Real/Imag, GetGSLMatrix, GetComponents, operator<<', 'alloc_aligned / deallocate_mem / detail::cache / clear_mem_cache',
         'SQuIDS::SQuIDS(), SQuIDS(nx,...), ini (re-initialisation), move constructor, move assignment, ~SQuIDS; Const::Const/~Const']


def catalogue(dA, dB):
    c = T.var('c')
    ops = []
    # constructions into the free slot (valid and invalid)
    ops += [Ins('DEFAULT', t=3), Ins('SIZED', t=3, x=dB), Ins('SIZED', t=3, x=1), Ins('SIZED', t=3, x=7), Ins('EXTERNAL', t=3, x=dA, ext=2), Ins('EXTERNAL', t=3, x=9, ext=2),
            Ins('FROMLIST', t=3, x=dB * dB, ext=2), Ins('FROMLIST', t=3, x=7, ext=2), Ins('FROMLIST', t=3, x=49, ext=2), Ins('FROMLIST', t=3, x=1, ext=2),
            Ins('ALIGNED', t=3, x=dA, y=1), Ins('ALIGNED', t=3, x=dB, y=0), Ins('ALIGNED', t=3, x=7, y=1),
            Ins('FROMMATRIX', t=3, x=dA, y=dA, ext=2), Ins('FROMMATRIX', t=3, x=2, y=3, ext=2), Ins('FROMMATRIX', t=3, x=1, y=1, ext=2), Ins('FROMMATRIX', t=3, x=5, y=5, ext=2) if False else Ins('FROMMATRIX', t=3, x=3, y=2, ext=2),
            Ins('FACTORY', t=3, x=(0 << 16) | dA, y=0), Ins('FACTORY', t=3, x=(3 << 16) | dB, y=1), Ins('FACTORY', t=3, x=(4 << 16) | dA, y=dA * dA), Ins('FACTORY', t=3, x=(1 << 16) | 8, y=0),
            Ins('COPYCON', t=3, s1=0), Ins('MOVECON', t=3, s1=1), Ins('CONVERT', t=3, s1=2, s2=2, x=0), Ins('CONVERT', t=3, s1=2, s2=0, x=5)]
    for e in (0, 1, 3, 5, 7, 9, 12, 13, 14, 17, 19, 20):
        ops.append(Ins('EXPR', t=3, s1=0, s2=1, x=96 + e, c=c))
    # operations on existing vectors
    for (t, s) in ((0, 1), (1, 0), (0, 2), (2, 0)):
        ops += [Ins('COPYASSIGN', t=t, s1=s), Ins('MOVEASSIGN', t=t, s1=s), Ins('PLAININC', t=t, s1=s), Ins('PLAINDEC', t=t, s1=s), Ins('EQ', t=t, s1=s), Ins('TRACE', t=t, s1=s, ext=2)]
        for e in (0, 2, 3, 4, 6, 10, 11, 12, 13, 14, 16, 18, 20):
            ops.append(Ins('EXPR', t=t, s1=s, s2=2, x=e, c=c))
        for e in (0, 8, 12):
            ops.append(Ins('EXPR', t=t, s1=s, s2=s, x=32 + e, c=c))
            ops.append(Ins('EXPR', t=t, s1=t, s2=s, x=64 + e, c=c))
        ops += [Ins('ROTMAT', t=t, s1=s, x=dA), Ins('ROTMAT', t=t, s1=s, x=dB), Ins('ROTATE', t=t, s1=s, x=0, y=1, c=c), Ins('UNARYVIEW', t=t, s1=s, x=1), Ins('UNARYVIEW', t=t, s1=s, x=2)]
        ops += [Ins('CONVERT', t=t, s1=s, s2=s, x=1), Ins('CONVERT', t=t, s1=s, s2=2, x=4)]
    for t in (0, 1):
        ops += [Ins('SETBACKING', t=t, ext=2), Ins('FILL', t=t, c=c), Ins('SCALE', t=t, c=c), Ins('DIVIDE', t=t, c=c), Ins('UNARYVIEW', t=t, x=0), Ins('PRINT', t=t), Ins('GETMATRIX', t=t, ext=2),
                Ins('COMPONENTS', t=t, ext=2), Ins('DESTROY', t=t), Ins('COPYASSIGN', t=t, s1=t), Ins('MOVEASSIGN', t=t, s1=t)]
    ops.append(Ins('CLEARCACHE'))
    ops += [Ins('CHURN', x=dA, y=34), Ins('CHURN', x=dB, y=33)]
    return ops


EMPTY_ARITH = {OPS['EXPR'], OPS['CONVERT'], OPS['TRACE']}


class Live:
    """liveness-only model: which slots hold an object, their dimension (0 = empty), and whether bound to a user buffer"""

    def __init__(self, n):
        self.s = [None] * n

    def clone(self):
        l = Live(len(self.s))
        l.s = [None if x is None else dict(x) for x in self.s]
        return l


def legal(live, ins, allow_empty):
    L_ = live.s
    if ins.constructs():
        if ins.t < 0 or L_[ins.t] is not None:
            return False
    elif ins.t >= 0 and L_[ins.t] is None:
        return False
    for k in (ins.s1, ins.s2):
        if k >= 0 and L_[k] is None:
            return False
    return True


def uses_empty_operand(pool, st, ins):
    """arithmetic / printing / views on an empty vector (dimension 0) -- reported separately: see assumptions"""
    if ins.op not in EMPTY_ARITH:
        return False
    ks = [k for k in (ins.s1, ins.s2) if k >= 0]
    if ins.op in (OPS['PRINT'], OPS['SCALE'], OPS['DIVIDE'], OPS['TRACE']) or (ins.op == OPS['UNARYVIEW'] and ins.x == 0) or (ins.op == OPS['EXPR'] and ins.x // 32 in (1, 2)):
        ks.append(ins.t)
    for k in ks:
        if pool.raw(st, k)['size'] == 0:
            return True
    return False


def update_live(live, ins, rc, pool, st):
    if rc == 0:
        if ins.constructs():
            live.s[ins.t] = {}
        if ins.op == OPS['DESTROY']:
            live.s[ins.t] = None


def work(item):
    k0, k1, dA, dB, tier, seed = item
    solver = S.Solver(timeout_ms=30000)
    out = new_out(item=list(item[:4]))
    pool = Pool(nslots=NSLOTS, nbufs=3, solver=solver, align='aligned')
    pool.ex.assume_mode = 'assert'
    st = pool.initial()
    live = Live(NSLOTS)
    pre = c08.prestate_program(k0, k1, dA, dB)
    for ins in pre:
        rs = pool.step(st, ins)
        if len(rs) != 1 or rs[0].status != 'ok' or rs[0].retval != 0:
            out['broken'].append('pre-state %s/%s' % (k0, k1))
            out.update(worker_result(solver, [pool.ex.stats], functions=FUNCS))
            return out
        st = rs[0].state
        update_live(live, ins, 0, pool, st)
    cat = catalogue(dA, dB)
    rng = random.Random(seed * 7919 + hash((k0, k1)) % 997)
    hist = [[i] for i in cat]
    thr = [i for i in cat if i.op in (OPS['SIZED'], OPS['FROMLIST'], OPS['FROMMATRIX'], OPS['FACTORY'], OPS['ALIGNED'], OPS['EXTERNAL'], OPS['PLAININC'], OPS['COPYASSIGN'], OPS['MOVEASSIGN'], OPS['ROTMAT'], OPS['TRACE'], OPS['GETMATRIX'])
           or (i.op == OPS['EXPR'])]
    churn = [i for i in cat if i.op == OPS['CHURN']]
    two = [[a, b] for a in thr for b in cat]
    rng.shuffle(two)
    full_cache = [[a, b] for a in churn for b in cat if b.op != OPS['CHURN']]
    rng.shuffle(full_cache)
    two = two[:(60 if tier == 'quick' else 1500)]
    three = [[a, b, c_] for a in thr[:40] for b in cat[::3] for c_ in cat[::7]]
    rng.shuffle(three)
    three = three[:(15 if tier == 'quick' else 600)]
    nrun = 0
    seen_sig = set()
    # alignment family (deterministic, from the all-empty pre-state only): a block obtained by plain new[] (list constructor) is released, vectors
    # of the same dimension are then created (they may be handed that block) and used under guarantee<NoAlias|EqualSizes|AlignedStorage>: the
    # alignment the optimiser is told to assume (llvm.assume, asserted) must hold for library-allocated storage, whatever went through the cache
    align_family = []
    if (k0, k1) == ('empty', 'empty'):
        for dd in sorted({dA, dB}):
            for stmt in (0, 3):
                fam = [Ins('DESTROY', t=0), Ins('FROMLIST', t=0, x=dd * dd, ext=2), Ins('DESTROY', t=0), Ins('SIZED', t=0, x=dd), Ins('DESTROY', t=1), Ins('SIZED', t=1, x=dd)]
                if stmt == 0:
                    fam += [Ins('SIZED', t=3, x=dd), Ins('GEXPR', t=3, s1=0, s2=1, x=0 * 1024 + 7 * 32 + 0)]
                else:
                    fam += [Ins('GEXPR', t=3, s1=0, s2=1, x=3 * 1024 + 5 * 32 + 0)]
                align_family.append(fam)
    for h_ in hist + two + three + full_cache[:(25 if tier == 'quick' else 400)] + align_family:
        states = [(st, live)]
        ok_hist = True
        problem = None
        for n, ins in enumerate(h_):
            nxt = []
            for s_, l_ in states:
                if not legal(l_, ins, False):
                    ok_hist = False
                    break
                if uses_empty_operand(pool, s_, ins):
                    ok_hist = False      # outside the claim (see assumptions); exercised separately below
                    break
                for r in pool.step(s_, ins):
                    if r.status != 'ok':
                        problem = 'step %d (%s): %s: %s' % (n, ins.describe(), r.info.get('kind'), r.info.get('msg'))
                        break
                    if r.retval not in (0, 1):
                        problem = 'step %d (%s): unexpected result %r' % (n, ins.describe(), r.retval)
                        break
                    l2 = l_.clone()
                    update_live(l2, ins, r.retval, pool, r.state)
                    for k_ in range(NSLOTS):
                        if l2.s[k_] is None:
                            continue
                        rw = pool.raw(r.state, k_)
                        if rw['isinit'] == 1 and rw['isinit_d'] == 1:
                            problem = 'step %d (%s): slot %d is flagged both as owning its storage and as bound to user storage' % (n, ins.describe(), k_)
                        elif isinstance(rw['dim'], int) and isinstance(rw['size'], int) and rw['size'] != rw['dim'] * rw['dim']:
                            problem = 'step %d (%s): slot %d has dimension %d but size %d' % (n, ins.describe(), k_, rw['dim'], rw['size'])
                    if problem:
                        break
                    nxt.append((r.state, l2))
                if problem:
                    break
            if problem or not ok_hist:
                break
            states = nxt
        if not ok_hist:
            continue
        nrun += 1
        if not problem:
            for s_, l_ in states:
                okq, info = pool.quiesce(s_, [k for k, x in enumerate(l_.s) if x is not None], leaks='new')
                if not okq:
                    problem = 'at quiescence: ' + info
                    break
        if problem:
            sig = problem.split(': ', 1)[-1][:70] + '|' + h_[-1].describe().split('  [')[0] if 'quiescence' not in problem else problem[:60] + '|' + ' ; '.join(i.describe().split('  [')[0] for i in h_)
            if sig in seen_sig:
                continue
            seen_sig.add(sig)
            full = pre + h_
            out['candidates'].append({'key': 'history:' + hashlib.sha1(sig.encode()).hexdigest()[:10], 'what': 'pre-state %s/%s (dims %d,%d): %s -> %s' % (k0, k1, dA, dB, ' ; '.join(i.describe() for i in h_), problem),
                                      'lines': [i.line() for i in full], 'program': [i.tojson() for i in full], 'sig': sig})
    out['obligations'].append({'obligation': 'pre-state %s/%s dims (%d,%d): %d histories (1..3 operations incl. throwing ones): every access valid, no undefined operation, ledger balanced after destroying everything and draining the cache' % (
        k0, k1, dA, dB, nrun), 'verdict': 'holds' if not out['candidates'] else '%d distinct problems' % len(out['candidates'])})
    out['witnesses']['reachability'] += nrun
    out['nhist'] = nrun
    out.update(worker_result(solver, [pool.ex.stats], functions=FUNCS))
    return out


def work_solver(item):
    """SQuIDS objects: construct / ini / re-ini / move / destroy histories, full ledger (new, new[], malloc)"""
    tier = item[1]
    solver = S.Solver(timeout_ms=30000)
    out = new_out(item=['solver-objects'])
    ir = build.ir_for('c15s.cpp', ('SUNalg.cpp', 'SQuIDS.cpp', 'const.cpp'), ('gsl_shim.c',))
    mod = load_module(ir)
    ex = Executor(mod, 'R', solver)
    st0 = ex.new_state()
    slots = st0.user_buffer(2 * 1024, 'solver-slots', align=16)
    A, B = slots.base, slots.base + 1024
    cfgs = [(1, 2, 1, 0), (2, 3, 2, 1), (3, 2, 1, 2)]
    H = []
    for c1 in cfgs:
        H.append([(2, A, 0, c1), (6, A, 0, c1)])
        H.append([(1, A, 0, c1), (3, A, 0, c1), (6, A, 0, c1)])
        for c2 in cfgs:
            H.append([(2, A, 0, c1), (3, A, 0, c2), (6, A, 0, c1)])                       # re-initialisation
            H.append([(2, A, 0, c1), (4, B, A, c1), (6, A, 0, c1), (6, B, 0, c1)])       # move construction
            H.append([(2, A, 0, c1), (2, B, 0, c2), (5, B, A, c1), (6, A, 0, c1), (6, B, 0, c1)])   # move assignment onto an initialised object
            H.append([(2, A, 0, c1), (1, B, 0, c2), (5, B, A, c1), (3, A, 0, c2), (6, A, 0, c1), (6, B, 0, c1)])   # re-ini of a moved-from object
            H.append([(2, A, 0, c1), (7, A, 0, c1), (2, B, 0, c2), (7, B, 0, c2), (7, A, 0, c1), (6, A, 0, c1), (6, B, 0, c1)])   # queries on two objects (thread-local scratch sized by the first)
            H.append([(2, A, 0, c1), (7, A, 0, c1), (3, A, 0, c2), (7, A, 0, c2), (6, A, 0, c2)])                              # query, re-initialise in another configuration, query
    if tier == 'quick':
        H = H[::2]
    # a moved-from object is initialised again (same and another configuration) and then used
    for c1 in cfgs:
        for c2 in (cfgs if tier != 'quick' else [c1, cfgs[(cfgs.index(c1) + 1) % 3]]):
            H.append([(2, A, 0, c1), (4, B, A, c1), (3, A, 0, c2), (7, A, 0, c2), (7, B, 0, c1), (6, A, 0, c2), (6, B, 0, c1)])
            H.append([(2, A, 0, c1), (1, B, 0, c1), (5, B, A, c1), (3, A, 0, c2), (7, A, 0, c2), (6, A, 0, c2), (6, B, 0, c1)])
    nrun = 0
    for hist in H:
        st = st0
        problem = None
        for n, (op, t, s, cfg) in enumerate(hist):
            rs = ex.run(st, 'h_solver_op', [op, t, s, cfg[0], cfg[1], cfg[2], cfg[3]])
            if len(rs) != 1 or rs[0].status != 'ok' or rs[0].retval != 0:
                r = rs[0]
                problem = 'step %d (op %d cfg %r): %s %r' % (n, op, cfg, r.status, r.info or r.retval)
                break
            st = rs[0].state
        nrun += 1
        if not problem:
            leaked = [o for o in st.live_heap(('new[]', 'new', 'malloc')) if not getattr(o, 'tls_owned', False)]
            leaked = leaked if not any(op == 7 for op, _, _, _ in hist) else []       # thread-local scratch of the queries lives until thread exit (C18)
            if leaked:
                problem = 'after destroying every solver object %d block(s) remain allocated (%s)' % (len(leaked), ', '.join('%s %d bytes' % (o.kind, o.size) for o in leaked[:4]))
        if problem:
            desc = ' ; '.join('%s%r' % ({1: 'SQuIDS()', 2: 'SQuIDS', 3: 'ini', 4: 'move-construct', 5: 'move-assign', 6: 'destroy', 7: 'queries'}[op], cfg if op in (2, 3, 7) else '') for op, t, s, cfg in hist)
            sig = problem.split(':')[0][:40] + '|' + ' '.join(str(op) for op, _, _, _ in hist)
            out['candidates'].append({'key': 'solver:' + hashlib.sha1(sig.encode()).hexdigest()[:10], 'what': 'solver objects: %s -> %s' % (desc, problem), 'solver_hist': [[op, 0 if t == A else 1, 0 if s == A else 1, list(cfg)] for op, t, s, cfg in hist]})
            break
    out['obligations'].append({'obligation': 'solver objects: %d histories over {construct, ini, re-ini, move-construct, move-assign, const queries, destroy} with 3 configurations: valid accesses, every new/new[]/malloc block released exactly once' % nrun,
                               'verdict': 'holds' if not out['candidates'] else 'fails'})
    out['nhist'] = nrun
    out.update(worker_result(solver, [ex.stats], functions=FUNCS))
    return out


def replay(chk, c):
    chk.cov['replayed'] += 1
    if 'solver_hist' in c:
        return replay_solver(chk, c)
    prog = []
    for ln in c['lines']:
        w = ln.split(' = ')[0].split()
        prog.append(Ins(int(w[0]), int(w[1]), int(w[2]), int(w[3]), int(w[4]), int(w[5]), float(w[6]), int(w[7])))
    res = native_replay(prog, nslots=NSLOTS, nbufs=3)
    c['native'] = {'exit': res['exit'], 'report': (res['report'] or '')[:800]}
    if res['report']:
        lines = [l for l in res['report'].split('\n') if l.strip()]
        return True, 'sanitizer/ledger: ' + lines[0][:200]
    if res.get('invariant'):
        return True, 'native object representation: ' + res['invariant']
    return False, 'native run clean (exit %d)' % res['exit']


def replay_solver(chk, c):
    """native replay of a solver-object history with a counting allocator (same harness TU built as a program)"""
    src = os.path.join(build.BUILD, 'c15s_main.%d.cpp' % os.getpid())
    lines = ['#include "%s"' % os.path.join(build.VERIF, 'harness', 'c15s.cpp'), '#include <cstdlib>', '#include <cstdio>',
             'static long g_live=0;', 'void* operator new[](size_t n){ void* p=malloc(n?n:1); g_live++; return p; }', 'void* operator new(size_t n){ void* p=malloc(n?n:1); g_live++; return p; }',
             'void operator delete[](void* p) noexcept { if(p){ g_live--; free(p);} }', 'void operator delete(void* p) noexcept { if(p){ g_live--; free(p);} }',
             'void operator delete[](void* p, size_t) noexcept { if(p){ g_live--; free(p);} }', 'void operator delete(void* p, size_t) noexcept { if(p){ g_live--; free(p);} }',
             'int main(){ void* s[2]={aligned_alloc(16,2048),aligned_alloc(16,2048)}; int rc;']
    for op, t, s, cfg in c['solver_hist']:
        lines.append('  rc=h_solver_op(%d,s[%d],s[%d],%d,%d,%d,%d); if(rc){ printf("rc %%d\\n",rc); return 70; }' % (op, t, s, cfg[0], cfg[1], cfg[2], cfg[3]))
    has_q = any(op == 7 for op, _, _, _ in c['solver_hist'])     # the queries' thread-local scratch lives until thread exit (C18), not a leak here
    lines.append('  free(s[0]); free(s[1]); printf("live %%ld\\n",g_live); return (g_live && !%d)?68:0; }' % (1 if has_q else 0))
    open(src, 'w').write('\n'.join(lines) + '\n')
    exe = src[:-4]
    srcs = [os.path.join(build.REPO, 'src', x) for x in ('SUNalg.cpp', 'SQuIDS.cpp', 'const.cpp', 'MatrixExp.cpp')]
    build.sh(['g++', '-std=c++11', '-O1', '-g', '-fsanitize=address,undefined', '-I' + build.REPO + '/include', src] + srcs + ['-lgsl', '-lgslcblas', '-lm', '-o', exe])
    import subprocess
    p = subprocess.run([exe], capture_output=True, text=True, env=dict(os.environ, ASAN_OPTIONS='detect_leaks=1:exitcode=66'))
    os.remove(src)
    os.remove(exe)
    c['native'] = {'exit': p.returncode, 'out': p.stdout[-200:], 'err': p.stderr[-600:]}
    return p.returncode != 0, 'exit %d %s' % (p.returncode, (p.stdout + p.stderr).strip().split('\n')[0][:160])


def native_battery_item(item):
    """one catalogue operation from one non-empty pre-state on the g++/ASan/UBSan build with a ledger, objects built in 0xA5-filled storage"""
    k0, k1, dA, dB, idx = item
    pre = c08.prestate_program(k0, k1, dA, dB)
    ins = catalogue(dA, dB)[idx]
    ins_n = Ins(ins.op, ins.t, ins.s1, ins.s2, ins.x, ins.y, 0.75 if isinstance(ins.c, Term) else ins.c, ins.ext)
    prog = pre + [ins_n]
    try:
        res = native_replay(prog, nslots=NSLOTS, nbufs=3, tag='c15bat%d' % os.getpid())
    except Exception as e:
        return None
    if not res['report'] and res.get('invariant'):
        res['report'] = 'object representation: ' + res['invariant']
    if not res['report']:
        return None
    first = [l for l in res['report'].split('\n') if l.strip()][0][:200]
    return {'pre': (k0, k1, dA, dB), 'op': ins_n.describe(), 'first': first, 'lines': [i.line() for i in prog], 'report': res['report'][:600]}


def main(tier):
    chk = Check(PID, tier)
    chk.candidates = []
    pairs = [(2, 3)] if tier == 'quick' else [(2, 3), (3, 4), (6, 5)]
    kinds = c08.KINDS
    items = [(k0, k1, dA, dB, tier, chk.seed) for (dA, dB) in pairs for k0 in kinds for k1 in kinds]
    # a pair of dimensions of equal parity (a block of the smaller one passes the alignment test of the larger one's cache): the pre-states
    # in which the resized target owns its block
    same_parity = [(2, 4)] if tier == 'quick' else [(2, 4), (3, 5)]
    own_kinds = [k for k in kinds if 'own' in k]
    items += [(k0, k1, dA, dB, tier, chk.seed) for (dA, dB) in same_parity for k0 in own_kinds for k1 in kinds if k1 != 'empty']
    pairs = pairs + same_parity
    chk.cov['bounds'] = {'pool': '4 slots + scratch; pre-states: two operands in {empty, self-owned, external} x two dimensions, self-owned observer', 'dimensions': pairs,
                         'cache': 'initially empty; CHURN operations fill the 32-entry per-dimension cache beyond capacity before further operations', 'histories': 'every catalogue operation (%d, valid and throwing) as a 1-step history from every pre-state; seeded samples of 2- and 3-step histories starting with a (possibly throwing) operation' % len(catalogue(2, 3)),
                         'solver objects': 'construct / ini / re-ini / move-construct / move-assign / const queries (interpolating expectation value with the internal scratch, intermediate state) / destroy, 3 configurations, histories of up to 7 operations; Evolve excluded (GSL driver has no IR)'}
    chk.cov['domains'] = ['heap/object model: bounds, lifetime, new/delete discipline, ledger; nsw/nuw overflow, shifts, division by zero, unreachable, llvm.assume (asserted) on concrete integers']
    chk.cov['stubs'] = ['operator new/new[]/delete/delete[]: ledger', 'GSL containers: shim (range errors are path errors)', 'iostream formatting: empty stubs', 'thread-local scratch (GSL holders) is not counted as leaked (thread exit is C18)']
    chk.assumptions = ['binary/unary ARITHMETIC expressions and scalar products whose operand is an EMPTY vector (dimension 0) are excluded from the histories: the kernels state size>=1 as a precondition (SQUIDS_COMPILER_ASSUME) and the property quantifies over dimensions 2..6; every other operation is exercised on empty vectors too', 'single logical thread',
                       'allocation failure is C16; dimensions 2..6', 'where the source has undefined behaviour the clang IR may define it: a native g++/ASan/UBSan battery (every catalogue operation from two (thorough: three) non-empty pre-states, dimensions (3,2) (thorough: also (2,3)), objects in 0xA5-filled storage) covers that gap and is reported as not solver-decided']
    Pool(nslots=NSLOTS)
    pool_interp_vs_native(chk, sample_programs() if tier == 'thorough' else sample_programs()[:6], nslots=NSLOTS)
    build.ir_for('c15s.cpp', ('SUNalg.cpp', 'SQuIDS.cpp', 'const.cpp'), ('gsl_shim.c',))
    with MPool(min(16, os.cpu_count() or 1)) as mp:
        rs_solver = mp.apply_async(work_solver, ((0, tier),))
        results = mp.map(work, items, chunksize=1)
        results.append(rs_solver.get())
    nh = 0
    for w in results:
        chk.merge_worker(w)
        nh += w.get('nhist', 0)
    chk.cov['histories_run'] = nh
    # ---- native battery (NOT solver-decided): every catalogue operation from three non-empty pre-states on the g++/ASan/UBSan build; covers
    # behaviour the source leaves undefined and the clang IR happens to define (see DESIGN.md 9.2)
    live_st = Pool(nslots=NSLOTS)
    bat = []
    for (dA, dB) in (pairs[:1] + [(3, 2)] if tier != 'quick' else [(3, 2)]):
        for kk in ((('ownA', 'ownB'), ('extA', 'ownB'), ('ownA', 'extB')) if tier != 'quick' else (('ownA', 'ownB'), ('extA', 'ownB'))):
            st_ = live_st.initial()
            lv = Live(NSLOTS)
            okp = True
            for ins in c08.prestate_program(kk[0], kk[1], dA, dB):
                rs_ = live_st.step(st_, ins)
                st_ = rs_[0].state
                update_live(lv, ins, 0, live_st, st_)
            for idx, ins in enumerate(catalogue(dA, dB)):
                if legal(lv, ins, False) and not uses_empty_operand(live_st, st_, ins) and ins.op != OPS['CHURN']:
                    bat.append((kk[0], kk[1], dA, dB, idx))
    with MPool(min(16, os.cpu_count() or 1)) as mp:
        bres = mp.map(native_battery_item, bat, chunksize=4)
    chk.cov['native_battery_runs'] = len(bat)
    chk.cov['interp_vs_native']['cases'] += len(bat)
    nat_seen = set()
    for r_ in bres:
        if r_ is None:
            continue
        sig = r_['op'].split('  [')[0].split(' t=')[0] + '|' + r_['first'].split(' on address')[0][:60]
        if sig in nat_seen:
            continue
        nat_seen.add(sig)
        chk.report('native-battery:' + hashlib.sha1(sig.encode()).hexdigest()[:10], 'pre-state %s/%s (dims %d,%d): %s on the g++/ASan/UBSan build with objects in 0xA5-filled storage: %s [found by the native battery, not by the solver]' % (
            r_['pre'] + (r_['op'], r_['first'])), {'lines': r_['lines'], 'native': r_['report']})
    seen = set()
    for c in chk.candidates:
        sig = c.get('sig', c['key'])
        if sig in seen:
            continue
        seen.add(sig)
        ok, info = replay(chk, c)
        if ok:
            chk.report(c['key'], '%s; native: %s' % (c['what'], info), c)
        else:
            chk.broken_q('counterexample %s did not reproduce natively (%s): %s' % (c['key'], info, c['what'][:300]))
    return chk.finish()


def replay_main(path):
    c = json.load(open(path))['replay']
    chk = Check(PID, 'quick')
    ok, info = replay(chk, c)
    print('replay %s: %s (%s)' % (path, 'REPRODUCED' if ok else 'not reproduced', info))
    return 1 if ok else 0


if __name__ == '__main__':
    sys.exit(main(sys.argv[1] if len(sys.argv) > 1 else 'quick'))
