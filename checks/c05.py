"""C05 -- expectation values are Schroedinger-picture traces; x-interpolation is linear; out-of-range x is an error."""
import sys, time, os, json, math
from fractions import Fraction
from multiprocessing import Pool as MPool
import numpy as np
import z3
from common import *
from irsym.harness import Harness, I, D, Buf, IBuf, NativeCrash
from irsym import solver as S

PID = 'C05'
CPP = 'c05.cpp'
LIBS = ('SUNalg.cpp', 'SQuIDS.cpp', 'const.cpp')
TOL = Fraction(1, 10 ** 12)
FUNCS = ['SQuIDS::GetExpectationValue(SU_vector,unsigned,unsigned)', 'SQuIDS::GetExpectationValue(...,double scale,std::vector<bool>&)', 'SQuIDS::GetExpectationValueD (4 overloads)', 'SQuIDS::GetIntermediateState',
         'std::lower_bound (inlined)', 'expectationValueDBuffer (thread-local and explicit)', 'SQuIDS::ini / Set_xrange(vector) / H0 (virtual dispatch through the vtable)', 'SU_vector::Evolve, PrepareEvolve(avg), operator*, assignProxy']


def h0_intr(ex, st, args, ins, name):
    x, irho, k = args
    return T.fun('h0_%d_%d' % (irho, k), x)


def diag_indices(d):
    return [0] + [d * l + l for l in range(1, d)]


def h0_vec(d, irho, x):
    v = [Fraction(0)] * (d * d)
    for l, k in enumerate(diag_indices(d)):
        v[k] = T.fun('h0_%d_%d' % (irho, l), x)
    return v


def zc(conv, v):
    return conv.conv(v) if isinstance(v, Term) else conv.rconst(v)


def unreachable_scale(cnd):
    """choose-function for T.rebuild: every |phase| > |scale| test is false"""
    if isinstance(cnd, Term) and cnd.op == 'fcmp' and cnd.aux == 'gt' and isinstance(cnd.args[1], Term) and cnd.args[1].op == 'fabs':
        return False
    if isinstance(cnd, Term) and cnd.op == 'not':
        r = unreachable_scale(cnd.args[0])
        return None if r is None else (not r)
    return None


def work(item):
    d, nx, nrho, tier = item
    solver = S.Solver(timeout_ms=60000)
    h = Harness(CPP, LIBS, solver=solver, defines=('VERIF_SYMBOLIC',))
    out = new_out(item=list(item[:3]))
    exstats = []
    ctx = PolyCtx()
    ctx.canon_trig = True
    dec = Decider(solver, ctx, out, tol=TOL)
    n = d * d
    npairs = d * (d - 1) // 2
    xs = sym_vec('x', nx)
    st = sym_vec('r', nx * nrho * n)
    op = sym_vec('o', n)
    t, ti, x, scale = T.var('t'), T.var('ti'), T.var('xq'), T.var('scale')
    tau = T.fsub(t, ti)
    sorted_pc = [T.fcmp('olt', xs[i], xs[i + 1]) for i in range(nx - 1)]
    pre = lambda ex_, s, b: s.pc.extend(sorted_pc)
    names = ['x%d' % i for i in range(nx)] + ['xq', 't', 'ti']

    def run(fn, args, merge=False):
        ex = h.executor()
        ex.intr['verif_h0'] = h0_intr
        ex.merge = merge
        ps = h.run(fn, args, ex=ex, prepare=pre)
        exstats.append(ex.stats)
        return ps

    def rho(ix, irho):
        b = (ix * nrho + irho) * n
        return st[b:b + n]

    def ref_node(ix, irho):
        ps = run('h_ref', [I(d), Buf('rho', rho(ix, irho)), Buf('op', op), Buf('h0', h0_vec(d, irho, xs[ix])), D(tau), Buf('out', n=1)])
        return ps[0].out('out')[0]

    def ref_interp(k, irho, xq):
        ps = run('h_refD', [I(d), Buf('r1', rho(k, irho)), Buf('r2', rho(k + 1, irho)), Buf('op', op), Buf('h0', h0_vec(d, irho, xq)), D(tau), D(xq), D(xs[k]), D(xs[k + 1]), Buf('out', n=1)])
        return ps[0].out('out')[0]

    def rat_equal(a, b):
        """residual of a - b after cross-multiplication (Poly)"""
        na, da = ctx.rat(a)
        nb, db = ctx.rat(b)
        return na * db - nb * da

    def model_input(pc, extra):
        conv = S.Conv('real')
        r, m, _ = solver.check(pc, conv=conv, extra=extra(conv), want_model=True)
        if r != 'sat':
            return None
        return {nm: frac_str(S.model_value(m, conv, nm)) for nm in names}

    irhos = list(range(nrho))
    # ---- A. node-indexed form
    for irho in irhos:
        for ix in range(nx):
            ps = run('h_expect', [I(0), I(nx), I(d), I(nrho), I(ix), I(irho), Buf('xs', xs), Buf('st', st), Buf('op', op), D(t), D(ti), D(scale), Buf('out', n=1), IBuf('flags', [None] * npairs)])
            if len(ps) != 1 or ps[0].status != 'ok' or ps[0].ret != 0:
                dec.candidate('node:d=%d' % d, 'GetExpectationValue(op,%d,%d) ends in %r' % (irho, ix, [(p.status, p.ret, p.info) for p in ps]), kind='node', d=d, nx=nx, nrho=nrho, ix=ix, irho=irho)
                continue
            out['witnesses']['reachability'] += 1
            o = ps[0].out('out')[0]
            ref = ref_node(ix, irho)
            dec.decide('GetExpectationValue(O,%d,%d) = Tr(rho_%d . O.Evolve(H0(x_%d),t-t_ini)) [nx=%d d=%d nrho=%d]' % (irho, ix, ix, ix, nx, d, nrho), [ctx.poly(o) - ctx.poly(ref)],
                       'node:d=%d' % d, dict(kind='node', d=d, nx=nx, nrho=nrho, ix=ix, irho=irho),
                       sens_poly=(ctx.poly(o) - ctx.poly(ref_node((ix + 1) % nx, irho))) if nx > 1 else None)
            # the same query through a solver object that received the configured problem by move assignment / move construction (the elapsed time
            # t - t_ini, the grid and the states travel with the object)
            if ix == nx - 1:
                for wm, how in ((2, 'move-assigned into an object initialised with another t_ini'), (3, 'move-constructed')):
                    psm = run('h_expect', [I(wm), I(nx), I(d), I(nrho), I(ix), I(irho), Buf('xs', xs), Buf('st', st), Buf('op', op), D(t), D(ti), D(scale), Buf('out', n=1), IBuf('flags', [None] * npairs)])
                    if len(psm) != 1 or psm[0].status != 'ok' or psm[0].ret != 0:
                        dec.candidate('node-moved:%d:d=%d' % (wm, d), 'GetExpectationValue(op,%d,%d) on a %s solver ends in %r' % (irho, ix, how, [(p.status, p.ret, p.info) for p in psm]), kind='node', which=wm, d=d, nx=nx, nrho=nrho, ix=ix, irho=irho)
                        continue
                    out['witnesses']['reachability'] += 1
                    dec.decide('GetExpectationValue(O,%d,%d) on a %s solver = Tr(rho . O.Evolve(H0(x),t-t_ini)) with the source\'s t and t_ini [nx=%d d=%d]' % (irho, ix, how, nx, d), [ctx.poly(psm[0].out('out')[0]) - ctx.poly(ref)],
                               'node-moved:%d:d=%d' % (wm, d), dict(kind='node', which=wm, d=d, nx=nx, nrho=nrho, ix=ix, irho=irho))
            # averaging overload with an unreachable scale
            ps = run('h_expect', [I(1), I(nx), I(d), I(nrho), I(ix), I(irho), Buf('xs', xs), Buf('st', st), Buf('op', op), D(t), D(ti), D(scale), Buf('out', n=1), IBuf('flags', [None] * npairs)], merge=True)
            if len(ps) == 1 and ps[0].status == 'ok' and ps[0].ret == 0:
                oa = T.rebuild(ps[0].out('out')[0], unreachable_scale)
                fl = [T.rebuild(f, unreachable_scale) if isinstance(f, Term) else f for f in ps[0].out('flags')]
                okf = all((not isinstance(f, Term)) and f == 0 for f in fl)
                dec.decide('averaging GetExpectationValue with unreachable scale = plain, node %d [nx=%d d=%d]' % (ix, nx, d), [ctx.poly(oa) - ctx.poly(ref)], 'node-avg:d=%d' % d,
                           dict(kind='node-avg', d=d, nx=nx, nrho=nrho, ix=ix, irho=irho))
                if not okf:
                    dec.candidate('node-avg-flags:d=%d' % d, 'averaging GetExpectationValue reports averaged pairs although the scale is unreachable', kind='node-avg', d=d, nx=nx, nrho=nrho, ix=ix, irho=irho)
            else:
                out['broken'].append('h_expect(avg) d=%d nx=%d: %r' % (d, nx, [(p.status, p.ret, p.info) for p in ps]))
    # ---- B. interpolating forms, symbolic x
    irho = nrho - 1
    forms = [(0, 'GetExpectationValueD(op,irho,x)', 0), (1, 'GetExpectationValueD(op,irho,x,buffer)', 0), (4, 'GetIntermediateState(irho,x)', 0),
             (0, 'GetExpectationValueD(op,irho,x) after a call on an object of another dimension (thread-local scratch)', 3 if d != 3 else 2)]
    forms += [(2, 'GetExpectationValueD(op,irho,x,scale,avr)', 0), (3, 'GetExpectationValueD(op,irho,x,buffer,scale,avr)', 0)]
    if nrho > 1:
        # state surviving in a scratch buffer: the same query for the other density matrix (same object, x, t, scale, same buffer) comes first
        forms += [(w_, nm_ + ' after the same call for another rho index (same scratch buffer)', 99) for w_, nm_, d0_ in list(forms) if w_ in (1, 2, 3) and d0_ == 0]
    for which, nm, d0 in forms:
        avg = which in (2, 3)
        ps = run('h_expectD', [I(which), I(nx), I(d), I(nrho), I(irho), Buf('xs', xs), Buf('st', st), Buf('op', op), D(x), D(t), D(ti), D(scale), I(d0), Buf('out', n=n), IBuf('flags', [None] * npairs)], merge=avg)
        key = 'interp:%d:d=%d' % (which, d) + ((':d0=%d' % d0) if d0 else '')
        okform = True
        for p in ps:
            if p.status != 'ok' or p.ret not in (0, 1):
                dec.candidate(key, '%s ends in %s %r' % (nm, p.status, p.info), kind='interp', d=d, nx=nx, nrho=nrho, which=which, d0=d0, irho=irho)
                okform = False
                continue
            inside = lambda conv: z3.And(conv.conv(x) >= conv.conv(xs[0]), conv.conv(x) <= conv.conv(xs[-1]))
            if p.ret == 1:
                inp = model_input(p.pc, lambda conv: [inside(conv)])
                if inp is not None:
                    dec.candidate(key + ':throws', '%s raises an error for x inside the node range' % nm, kind='interp', d=d, nx=nx, nrho=nrho, which=which, d0=d0, irho=irho, input=inp, expect='value')
                    okform = False
                continue
            inp = model_input(p.pc, lambda conv: [z3.Not(inside(conv))])
            if inp is not None:
                dec.candidate(key + ':range', '%s answers for an x outside the node range instead of raising an error' % nm, kind='interp', d=d, nx=nx, nrho=nrho, which=which, d0=d0, irho=irho, input=inp, expect='throw')
                okform = False
            for k in range(nx - 1):
                conv = S.Conv('real')
                r = solver.check(p.pc, conv=conv, extra=[conv.conv(x) > conv.conv(xs[k]), conv.conv(x) < conv.conv(xs[k + 1])])
                if r == 'unsat':
                    continue
                out['witnesses']['reachability'] += 1
                if which == 4:
                    got = p.out('out')
                    f2 = T.fdiv(T.fsub(x, xs[k]), T.fsub(xs[k + 1], xs[k]))
                    f1 = T.fsub(Fraction(1), f2)
                    want = [T.fadd(T.fmul(f1, a_), T.fmul(f2, b_)) for a_, b_ in zip(rho(k, irho), rho(k + 1, irho))]
                    polys = [rat_equal(g, w) for g, w in zip(got, want)]
                    # shape: f1*rho_k + f2*rho_{k+1} with f1 = 1 - f2, one rounding per operation; another arrangement (e.g. rho_k + f2*(rho_{k+1}-rho_k))
                    # is equal in exact reals but loses the smaller node's state in doubles when the two differ by many orders of magnitude
                    if all(g is w for g, w in zip(got, want)):
                        dec.holds('%s for x in (x_%d,x_%d): every component is the term (1-f2)*rho_%d + f2*rho_%d [nx=%d d=%d]' % (nm, k, k + 1, k, k + 1, nx, d))
                    elif all(pp.is_zero() if hasattr(pp, 'is_zero') else False for pp in polys):
                        dec.candidate(key + ':shape', '%s combines the two node states by another formula than (1-f2)*rho_k + f2*rho_k+1 (component 0: %s): equal in exact reals only' % (nm, T.show(got[0], 5)),
                                      kind='interp-shape', d=d, nx=nx, nrho=nrho, which=which, d0=d0, irho=irho, interval=k)
                else:
                    got = p.out('out')[0]
                    if avg:
                        got = T.rebuild(got, unreachable_scale)
                        fl = [T.rebuild(f, unreachable_scale) if isinstance(f, Term) else f for f in p.out('flags')]
                        if not all((not isinstance(f, Term)) and f == 0 for f in fl):
                            dec.candidate(key + ':flags', '%s reports averaged pairs although the scale is unreachable' % nm, kind='interp', d=d, nx=nx, nrho=nrho, which=which, d0=d0, irho=irho)
                            okform = False
                    polys = [rat_equal(got, ref_interp(k, irho, x))]
                okd = dec.decide('%s for x in (x_%d,x_%d): convex combination of nodes %d,%d with H0 at x [nx=%d d=%d]' % (nm, k, k + 1, k, k + 1, nx, d), polys, key, dict(kind='interp', d=d, nx=nx, nrho=nrho, which=which, d0=d0, irho=irho, interval=k))
                okform = okform and okd
        # ---- C. ties: x equal to a node
        if which in (0, 2, 4) and d0 == 0:
            for k in range(nx):
                ps2 = run('h_expectD', [I(which), I(nx), I(d), I(nrho), I(irho), Buf('xs', xs), Buf('st', st), Buf('op', op), D(xs[k]), D(t), D(ti), D(scale), I(0), Buf('out', n=n), IBuf('flags', [None] * npairs)], merge=avg)
                for p in ps2:
                    if p.status != 'ok' or p.ret != 0:
                        dec.candidate(key + ':node', '%s at x = x_%d (a node) ends in %s/%r' % (nm, k, p.status, p.ret), kind='interp-node', d=d, nx=nx, nrho=nrho, which=which, irho=irho, node=k)
                        okform = False
                        continue
                    if which == 4:
                        okd = dec.decide('%s at x = x_%d is the stored state of node %d [nx=%d d=%d]' % (nm, k, k, nx, d), [rat_equal(g, w) for g, w in zip(p.out('out'), rho(k, irho))], key + ':node',
                                         dict(kind='interp-node', d=d, nx=nx, nrho=nrho, which=which, irho=irho, node=k))
                        okform = okform and okd
                        continue
                    got = p.out('out')[0]
                    if avg:
                        got = T.rebuild(got, unreachable_scale)
                    okd = dec.decide('%s at x = x_%d agrees with the node-indexed form [nx=%d d=%d]' % (nm, k, nx, d), [rat_equal(got, ref_node(k, irho))], key + ':node',
                                     dict(kind='interp-node', d=d, nx=nx, nrho=nrho, which=which, irho=irho, node=k))
                    okform = okform and okd
    out.update(worker_result(solver, exstats, functions=FUNCS))
    return out


# ------------------------------------------------------------------------------------------ replay
def np_h0(x, irho, k):
    return math.sin(0.7 * x * (k + 1) + 0.3 * irho) + 0.1 * k * x


def np_matrix(d, v):
    G = gellmann(d)
    M = np.zeros((d, d), complex)
    for k in range(d * d):
        if v[k] != 0:
            M += v[k] * np.array([[float(G[k][i][j][0]) + 1j * float(G[k][i][j][1]) for j in range(d)] for i in range(d)])
    return M


def np_expect(d, rho_v, op_v, irho, xq, tau):
    hv = np.zeros(d * d)
    for l, k in enumerate(diag_indices(d)):
        hv[k] = np_h0(xq, irho, l)
    E = np.real(np.diag(np_matrix(d, hv)))
    U = np.diag(np.exp(1j * E * tau))
    return np.trace(np_matrix(d, rho_v) @ U @ np_matrix(d, op_v) @ U.conj().T).real


def replay(chk, h, c):
    chk.cov['replayed'] += 1
    d, nx, nrho = c['d'], c['nx'], c['nrho']
    n = d * d
    rng = np.random.RandomState(chk.seed + 23)
    inp = {k: float(Fraction(v)) for k, v in c.get('input', {}).items()}
    if c['kind'] == 'interp-shape':
        # special magnitudes: neighbouring node states that differ by 16 orders of magnitude, x at and next to the node with the small state
        irho = c.get('irho', 0)
        worst = 0.0
        for big_left in (True, False):
            xs = np.arange(nx) * 1.0 + 0.5
            stv = rng.uniform(0.5, 1, nx * nrho * n)
            k = c.get('interval', 0)
            scale = np.ones(nx)
            scale[k if big_left else k + 1] = 1e16
            for ix in range(nx):
                stv[(ix * nrho + irho) * n:(ix * nrho + irho) * n + n] *= scale[ix]
            small = k + 1 if big_left else k
            for xq in (xs[small], float(np.nextafter(xs[small], xs[k if big_left else k + 1]))):
                ret, o = h.native('h_expectD', [I(4), I(nx), I(d), I(nrho), I(irho), Buf('xs', xs), Buf('st', stv), Buf('op', rng.uniform(-1, 1, n)), D(xq), D(1.3), D(0.2), D(1e30), I(0), Buf('out', n=n), IBuf('flags', [0] * (d * (d - 1) // 2))])
                if ret != 0:
                    return True, 1.0
                f2 = Fraction(xq) - Fraction(xs[k])
                f2 = f2 / (Fraction(xs[k + 1]) - Fraction(xs[k]))
                want = [float((1 - f2) * Fraction(stv[(k * nrho + irho) * n + q]) + f2 * Fraction(stv[((k + 1) * nrho + irho) * n + q])) for q in range(n)]
                dev = max(abs(g - w) / max(abs(w), 1e-300) for g, w in zip(o['out'], want))
                worst = max(worst, dev)
        return worst > 1e-9, worst
    worst = 0.0
    for trial in range(5):
        if inp and trial == 0 and all(('x%d' % i) in inp for i in range(nx)) and all(inp['x%d' % i] < inp['x%d' % (i + 1)] for i in range(nx - 1)):
            xs = np.array([inp['x%d' % i] for i in range(nx)])
            t, ti = inp.get('t', 1.3), inp.get('ti', 0.2)
        else:
            xs = np.sort(rng.uniform(0, 5, nx)) + np.arange(nx) * 0.1
            t, ti = float(rng.uniform(0, 3)), float(rng.uniform(-1, 1))
        stv = rng.uniform(-1, 1, nx * nrho * n)
        opv = rng.uniform(-1, 1, n)
        irho = c.get('irho', 0)
        rho = lambda ix: stv[(ix * nrho + irho) * n:(ix * nrho + irho) * n + n]
        kind = c['kind']
        if kind in ('node', 'node-avg'):
            ix = c['ix']
            ret, o = h.native('h_expect', [I(c.get('which', 0) if kind == 'node' else 1), I(nx), I(d), I(nrho), I(ix), I(irho), Buf('xs', xs), Buf('st', stv), Buf('op', opv), D(t), D(ti), D(1e30), Buf('out', n=1), IBuf('flags', [0] * (d * (d - 1) // 2))])
            if ret != 0:
                return True, 1.0
            worst = max(worst, abs(o['out'][0] - np_expect(d, rho(ix), opv, irho, xs[ix], t - ti)))
            if kind == 'node-avg' and any(o['flags']):
                worst = max(worst, 1.0)
        else:
            which = c['which']
            if kind == 'interp-node':
                xq = xs[c['node']]
            elif inp and trial == 0 and 'xq' in inp and all(('x%d' % i) in inp for i in range(nx)):
                xq = inp['xq']
            elif c.get('expect') == 'throw':
                xq = xs[0] - 0.5 if trial % 2 else xs[-1] + 0.5
            else:
                k = c.get('interval', int(rng.randint(0, nx - 1)))
                xq = float(rng.uniform(xs[k], xs[k + 1]))
            ret, o = h.native('h_expectD', [I(which), I(nx), I(d), I(nrho), I(irho), Buf('xs', xs), Buf('st', stv), Buf('op', opv), D(xq), D(t), D(ti), D(1e30), I(c.get('d0', 0)), Buf('out', n=n), IBuf('flags', [0] * (d * (d - 1) // 2))])
            inside = xs[0] <= xq <= xs[-1]
            if not inside:
                worst = max(worst, 0.0 if ret == 1 else 1.0)
                continue
            if ret != 0:
                worst = max(worst, 1.0)
                continue
            k = max(0, min(nx - 2, int(np.searchsorted(xs, xq, side='left')) - 1))
            f2 = (xq - xs[k]) / (xs[k + 1] - xs[k])
            mix = (1 - f2) * rho(k) + f2 * rho(k + 1)
            if which == 4:
                worst = max(worst, np.abs(np.array(o['out']) - (rho(c['node']) if kind == 'interp-node' else mix)).max())
            else:
                worst = max(worst, abs(o['out'][0] - np_expect(d, mix, opv, irho, xq, t - ti)))
                if which in (2, 3) and any(o['flags']):
                    worst = max(worst, 1.0)
    return worst > 1e-9, worst


def main(tier):
    chk = Check(PID, tier)
    chk.candidates = []
    if tier == 'quick':
        items = [(2, 2, 1, tier), (2, 3, 2, tier), (3, 3, 1, tier), (3, 4, 1, tier), (4, 2, 1, tier), (5, 2, 1, tier), (6, 2, 1, tier)]
    else:
        items = [(d, nx, 1 + (nx == 3), tier) for d in (2, 3, 4, 5, 6) for nx in (2, 3, 4, 5)]
    chk.cov['bounds'] = {'configurations (d, nx, nrho)': [list(i[:3]) for i in items], 'grid': 'user grid installed through Set_xrange(vector): nx symbolic strictly increasing nodes',
                         'inputs': 'x, t, t_ini, all states, the operator symbolic; H0(x,irho): diagonal operator whose entries are uninterpreted functions of x (per irho, per generator)',
                         'history': 'one variant runs a query on another object of another dimension first (thread-local buffer); with nrho>1 the buffered and averaging overloads are also run after the same call for the other rho index on the same buffer; the node-indexed form is also asked of a solver that received the problem by move assignment (into an object initialised with t_ini = 0 and another shape) or move construction'}
    chk.cov['domains'] = ['R (exact reals); sin/cos atoms keyed by their argument terms; H0 entries as uninterpreted function applications']
    chk.cov['lemmas'] = ['sin/cos atoms with equal argument polynomials are identified (parity: sin(-a) = -sin a, cos(-a) = cos a)', 'otherwise none beyond congruence: both sides apply the same kernels to the same symbolic arguments, so agreement is a polynomial identity; what is decided is the glue (node, H0 argument, time difference, weights, bracket, range)',
                         'Tr(rho_S O) = Tr(rho . e^{iH0 tau} O e^{-iH0 tau}) (cyclicity of the trace; conjugation is C03)']
    chk.cov['stubs'] = ['virtual H0 of the harness subclass -> verif_h0 intrinsic (uninterpreted)', 'GSL containers (Const members): shim', 'std::vector / unique_ptr: executed from IR']
    chk.assumptions = ['strictly increasing grid with at least two nodes (linear and logarithmic grids are instances)', 'averaging overloads are compared under the assumption that no phase exceeds the scale',
                       'clang-14 -O1 IR is the semantics of the source (interpreter-vs-native diff every run, with the native H0 a fixed smooth function)']
    h = Harness(CPP, LIBS, defines=('VERIF_SYMBOLIC',))
    hn = Harness(CPP, LIBS)     # native twin (concrete H0)
    rng = np.random.RandomState(chk.seed + 1)
    # interpreter-vs-native: concrete H0 supplied to the interpreter as the same function
    def h0c(ex, st, args, ins, name):
        return np_h0(float(args[0]), args[1], args[2])
    for (d, nx, nrho) in [(2, 3, 1), (3, 2, 2)]:
        n = d * d
        xs = list(np.sort(rng.uniform(0, 3, nx)))
        stv = list(rng.uniform(-1, 1, nx * nrho * n))
        opv = list(rng.uniform(-1, 1, n))
        for which in (0, 2, 4):
            args = [I(which), I(nx), I(d), I(nrho), I(nrho - 1), Buf('xs', xs), Buf('st', stv), Buf('op', opv), D(0.5 * (xs[0] + xs[1])), D(1.5), D(0.25), D(1e30), I(0), Buf('out', n=n), IBuf('flags', [0] * (d * (d - 1) // 2))]
            ex = hn.executor('C')
            ex.intr['verif_h0'] = h0c
            ps = hn.run('h_expectD', args, ex=ex)
            ret, o = hn.native('h_expectD', args)
            chk.cov['interp_vs_native']['cases'] += 1
            good = len(ps) == 1 and ps[0].ret == ret and all((a is None and b != b) or a == b or (a is None) for a, b in zip(ps[0].out('out'), o['out']))
            if which != 4 and good:
                good = ps[0].out('out')[0] == o['out'][0]
            if not good:
                chk.cov['interp_vs_native']['mismatches'] += 1
                chk.broken_q('interpreter and native build disagree on h_expectD which=%d d=%d' % (which, d))
    with MPool(min(16, os.cpu_count() or 1)) as mp:
        results = mp.map(work, items, chunksize=1)
    for w in results:
        chk.merge_worker(w)
    seen = set()
    for c in chk.candidates:
        if c['key'] in seen:
            continue
        seen.add(c['key'])
        ok, dev = safe_replay(replay, chk, hn, c)
        if ok:
            chk.report(c['key'], '%s; native deviation %.3g' % (c['what'], dev), c)
        elif c.get('kind') == 'interp-shape':
            chk.obligation('%s -- native special-magnitude battery clean: accepted' % c['what'][:160], 'holds natively (not solver-decided)')
        else:
            chk.broken_q('counterexample for %s did not reproduce natively (deviation %.3g): %s' % (c['key'], dev, c['what'][:200]))
    return chk.finish()


def replay_main(path):
    c = json.load(open(path))['replay']
    chk = Check(PID, 'quick')
    ok, dev = safe_replay(replay, chk, Harness(CPP, LIBS), c)
    print('replay %s: %s (deviation %.3g)' % (path, 'REPRODUCED' if ok else 'not reproduced', dev))
    return 1 if ok else 0


if __name__ == '__main__':
    sys.exit(main(sys.argv[1] if len(sys.argv) > 1 else 'quick'))
