"""C12 -- eigen-decomposition: PARTIAL.  Decided: reachability of a zero divisor / zero radicand-power base in the dimension-3 closed
form for finite inputs (solver gives the input, the real code confirms non-finite output).  Dimensions 2,4,5,6 delegate to GSL's
compiled eigensolver and are outside the technique; validity for degenerate spectra is only exercised natively (reported, not decided)."""
import sys, time, os, json, math
from fractions import Fraction
import numpy as np
import z3
from common import *
from irsym.harness import Harness, I, D, Buf
from irsym import solver as S

PID = 'C12'
CPP = 'c12.cpp'
LIBS = ('SUNalg.cpp', 'const.cpp', 'MatrixExp.cpp')
FUNCS = ['SU_vector::GetEigenSystem (case 3: EigenSystemSU3.txt)', 'gsl_matrix_complex_normalize', 'std::complex arithmetic helpers (__muldc3, __divdc3), std::pow(complex,double) via clog/cexp']


def cfun(nm):
    def f(ex_, st, args, ins, name):
        return [T.fun(nm + '_re', *args), T.fun(nm + '_im', *args)]
    return f


def uf_free(t):
    return all(s.op in ('var', 'fadd', 'fsub', 'fmul', 'fneg', 'fdiv') for s in T.subterms([t]))


def native_eval(h, d, v, order=1):
    n = d * d
    ret, o = h.native('h_eigen', [I(d), I(order), Buf('a', v), Buf('lam', n=d), Buf('vre', n=n), Buf('vim', n=n)])
    lam = np.array(o['lam'])
    V = (np.array(o['vre']) + 1j * np.array(o['vim'])).reshape(d, d)
    G = gellmann(d)
    M = sum(v[k] * np.array([[float(G[k][i][j][0]) + 1j * float(G[k][i][j][1]) for j in range(d)] for i in range(d)]) for k in range(n))
    fin = bool(np.isfinite(lam).all() and np.isfinite(V).all())
    if not fin:
        return {'finite': False}
    scale = max(np.abs(M - np.trace(M) / d * np.eye(d)).max(), 1e-300)     # relative to the traceless part: the decomposition is scale invariant
    return {'finite': True, 'residual': float(np.abs(M @ V - V @ np.diag(lam)).max() / scale), 'unitarity': float(np.abs(V.conj().T @ V - np.eye(d)).max()),
            'sorted': bool((np.diff(lam) >= -1e-12 * scale).all())}


def main(tier):
    chk = Check(PID, tier)
    solver = S.Solver(timeout_ms=4000)
    h = Harness(CPP, LIBS, solver=solver)
    d, n = 3, 9
    a = sym_vec('a', n)
    ex = h.executor()
    ex.record_divs = True
    ex.intr['clog'] = cfun('clog')
    ex.intr['cpow'] = cfun('cpow')
    ex.intr['carg'] = lambda ex_, st, args, ins, name: T.fun('carg', *args)
    ps = h.run('h_eigen', [I(3), I(0), Buf('a', a), Buf('lam', n=3), Buf('vre', n=9), Buf('vim', n=9)], ex=ex)
    chk.note_exec(ex)
    chk.cov['functions_encoded'] = FUNCS
    chk.cov['bounds'] = {'dimension': '3 only (closed form); all 9 components symbolic', 'clause': 'finiteness: zero divisors whose value is a polynomial in the inputs, and zero bases of pow/sqrt/cbrt atoms appearing in divisors'}
    chk.cov['domains'] = ['R (exact reals); sqrt/cbrt/pow/carg/clog/cexp as uninterpreted atoms']
    chk.cov['stubs'] = ['clog/carg/cpow: uninterpreted', 'gsl_eigen_hermv_sort not executed (order=false) -- the sort is GSL\'s', 'GSL containers: shim']
    chk.assumptions = ['OUTSIDE THE TECHNIQUE: dimensions 2,4,5,6 (gsl_eigen_hermv is compiled, iterative floating point); the residual identity M V = V diag(L), unitarity of V and accuracy for (near-)degenerate spectra in dimension 3 (needs reasoning about complex roots and cancellation) -- these are exercised by a native battery of structured matrices and REPORTED, not decided by the solver',
                       'divisors containing uninterpreted atoms are examined only through the zero set of the polynomial base of their pow/sqrt/cbrt atoms']
    cands = []
    seen_den = set()
    for p in ps:
        if p.status != 'ok' or p.ret != 0:
            chk.broken_q('symbolic execution of GetEigenSystem(3): %r' % ((p.status, p.ret, p.info),))
            continue
        chk.cov['witnesses']['reachability'] += 1
        for (pc, den, where) in p.state.divs:
            targets = []
            if uf_free(den):
                targets.append(('divisor', den))
            for s_ in T.subterms([den]):
                if s_.op in ('pow', 'sqrt', 'cbrt') and isinstance(s_.args[0], Term) and uf_free(s_.args[0]) and T.free_vars([s_.args[0]]):
                    targets.append(('base of %s in a divisor' % s_.op, s_.args[0]))
            for what, t in targets:
                if t.id in seen_den:
                    continue
                seen_den.add(t.id)
                conv = S.Conv('real')
                big = solver.timeout_ms
                solver.timeout_ms = 30000
                r, mdl, _ = solver.check([], conv=conv, extra=[conv.conv(t) == 0] + [z3.And(conv.conv(x) >= -4, conv.conv(x) <= 4) for x in T.free_vars([t])], want_model=True,
                                         label='GetEigenSystem(3): can the %s %s vanish for finite inputs?' % (what, T.show(t, 3)))
                solver.timeout_ms = big
                if r == 'sat':
                    inp = [float(S.model_value(mdl, conv, 'a%d' % k)) if ('a%d' % k) in conv.vars else None for k in range(n)]
                    cands.append({'what': what, 'term': T.show(t, 4), 'input': inp})
                elif r == 'unsat':
                    chk.obligation('GetEigenSystem(3): %s %s cannot vanish' % (what, T.show(t, 3)), 'holds')
                else:
                    chk.undecided_q('zero set of %s %s' % (what, T.show(t, 3)))
    chk.note_solver(solver)
    # replay the solver's inputs on the real code: free components get generic values
    rng = np.random.RandomState(chk.seed + 41)
    generic = rng.uniform(0.3, 1.7, n)
    classes = {}
    for c in cands:
        v = np.array([generic[k] if x is None else x for k, x in enumerate(c['input'])])
        res = native_eval(h, 3, v)
        chk.cov['replayed'] += 1
        c['native'] = res
        c['vector'] = list(map(float, v))
        bad = (not res['finite']) or res['residual'] > 1e-8 or res['unitarity'] > 1e-8
        if bad:
            zero_comps = tuple(k for k, x in enumerate(c['input']) if x is not None and abs(x) < 1e-300)
            key = 'eigen3:zero-divisor:components-%s-are-0' % '-'.join(str(k_) for k_ in zero_comps)
            classes.setdefault(key, c)
        else:
            chk.obligation('solver input for vanishing %s (%s): the real code still returns a valid finite eigensystem' % (c['what'], c['term'][:60]), 'benign')
    for key, c in classes.items():
        chk.report(key, 'GetEigenSystem of a 3x3 operator with %s = 0 (%s) returns %s' % (c['term'][:80], c['what'], 'non-finite values' if not c['native']['finite'] else 'an invalid eigensystem %r' % c['native']), c)
    # native battery (NOT solver-decided; reported so that the evidence is honest about what was looked at)
    G = gellmann(3)
    B = [np.array([[float(G[k][i][j][0]) + 1j * float(G[k][i][j][1]) for j in range(3)] for i in range(3)]) for k in range(9)]

    def comps(M):
        return np.array([(np.trace(M @ B[k]).real / (3 if k == 0 else 2.0)) for k in range(9)])
    X = rng.randn(3, 3) + 1j * rng.randn(3, 3)
    Q, _ = np.linalg.qr(X)
    battery = {'dense': comps(X + X.conj().T), 'repeated-eigenvalue': comps(Q @ np.diag([1., 1., 3.]) @ Q.conj().T), 'near-degenerate': comps(Q @ np.diag([1., 1. + 1e-9, 3.]) @ Q.conj().T),
               'dense-tiny-scale': comps(1.25e-12 * (X + X.conj().T)), 'dense-huge-scale': comps(3e7 * (X + X.conj().T))}
    rep = {}
    for nm, v in battery.items():
        res = native_eval(h, 3, v)
        rep[nm] = res
        chk.cov['interp_vs_native']['cases'] += 1
        if nm.startswith('dense-') and not (res['finite'] and res['residual'] < 1e-9 and res['unitarity'] < 1e-9):
            chk.report('eigen3:native-battery:%s' % nm, 'GetEigenSystem(3) on a generic dense matrix at %s returns an invalid eigensystem (%r) [found by the native battery, not by the solver]' % (nm[6:], res), {'vector': list(map(float, v)), 'native': res})
        if nm in ('repeated-eigenvalue', 'near-degenerate') and res['finite'] and (res['unitarity'] > 1e-6 or res['residual'] > 1e-6):
            chk.report('eigen3:native-battery:%s' % nm, 'GetEigenSystem(3) on a dense matrix with a %s spectrum returns a non-unitary / inaccurate eigenvector matrix (%r) [found by the native battery, not by the solver]' % (nm, res), {'vector': list(map(float, v)), 'native': res})
        if nm == 'dense' and not (res['finite'] and res['residual'] < 1e-10 and res['unitarity'] < 1e-10):
            chk.broken_q('native GetEigenSystem(3) fails on a generic dense matrix: %r' % (res,))
    for dd in (2, 4, 5, 6):
        Xd = rng.randn(dd, dd) + 1j * rng.randn(dd, dd)
        Gd = gellmann(dd)
        Bd = [np.array([[float(Gd[k][i][j][0]) + 1j * float(Gd[k][i][j][1]) for j in range(dd)] for i in range(dd)]) for k in range(dd * dd)]
        Hd = Xd + Xd.conj().T
        v = np.array([(np.trace(Hd @ Bd[k]).real / (dd if k == 0 else 2.0)) for k in range(dd * dd)])
        rep['d=%d dense (GSL path, informational)' % dd] = native_eval(h, dd, v)
    # call history on one thread through the GSL path: growing and shrinking dimensions (scratch/workspace reuse)
    seq = [2, 5, 6, 4, 2, 6]
    hist_bad = None
    for dd in seq:
        Xd = rng.randn(dd, dd) + 1j * rng.randn(dd, dd)
        Gd = gellmann(dd)
        Bd = [np.array([[float(Gd[k][i][j][0]) + 1j * float(Gd[k][i][j][1]) for j in range(dd)] for i in range(dd)]) for k in range(dd * dd)]
        Hd = Xd + Xd.conj().T
        vv = [(np.trace(Hd @ Bd[k]).real / (dd if k == 0 else 2.0)) for k in range(dd * dd)]
        rep.setdefault('history', []).append((dd, vv))
    import subprocess
    code = r'''
import ctypes, sys, json
import numpy as np
lib=ctypes.CDLL(sys.argv[1]); seq=json.loads(sys.argv[2]); out=[]
for d,v in seq:
    n=d*d; a=(ctypes.c_double*n)(*v); lam=(ctypes.c_double*d)(); vr=(ctypes.c_double*n)(); vi=(ctypes.c_double*n)()
    lib.h_eigen(ctypes.c_uint(d),ctypes.c_uint(1),a,lam,vr,vi)
    out.append([list(lam),list(vr),list(vi)])
print(json.dumps(out))
'''
    from irsym import build as _b
    so = _b.native_so(CPP)
    pr = subprocess.run([sys.executable, '-c', code, so, json.dumps(rep['history'])], capture_output=True, text=True, timeout=120)
    hist_res = []
    if pr.returncode != 0:
        hist_bad = 'the call sequence crashed natively: %s' % pr.stderr.strip().split('\n')[-1][:150]
    else:
        for (dd, vv), (lam, vr, vi) in zip(rep['history'], json.loads(pr.stdout.strip().split('\n')[-1])):
            Gd = gellmann(dd)
            M = sum(vv[k] * np.array([[float(Gd[k][i][j][0]) + 1j * float(Gd[k][i][j][1]) for j in range(dd)] for i in range(dd)]) for k in range(dd * dd))
            V = (np.array(vr) + 1j * np.array(vi)).reshape(dd, dd)
            r_ = float(np.abs(M @ V - V @ np.diag(lam)).max()) if np.isfinite(V).all() and np.isfinite(lam).all() else float('inf')
            hist_res.append((dd, r_))
            if not r_ < 1e-9 and hist_bad is None:
                hist_bad = 'in the call sequence of dimensions %r on one thread the dimension-%d result has residual %.3g' % (seq, dd, r_)
    rep['history'] = hist_res
    chk.cov['interp_vs_native']['cases'] += 1
    if hist_bad:
        chk.report('eigen:native-battery:history', 'GetEigenSystem: %s [found by the native battery, not by the solver]' % hist_bad, {'sequence': seq})
    chk.cov['native_battery'] = rep
    return chk.finish()


def replay_main(path):
    c = json.load(open(path))['replay']
    h = Harness(CPP, LIBS)
    res = native_eval(h, 3, np.array(c['vector']))
    bad = (not res['finite']) or res['residual'] > 1e-8 or res['unitarity'] > 1e-8
    print('replay %s: %s (%r)' % (path, 'REPRODUCED' if bad else 'not reproduced', res))
    return 1 if bad else 0


if __name__ == '__main__':
    sys.exit(main(sys.argv[1] if len(sys.argv) > 1 else 'quick'))
