"""C12 -- eigen-decomposition: PARTIAL.  Decided: reachability of a zero divisor / zero radicand-power base in the dimension-3 closed
form for finite inputs (solver gives the input, the real code confirms non-finite output).  Dimensions 2,4,5,6 delegate to GSL's
compiled eigensolver and are outside the technique; validity for degenerate spectra is only exercised natively (reported, not decided)."""
import sys, time, os, json, math
from fractions import Fraction
import numpy as np
import z3
from common import *
from irsym.harness import Harness, I, D, Buf
from irsym import solver as S, llparse as L

PID = 'C12'
CPP = 'c12.cpp'
LIBS = ('SUNalg.cpp', 'const.cpp', 'MatrixExp.cpp')
FUNCS = ['SU_vector::GetEigenSystem (case 3: EigenSystemSU3.txt)', 'gsl_matrix_complex_normalize', 'std::complex arithmetic helpers (__muldc3, __divdc3), std::pow(complex,double) via clog/cexp']


def cfun(nm):
    def f(ex_, st, args, ins, name):
        return [T.fun(nm + '_re', *args), T.fun(nm + '_im', *args)]
    return f


def uf_free(t):
    return all(s.op in ('var', 'fadd', 'fsub', 'fmul', 'fneg', 'fdiv') for s in T.subterms([t]))


def native_eval(h, d, v, order=1):
    n = d * d
    ret, o = h.native('h_eigen', [I(d), I(order), Buf('a', v), Buf('lam', n=d), Buf('vre', n=n), Buf('vim', n=n)])
    lam = np.array(o['lam'])
    V = (np.array(o['vre']) + 1j * np.array(o['vim'])).reshape(d, d)
    G = gellmann(d)
    M = sum(v[k] * np.array([[float(G[k][i][j][0]) + 1j * float(G[k][i][j][1]) for j in range(d)] for i in range(d)]) for k in range(n))
    fin = bool(np.isfinite(lam).all() and np.isfinite(V).all())
    if not fin:
        return {'finite': False}
    scale = max(np.abs(M - np.trace(M) / d * np.eye(d)).max(), 1e-300)     # relative to the traceless part: the decomposition is scale invariant
    return {'finite': True, 'residual': float(np.abs(M @ V - V @ np.diag(lam)).max() / scale), 'unitarity': float(np.abs(V.conj().T @ V - np.eye(d)).max()),
            'sorted': bool((np.diff(lam) >= -1e-12 * scale).all())}


def glue_gsl(chk, h, solver, ctx, d, order):
    n = d * d
    re, im, xat, st_ = s2m_map(h, d, ctx)
    a = sym_vec('a', n)
    ex = h.executor()
    log = []

    def mat(ex_, st, A):
        sz1, sz2, tda, data = [ex_.load(st, A + 8 * k, L.I64) for k in range(4)]
        return sz1, sz2, tda, data

    def ws_alloc(ex_, st, args, ins):
        o = st.heap_alloc(16, 'malloc')
        log.append(('alloc', args[0], o.base))
        return o.base

    def ws_free(ex_, st, args, ins):
        log.append(('free', args[0]))
        ex_.intr['free'](ex_, st, [args[0]], ins, 'free')
        return None

    def hermv(ex_, st, args, ins):
        A, ev, evec, w = args
        sz1, sz2, tda, data = mat(ex_, st, A)
        vals = [[(ex_.load(st, data + 16 * (i * tda + j), L.DOUBLE), ex_.load(st, data + 16 * (i * tda + j) + 8, L.DOUBLE)) for j in range(sz2)] for i in range(sz1)]
        evsz, evstride, evdata = ex_.load(st, ev, L.I64), ex_.load(st, ev + 8, L.I64), ex_.load(st, ev + 16, L.I64)
        e1, e2, etda, edata = mat(ex_, st, evec)
        log.append(('hermv', (sz1, sz2), evsz, (e1, e2), w, vals))
        for i in range(evsz):
            ex_.store(st, evdata + 8 * i * evstride, L.DOUBLE, T.var('L%d' % i))
        for i in range(e1):
            for j in range(e2):
                ex_.store(st, edata + 16 * (i * etda + j), L.DOUBLE, T.var('Vr%d_%d' % (i, j)))
                ex_.store(st, edata + 16 * (i * etda + j) + 8, L.DOUBLE, T.var('Vi%d_%d' % (i, j)))
        return 0

    def sort(ex_, st, args, ins):
        ev, evec, typ = args
        evsz, evstride, evdata = ex_.load(st, ev, L.I64), ex_.load(st, ev + 8, L.I64), ex_.load(st, ev + 16, L.I64)
        e1, e2, etda, edata = mat(ex_, st, evec)
        before = [ex_.load(st, evdata + 8 * i * evstride, L.DOUBLE) for i in range(evsz)]
        log.append(('sort', typ, evsz, (e1, e2), before))
        for i in range(evsz):
            ex_.store(st, evdata + 8 * i * evstride, L.DOUBLE, T.var('sL%d' % i))
        for i in range(e1):
            for j in range(e2):
                ex_.store(st, edata + 16 * (i * etda + j), L.DOUBLE, T.var('sVr%d_%d' % (i, j)))
                ex_.store(st, edata + 16 * (i * etda + j) + 8, L.DOUBLE, T.var('sVi%d_%d' % (i, j)))
        return 0
    ex.summaries.update({'gsl_eigen_hermv_alloc': ws_alloc, 'gsl_eigen_hermv_free': ws_free, 'gsl_eigen_hermv': hermv, 'gsl_eigen_hermv_sort': sort})
    ps = h.run('h_eigen', [I(d), I(order), Buf('a', a), Buf('lam', n=d), Buf('vre', n=n), Buf('vim', n=n)], ex=ex)
    chk.note_exec(ex)
    name = 'GetEigenSystem(order=%s), d=%d, GSL path under a contract stub of gsl_eigen_hermv' % (bool(order), d)
    problems = []
    if len(ps) != 1 or ps[0].status != 'ok' or ps[0].ret != 0:
        problems.append('ends in %r (rc 1 = a library exception)' % [(p.status, p.ret, (p.info or {}).get('msg')) for p in ps][:2])
    else:
        p = ps[0]
        calls = [e[0] for e in log]
        want = ['alloc', 'hermv', 'free'] + (['sort'] if order else [])
        if calls != want:
            problems.append('GSL call sequence is %r, expected %r' % (calls, want))
        else:
            al, hv, fr = log[0], log[1], log[2]
            if al[1] != d:
                problems.append('workspace allocated for order %r' % (al[1],))
            if hv[1] != (d, d) or hv[2] != d or hv[3] != (d, d) or hv[4] != al[2] or fr[1] != al[2]:
                problems.append('containers/workspace handed to gsl_eigen_hermv have the wrong shape or identity: %r' % (hv[1:5],))
            else:
                pa = [ctx.poly(x) for x in a]
                M = apply_map(re, im, xat, pa, d)
                res = Residual(solver, ctx, box=1, tol=Fraction(1, 10 ** 13))
                polys = []
                for i in range(d):
                    for j in range(d):
                        polys.append(ctx.poly(hv[5][i][j][0]) - M[i][j][0])
                        polys.append(ctx.poly(hv[5][i][j][1]) - M[i][j][1])
                r = res.relax_query(polys, 'matrix handed to gsl_eigen_hermv = S2M(vector), d=%d (all components symbolic)' % d)
                if r != 'unsat':
                    problems.append('the matrix handed to gsl_eigen_hermv is not the matrix the vector represents')
            if order and (log[3][1] != 0 or log[3][2] != d or log[3][3] != (d, d) or any(log[3][4][i] is not T.var('L%d' % i) for i in range(d))):
                problems.append('gsl_eigen_hermv_sort is not called with (eigenvalues, eigenvectors, ascending) as written by gsl_eigen_hermv')
            pre = 's' if order else ''
            lam, vre, vim = p.out('lam'), p.out('vre'), p.out('vim')
            if any(lam[i] is not T.var('%sL%d' % (pre, i)) for i in range(d)) or any(vre[i * d + j] is not T.var('%sVr%d_%d' % (pre, i, j)) or vim[i * d + j] is not T.var('%sVi%d_%d' % (pre, i, j)) for i in range(d) for j in range(d)):
                problems.append('the caller does not receive what the GSL routine wrote')
            left = [(o.kind, o.size) for o in p.state.live_heap(('new[]', 'new', 'malloc'))]
            if left:
                problems.append('allocations not released after the result is destroyed: %r' % left[:4])
            ab = p.out('a')
            if any(ab[k] is not a[k] for k in range(n)):
                problems.append('the vector was modified')
    if problems:
        chk.candidates_glue.append({'d': d, 'order': order, 'what': '%s: %s' % (name, '; '.join(problems))})
    else:
        chk.cov['witnesses']['reachability'] += 1
        chk.obligation(name + ': matrix = S2M(vector), shapes and workspace of order d, workspace released, result = what GSL wrote (sorted when requested), vector unmodified, no leak', 'holds')


def glue_replay(h, c):
    """native: eigen-decompose random dense matrices of that dimension (and a sequence of dimensions); any invalid result or crash reproduces"""
    rng = np.random.RandomState(7)
    d = c['d']
    for trial in range(4):
        X = rng.randn(d, d) + 1j * rng.randn(d, d)
        Hd = X + X.conj().T
        Gd = gellmann(d)
        Bd = [np.array([[float(Gd[k][i][j][0]) + 1j * float(Gd[k][i][j][1]) for j in range(d)] for i in range(d)]) for k in range(d * d)]
        v = np.array([(np.trace(Hd @ Bd[k]).real / (d if k == 0 else 2.0)) for k in range(d * d)])
        try:
            ret_, _o = h.native('h_eigen', [I(d), I(c['order']), Buf('a', v), Buf('lam', n=d), Buf('vre', n=d * d), Buf('vim', n=d * d)])
            if ret_ != 0:
                return True, 'the native call raises an exception (rc %d) for a dense Hermitian matrix' % ret_
            res = native_eval(h, d, v, order=c['order'])
        except Exception as e:
            return True, 'native crash: %s' % str(e)[:100]
        if not (res['finite'] and res['residual'] < 1e-9 and res['unitarity'] < 1e-9 and (res.get('sorted', True) or not c['order'])):
            return True, repr(res)
    return False, 'valid eigensystems natively'


def main(tier):
    chk = Check(PID, tier)
    chk.candidates_glue = []
    solver = S.Solver(timeout_ms=4000)
    h = Harness(CPP, LIBS, solver=solver)
    d, n = 3, 9
    a = sym_vec('a', n)
    ex = h.executor()
    ex.record_divs = True
    ex.intr['clog'] = cfun('clog')
    ex.intr['cpow'] = cfun('cpow')
    ex.intr['carg'] = lambda ex_, st, args, ins, name: T.fun('carg', *args)
    ps = h.run('h_eigen', [I(3), I(0), Buf('a', a), Buf('lam', n=3), Buf('vre', n=9), Buf('vim', n=9)], ex=ex)
    chk.note_exec(ex)
    chk.cov['functions_encoded'] = FUNCS
    chk.cov['bounds'] = {'dimension': '3 (closed form, all 9 components symbolic); 2,4,5,6: only the glue around gsl_eigen_hermv, all components symbolic, order requested and not', 'clause': 'finiteness: zero divisors whose value is a polynomial in the inputs, and zero bases of pow/sqrt/cbrt atoms appearing in divisors'}
    chk.cov['domains'] = ['R (exact reals); sqrt/cbrt/pow/carg/clog/cexp as uninterpreted atoms']
    chk.cov['stubs'] = ['gsl_eigen_hermv_alloc/free/hermv/hermv_sort: contract stubs (arguments checked and logged, results = fresh symbols) for the d != 3 glue obligation', 'clog/carg/cpow: uninterpreted', 'gsl_eigen_hermv_sort not executed (order=false) -- the sort is GSL\'s', 'GSL containers: shim']
    chk.assumptions = ['OUTSIDE THE TECHNIQUE: dimensions 2,4,5,6 (gsl_eigen_hermv is compiled, iterative floating point); the residual identity M V = V diag(L), unitarity of V and accuracy for (near-)degenerate spectra in dimension 3 (needs reasoning about complex roots and cancellation) -- these are exercised by a native battery of structured matrices and REPORTED, not decided by the solver',
                       'divisors containing uninterpreted atoms are examined only through the zero set of the polynomial base of their pow/sqrt/cbrt atoms']
    cands = []
    seen_den = set()
    for p in ps:
        if p.status == 'ok' and p.ret == 1:
            chk.candidates_glue.append({'d': 3, 'order': 0, 'throws': True, 'what': 'GetEigenSystem raises an exception for a valid vector of dimension 3 (externally backed storage)'})
            continue
        if p.status != 'ok' or p.ret != 0:
            chk.broken_q('symbolic execution of GetEigenSystem(3): %r' % ((p.status, p.ret, p.info),))
            continue
        chk.cov['witnesses']['reachability'] += 1
        for (pc, den, where) in p.state.divs:
            targets = []
            if uf_free(den):
                targets.append(('divisor', den))
            for s_ in T.subterms([den]):
                if s_.op in ('pow', 'sqrt', 'cbrt') and isinstance(s_.args[0], Term) and uf_free(s_.args[0]) and T.free_vars([s_.args[0]]):
                    targets.append(('base of %s in a divisor' % s_.op, s_.args[0]))
            for what, t in targets:
                if t.id in seen_den:
                    continue
                seen_den.add(t.id)
                conv = S.Conv('real')
                big = solver.timeout_ms
                solver.timeout_ms = 30000
                r, mdl, _ = solver.check([], conv=conv, extra=[conv.conv(t) == 0] + [z3.And(conv.conv(x) >= -4, conv.conv(x) <= 4) for x in T.free_vars([t])], want_model=True,
                                         label='GetEigenSystem(3): can the %s %s vanish for finite inputs?' % (what, T.show(t, 3)))
                solver.timeout_ms = big
                if r == 'sat':
                    inp = [float(S.model_value(mdl, conv, 'a%d' % k)) if ('a%d' % k) in conv.vars else None for k in range(n)]
                    cands.append({'what': what, 'term': T.show(t, 4), 'input': inp})
                elif r == 'unsat':
                    chk.obligation('GetEigenSystem(3): %s %s cannot vanish' % (what, T.show(t, 3)), 'holds')
                else:
                    chk.undecided_q('zero set of %s %s' % (what, T.show(t, 3)))
    # ---- every branch of the closed form: the solver supplies an input that takes the branch inside the domain where the closed form is
    # usable (all off-diagonal components in [1/4,1], well separated spectrum); the real code must return a valid eigensystem there.  A branch
    # condition over uninterpreted atoms may give an input that natively takes another branch: the native verdict on that input stands anyway.
    G3 = gellmann(3)
    B3 = [np.array([[float(G3[k][i][j][0]) + 1j * float(G3[k][i][j][1]) for j in range(3)] for i in range(3)]) for k in range(9)]
    seen_pc = set()
    ex3 = h.executor()
    ex3.intr['clog'] = cfun('clog')
    ex3.intr['cpow'] = cfun('cpow')
    ex3.intr['carg'] = lambda ex_, st, args, ins, name: T.fun('carg', *args)

    def pow_int(ex_, st, args, ins, name):
        # pow with a small constant integer exponent is a product in exact reals (branch conditions become polynomial)
        x_, e_ = args
        if not isinstance(e_, Term) and float(e_) in (2.0, 3.0, 4.0) and isinstance(x_, Term):
            r_ = x_
            for _ in range(int(float(e_)) - 1):
                r_ = T.fmul(r_, x_)
            return r_
        return ex_.dom.libm('pow', args)
    ex3.intr['pow'] = pow_int
    ex3.intr['llvm.pow.f64'] = pow_int
    ps3 = h.run('h_eigen', [I(3), I(0), Buf('a', a), Buf('lam', n=3), Buf('vre', n=9), Buf('vim', n=9)], ex=ex3)
    chk.note_exec(ex3)
    for p in [p_ for p_ in ps3 if p_.status == 'ok' and p_.ret == 0][:16]:
        key_pc = tuple(c_.id for c_ in p.pc)
        if key_pc in seen_pc:
            continue
        seen_pc.add(key_pc)
        br = ' & '.join(T.show(c_, 2) for c_ in p.pc)[:160] or '(no condition)'
        conv = S.Conv('real')
        big = solver.timeout_ms
        solver.timeout_ms = 20000
        # first choice: small dyadic components (multiples of 1/4), for which the double evaluation of a polynomial branch condition with
        # integer coefficients is exact, so that a branch taken only on an exact boundary (x == 0) is taken natively as well
        # (bounded integer problem over q_k = 4 a_k, decided by z3's bit-blasting tactic for bounded non-linear integer arithmetic)
        r, mdl, vq = 'unknown', None, None
        try:
            ints = [z3.Int('q%d' % k) for k in range(n)]
            zpc = [conv.conv(c_) for c_ in p.pc if isinstance(c_, Term)] + list(conv.side)
            sub = [(conv.conv(a[k]), z3.ToReal(ints[k]) / 4) for k in range(n)]
            zpc = [z3.substitute(e_, *sub) for e_ in zpc]
            rq = 'unknown'
            for stage in ([ints[k] == 0 for k in (0, 4, 8)], []):        # first operators with zero diagonal, then any small dyadic one
                sq = z3.Tactic('qfnia').solver()
                sq.set('timeout', 15000)
                sq.add(zpc + stage + [z3.And(ints[k] >= 1, ints[k] <= 12) for k in (1, 2, 3, 5, 6, 7)] + [z3.And(ints[k] >= -4, ints[k] <= 4) for k in (0, 4, 8)])
                t_q = time.time()
                rq = str(sq.check())
                if rq == 'sat':
                    break
            solver.stats['queries'] += 1
            solver.stats[rq] = solver.stats.get(rq, 0) + 1
            solver.stats['time'] += time.time() - t_q
            if rq == 'sat':
                vq = [Fraction(sq.model().eval(ints[k], model_completion=True).as_long(), 4) for k in range(n)]
                r = 'sat'
        except z3.Z3Exception:
            pass
        if r != 'sat':
            conv = S.Conv('real')
            dom = [z3.And(conv.conv(a[k]) >= Fraction(1, 4), conv.conv(a[k]) <= 1) for k in range(1, 8)] + [z3.And(conv.conv(a[k]) >= -1, conv.conv(a[k]) <= 1) for k in (0, 8)]
            r, mdl, _ = solver.check(p.pc, conv=conv, extra=dom, want_model=True, label='GetEigenSystem(3): an input with dense off-diagonal part taking the branch %s' % br[:90])
        solver.timeout_ms = big
        if r != 'sat':
            chk.obligation('GetEigenSystem(3) branch %s: %s inside the dense domain' % (br, 'not taken' if r == 'unsat' else 'no witness found (solver: unknown)'), 'not evaluated')
            continue
        v = np.array([float(x_) for x_ in vq]) if vq is not None else np.array([float(S.model_value(mdl, conv, 'a%d' % k)) if ('a%d' % k) in conv.vars else 0.5 for k in range(n)])
        M = sum(v[k] * B3[k] for k in range(9))
        ev = np.linalg.eigvalsh(M)
        if min(ev[1] - ev[0], ev[2] - ev[1]) < 0.05 * max(1.0, abs(ev).max()):
            chk.obligation('GetEigenSystem(3) branch %s: the solver\'s input has a nearly repeated eigenvalue (outside the clause)' % br, 'not evaluated')
            continue
        res = native_eval(h, 3, v)
        chk.cov['replayed'] += 1
        if res['finite'] and res['residual'] < 1e-8 and res['unitarity'] < 1e-8:
            chk.obligation('GetEigenSystem(3) branch %s: at the solver\'s input %s the real code returns a valid eigensystem (residual %.1e)' % (br, [float(x_) for x_ in v], res['residual']), 'holds')
        else:
            chk.report('eigen3:branch:%s' % br[:60].replace(' ', ''), 'GetEigenSystem(3) returns an invalid eigensystem (%r) for the dense, non-degenerate input the solver found for the branch %s' % (res, br),
                       {'vector': list(map(float, v)), 'native': res})
    # ---- no state carried between calls (d=3 closed form): the result for a vector must be the same terms whether or not another vector was
    # decomposed before it in the same thread
    ex2 = h.executor()
    ex2.intr['clog'] = cfun('clog')
    ex2.intr['cpow'] = cfun('cpow')
    ex2.intr['carg'] = lambda ex_, st, args, ins, name: T.fun('carg', *args)
    a0 = sym_vec('z', n)
    old_to = solver.timeout_ms
    solver.timeout_ms = 300          # branch feasibility only (unknown = explore the branch)
    ps2 = h.run('h_eigen_twice', [I(3), I(0), Buf('a0', a0), Buf('a', a), Buf('lam', n=3), Buf('vre', n=9), Buf('vim', n=9)], ex=ex2)
    solver.timeout_ms = old_to
    chk.note_exec(ex2)
    single = [p for p in ps if p.status == 'ok' and p.ret == 0]
    refs = [p_.out('lam') + p_.out('vre') + p_.out('vim') for p_ in single]
    ok2 = [p2 for p2 in ps2 if p2.status == 'ok' and p2.ret == 0]
    carried = None
    matched = 0
    for p2 in ok2:
        got = p2.out('lam') + p2.out('vre') + p2.out('vim')
        if any(all(g is r_ for g, r_ in zip(got, ref)) for ref in refs):
            matched += 1
            continue
        dep = [k for k in range(len(got)) if isinstance(got[k], Term) and any(str(getattr(v, 'aux', v)).startswith('z') for v in T.free_vars([got[k]]))]
        if dep:
            carried = dep[0]
    if not ok2 or not refs:
        chk.broken_q('h_eigen / h_eigen_twice: no completed path (%d / %d)' % (len(refs), len(ok2)))
    elif carried is not None:
        chk.candidates_glue.append({'d': 3, 'order': 0, 'what': 'GetEigenSystem(3): the result of a second call in the same thread depends on the operand of the first call (output %d)' % carried})
    else:
        chk.obligation('GetEigenSystem(3) twice in one thread: no output of the second call contains a symbol of the first operand; %d of %d paths return exactly the single-call terms' % (matched, len(ok2)), 'holds')
    chk.note_solver(solver)
    # replay the solver's inputs on the real code: free components get generic values
    rng = np.random.RandomState(chk.seed + 41)
    generic = rng.uniform(0.3, 1.7, n)
    classes = {}
    for c in cands:
        v = np.array([generic[k] if x is None else x for k, x in enumerate(c['input'])])
        res = native_eval(h, 3, v)
        chk.cov['replayed'] += 1
        c['native'] = res
        c['vector'] = list(map(float, v))
        bad = (not res['finite']) or res['residual'] > 1e-8 or res['unitarity'] > 1e-8
        if bad:
            zero_comps = tuple(k for k, x in enumerate(c['input']) if x is not None and abs(x) < 1e-300)
            key = 'eigen3:zero-divisor:components-%s-are-0' % '-'.join(str(k_) for k_ in zero_comps)
            classes.setdefault(key, c)
        else:
            chk.obligation('solver input for vanishing %s (%s): the real code still returns a valid finite eigensystem' % (c['what'], c['term'][:60]), 'benign')
    for key, c in classes.items():
        chk.report(key, 'GetEigenSystem of a 3x3 operator with %s = 0 (%s) returns %s' % (c['term'][:80], c['what'], 'non-finite values' if not c['native']['finite'] else 'an invalid eigensystem %r' % c['native']), c)
    # ---- the GSL path (d = 2,4,5,6): gsl_eigen_hermv itself is opaque, but the glue around it is decided symbolically under a contract stub:
    # the matrix handed over is S2M(vector), containers and workspace have the vector's dimension, the workspace is released, what the
    # routine (and the sort, when requested) writes is what the caller receives, the vector is not modified, nothing leaks.
    ctx = PolyCtx()
    for dd in (2, 4, 5, 6):
        for order in (0, 1):
            glue_gsl(chk, h, solver, ctx, dd, order)
    chk.note_solver(solver)
    # native battery (NOT solver-decided; reported so that the evidence is honest about what was looked at)
    G = gellmann(3)
    B = [np.array([[float(G[k][i][j][0]) + 1j * float(G[k][i][j][1]) for j in range(3)] for i in range(3)]) for k in range(9)]

    def comps(M):
        return np.array([(np.trace(M @ B[k]).real / (3 if k == 0 else 2.0)) for k in range(9)])
    X = rng.randn(3, 3) + 1j * rng.randn(3, 3)
    Q, _ = np.linalg.qr(X)
    battery = {'dense': comps(X + X.conj().T), 'repeated-eigenvalue': comps(Q @ np.diag([1., 1., 3.]) @ Q.conj().T), 'near-degenerate': comps(Q @ np.diag([1., 1. + 1e-9, 3.]) @ Q.conj().T),
               'dense-tiny-scale': comps(1.25e-12 * (X + X.conj().T)), 'dense-huge-scale': comps(3e7 * (X + X.conj().T))}
    rep = {}
    for nm, v in battery.items():
        res = native_eval(h, 3, v)
        rep[nm] = res
        chk.cov['interp_vs_native']['cases'] += 1
        if nm.startswith('dense-') and not (res['finite'] and res['residual'] < 1e-9 and res['unitarity'] < 1e-9):
            chk.report('eigen3:native-battery:%s' % nm, 'GetEigenSystem(3) on a generic dense matrix at %s returns an invalid eigensystem (%r) [found by the native battery, not by the solver]' % (nm[6:], res), {'vector': list(map(float, v)), 'native': res})
        if nm in ('repeated-eigenvalue', 'near-degenerate') and res['finite'] and (res['unitarity'] > 1e-6 or res['residual'] > 1e-6):
            chk.report('eigen3:native-battery:%s' % nm, 'GetEigenSystem(3) on a dense matrix with a %s spectrum returns a non-unitary / inaccurate eigenvector matrix (%r) [found by the native battery, not by the solver]' % (nm, res), {'vector': list(map(float, v)), 'native': res})
        if nm == 'dense' and not (res['finite'] and res['residual'] < 1e-10 and res['unitarity'] < 1e-10):
            chk.broken_q('native GetEigenSystem(3) fails on a generic dense matrix: %r' % (res,))
    for dd in (2, 4, 5, 6):
        Xd = rng.randn(dd, dd) + 1j * rng.randn(dd, dd)
        Gd = gellmann(dd)
        Bd = [np.array([[float(Gd[k][i][j][0]) + 1j * float(Gd[k][i][j][1]) for j in range(dd)] for i in range(dd)]) for k in range(dd * dd)]
        Hd = Xd + Xd.conj().T
        v = np.array([(np.trace(Hd @ Bd[k]).real / (dd if k == 0 else 2.0)) for k in range(dd * dd)])
        rep['d=%d dense (GSL path, informational)' % dd] = native_eval(h, dd, v)
    # call history on one thread through the GSL path: growing and shrinking dimensions (scratch/workspace reuse)
    seq = [3, 3, 2, 5, 6, 4, 2, 6, 3]
    hist_bad = None
    for dd in seq:
        Xd = rng.randn(dd, dd) + 1j * rng.randn(dd, dd)
        Gd = gellmann(dd)
        Bd = [np.array([[float(Gd[k][i][j][0]) + 1j * float(Gd[k][i][j][1]) for j in range(dd)] for i in range(dd)]) for k in range(dd * dd)]
        Hd = Xd + Xd.conj().T
        vv = [(np.trace(Hd @ Bd[k]).real / (dd if k == 0 else 2.0)) for k in range(dd * dd)]
        rep.setdefault('history', []).append((dd, vv))
    import subprocess
    code = r'''
import ctypes, sys, json
import numpy as np
lib=ctypes.CDLL(sys.argv[1]); seq=json.loads(sys.argv[2]); out=[]
for d,v in seq:
    n=d*d; a=(ctypes.c_double*n)(*v); lam=(ctypes.c_double*d)(); vr=(ctypes.c_double*n)(); vi=(ctypes.c_double*n)()
    lib.h_eigen(ctypes.c_uint(d),ctypes.c_uint(1),a,lam,vr,vi)
    out.append([list(lam),list(vr),list(vi)])
print(json.dumps(out))
'''
    from irsym import build as _b
    so = _b.native_so(CPP)
    pr = subprocess.run([sys.executable, '-c', code, so, json.dumps(rep['history'])], capture_output=True, text=True, timeout=120)
    hist_res = []
    if pr.returncode != 0:
        hist_bad = 'the call sequence crashed natively: %s' % pr.stderr.strip().split('\n')[-1][:150]
    else:
        for (dd, vv), (lam, vr, vi) in zip(rep['history'], json.loads(pr.stdout.strip().split('\n')[-1])):
            Gd = gellmann(dd)
            M = sum(vv[k] * np.array([[float(Gd[k][i][j][0]) + 1j * float(Gd[k][i][j][1]) for j in range(dd)] for i in range(dd)]) for k in range(dd * dd))
            V = (np.array(vr) + 1j * np.array(vi)).reshape(dd, dd)
            r_ = float(np.abs(M @ V - V @ np.diag(lam)).max()) if np.isfinite(V).all() and np.isfinite(lam).all() else float('inf')
            hist_res.append((dd, r_))
            if not r_ < 1e-9 and hist_bad is None:
                hist_bad = 'in the call sequence of dimensions %r on one thread the dimension-%d result has residual %.3g' % (seq, dd, r_)
    rep['history'] = hist_res
    chk.cov['interp_vs_native']['cases'] += 1
    if hist_bad:
        chk.report('eigen:native-battery:history', 'GetEigenSystem: %s [found by the native battery, not by the solver]' % hist_bad, {'sequence': seq})
    chk.cov['native_battery'] = rep
    for c in chk.candidates_glue:
        ok, info = glue_replay(h, c)
        chk.cov['replayed'] += 1
        if ok:
            chk.report('eigen-gsl-glue:d=%d:order=%d' % (c['d'], c['order']), '%s; native: %s' % (c['what'], info), c)
        elif hist_bad:
            chk.report('eigen-gsl-glue:d=%d:order=%d' % (c['d'], c['order']), '%s; native confirmation by the call sequence of dimensions %r on one thread: %s' % (c['what'], seq, hist_bad), c)
        else:
            chk.broken_q('glue candidate did not reproduce natively: %s' % c['what'][:300])
    return chk.finish()


def replay_main(path):
    c = json.load(open(path))['replay']
    h = Harness(CPP, LIBS)
    res = native_eval(h, 3, np.array(c['vector']))
    bad = (not res['finite']) or res['residual'] > 1e-8 or res['unitarity'] > 1e-8
    print('replay %s: %s (%r)' % (path, 'REPRODUCED' if bad else 'not reproduced', res))
    return 1 if bad else 0


if __name__ == '__main__':
    sys.exit(main(sys.argv[1] if len(sys.argv) > 1 else 'quick'))
