"""C01 -- SU_vector is a faithful linear image of the Hermitian matrix it represents (d = 2..6)."""
import sys, time, os, json
from fractions import Fraction
from multiprocessing import Pool
import numpy as np
import z3
from common import *
from irsym.harness import Harness, I, D, Buf
from irsym import solver as S

PID = 'C01'
CPP = 'c01.cpp'
LIBS = ('SUNalg.cpp',)
TOL = Fraction(1, 10 ** 13)
FUNCS = ['SU_vector::GetGSLMatrix (SUToMatrixN kernels)', 'SU_vector::SU_vector(const gsl_matrix_complex*) (MatrixToSUN kernels; compact matrices and strided views)',
         'SU_vector::GetComponents', 'SU_vector::SU_vector(const std::vector<double>&)', 'operator+ / - / unary - / *(double) / double*',
         'operator+= -= *= /=', 'SU_vector::Transpose', 'SU_vector::Real', 'SU_vector::Imag', 'SU_vector::operator==',
         'AdditionProxy/SubtractionProxy/NegationProxy/MultiplicationProxy::compute', 'SU_vector::assignProxy', 'SU_vector::operator=(const SU_vector&)']
OPS = {0: 'A+B', 1: 'A-B', 2: '-A', 3: 'A*s', 4: 's*A', 5: 'A+=B', 6: 'A-=B', 7: 'A*=s', 8: 'A/=s', 9: 'Transpose', 10: 'Real', 11: 'Imag'}
XOPN = {12: 'A+=B*s', 13: 'A-=s*B', 14: 'A+=A*s', 15: 'A-=s*A', 16: 'A+=A+B', 17: 'A-=A-B', 18: 'A=A+B', 19: 'A=B-A', 20: 'A=-A', 21: 'A=A*s'}


def work(item):
    d, tier = item
    t0 = time.time()
    solver = S.Solver(timeout_ms=60000)
    h = Harness(CPP, LIBS, solver=solver)
    ctx = PolyCtx()
    out = new_out(d=d)
    dec = Decider(solver, ctx, out, tol=TOL)
    exstats = []
    n = d * d
    ex_key = {'d': d}
    try:
        re, im, xat, st = s2m_map(h, d, ctx)
    except RuntimeError as e:
        out['broken'].append(str(e))
        out.update(worker_result(solver, exstats, functions=FUNCS))
        return out
    exstats.append(st)
    out['witnesses']['reachability'] += 1
    # ---- 1. basis claim: S2M(e_k) is the k-th generalised Gell-Mann matrix (layout d*i+j), Tr l_a l_b = 2 delta_ab
    G = gellmann(d)
    worst = Fraction(0)
    bad = None
    for i in range(d):
        for j in range(d):
            for k in range(n):
                cr = re[i * d + j].d.get(((xat[k], 1),), Fraction(0))
                ci = im[i * d + j].d.get(((xat[k], 1),), Fraction(0))
                dev = max(abs(cr - G[k][i][j][0]), abs(ci - G[k][i][j][1]))
                if dev > worst:
                    worst = dev
                    bad = (i, j, k)
    if worst <= Fraction(1, 10 ** 15):
        dec.holds('S2M(e_k) = k-th generalised Gell-Mann matrix, layout d*i+j, d=%d' % d, detail='max coefficient deviation %.3g (concrete, folded)' % float(worst))
    else:
        dec.candidate('s2m-basis:d=%d' % d, 'GetGSLMatrix of unit vector %d differs from the Gell-Mann matrix at entry (%d,%d) by %.3g' % (bad[2], bad[0], bad[1], float(worst)),
                      kind='basis', d=d, k=bad[2], i=bad[0], j=bad[1])
    # trace orthogonality computed from the implementation's own coefficients
    worst = Fraction(0)
    for a_ in range(n):
        for b_ in range(a_, n):
            tr = Fraction(0)
            for i in range(d):
                for j in range(d):
                    ar = re[i * d + j].d.get(((xat[a_], 1),), Fraction(0))
                    ai = im[i * d + j].d.get(((xat[a_], 1),), Fraction(0))
                    br = re[j * d + i].d.get(((xat[b_], 1),), Fraction(0))
                    bi = im[j * d + i].d.get(((xat[b_], 1),), Fraction(0))
                    tr += ar * br - ai * bi
            want = Fraction(0) if a_ != b_ else (Fraction(d) if a_ == 0 else Fraction(2))
            worst = max(worst, abs(tr - want))
    if worst <= Fraction(1, 10 ** 14):
        dec.holds('Tr(lambda_a lambda_b) = 2 delta_ab (and Tr I = d), d=%d' % d, detail='max deviation %.3g' % float(worst))
    else:
        dec.candidate('s2m-orthogonality:d=%d' % d, 'basis matrices are not trace-orthonormal (deviation %.3g)' % float(worst), kind='basis', d=d, k=0, i=0, j=0)
    # ---- 2. Hermitian exactly (structural identity of the entry terms, decided as a Float64 query)
    xs = sym_vec('x', n)
    ps = h.run('h_s2m', [I(d), Buf('a', xs), Buf('re', n=n), Buf('im', n=n)])
    exstats.append(h.last_ex.stats)
    R = ps[0].out('re')
    Im = ps[0].out('im')
    conv = S.Conv('fp')
    cl = []
    for i in range(d):
        for j in range(i, d):
            a1, b1 = R[i * d + j], R[j * d + i]
            a2, b2 = Im[i * d + j], T.fneg(Im[j * d + i]) if i != j else Fraction(0)
            for u, v in ((a1, b1), (a2, b2)):
                if u is v or (not isinstance(u, Term) and not isinstance(v, Term) and u == v):
                    continue
                eu = conv.conv(u) if isinstance(u, Term) else conv.rconst(u)
                ev = conv.conv(v) if isinstance(v, Term) else conv.rconst(v)
                cl.append(z3.Not(z3.fpEQ(eu, ev)))
    fin = [z3.Not(z3.Or(z3.fpIsNaN(v), z3.fpIsInf(v))) for v in conv.vars.values()]
    r = solver.check([], conv=conv, extra=fin + [z3.Or(cl) if cl else z3.BoolVal(False)], label='GetGSLMatrix output is exactly Hermitian d=%d (Float64 query over %d entry pairs)' % (d, len(cl)))
    if r == 'unsat':
        dec.holds('GetGSLMatrix output exactly Hermitian d=%d' % d, detail='%d entry pairs not syntactically identical' % len(cl))
    elif r == 'sat':
        dec.candidate('s2m-hermitian:d=%d' % d, 'GetGSLMatrix output is not exactly Hermitian', kind='hermitian', d=d)
    else:
        out['undecided'].append('hermitian exactness d=%d' % d)
    # ---- 3. round trips
    # M2S linear map over a general complex matrix
    rs = sym_vec('r', n)
    ms = sym_vec('m', n)
    ps = h.run('h_m2s', [I(d), Buf('re', rs), Buf('im', ms), Buf('o', n=n)])
    exstats.append(h.last_ex.stats)
    if not (len(ps) == 1 and ps[0].status == 'ok' and ps[0].ret == 0):
        out['broken'].append('h_m2s d=%d: %r' % (d, ps))
    else:
        out['witnesses']['reachability'] += 1
        m2s = [ctx.poly(v) for v in ps[0].out('o')]
        rat = [ctx.atom(x) for x in rs]
        mat = [ctx.atom(x) for x in ms]

        def apply_m2s(M):
            """components of the matrix M (d x d of (Poly, Poly))"""
            outp = []
            for k in range(n):
                acc = Poly()
                for mono, c in m2s[k].d.items():
                    a0 = mono[0][0]
                    if a0 in rat:
                        idx = rat.index(a0)
                        acc = acc + M[idx // d][idx % d][0].scale(c)
                    else:
                        idx = mat.index(a0)
                        acc = acc + M[idx // d][idx % d][1].scale(c)
                outp.append(acc)
            return outp
        c = sym_vec('c', n)
        pc = [ctx.poly(x) for x in c]
        Mc = apply_map(re, im, xat, pc, d)
        back = apply_m2s(Mc)
        dec.decide('M2S(S2M(c)) = c, d=%d' % d, [b - p for b, p in zip(back, pc)], 'roundtrip-vector:d=%d' % d, dict(kind='rt-vector', d=d),
                   sens_poly=back[1] + pc[1])
        # Hermitian H: symbols for the upper triangle
        H = [[None] * d for _ in range(d)]
        for i in range(d):
            for j in range(i, d):
                hr = ctx.poly(T.var('hr_%d_%d' % (i, j)))
                hi = ctx.poly(T.var('hi_%d_%d' % (i, j))) if i != j else Poly()
                H[i][j] = (hr, hi)
                H[j][i] = (hr, -hi)
        comp = apply_m2s(H)
        M2 = apply_map(re, im, xat, comp, d)
        polys = []
        for i in range(d):
            for j in range(d):
                polys.append(M2[i][j][0] - H[i][j][0])
                polys.append(M2[i][j][1] - H[i][j][1])
        dec.decide('S2M(M2S(H)) = H for Hermitian H, d=%d' % d, polys, 'roundtrip-matrix:d=%d' % d, dict(kind='rt-matrix', d=d), sens_poly=M2[0][0][0] + H[0][0][0])
        # the same matrix as a strided view (row stride != d): identical components, independent of the surrounding entries
        zero0 = Residual(solver, ctx, box=1, tol=Fraction(0))
        for (D_, off) in (((d + 1, 0), (d + 2, 1)) if tier == 'quick' else ((d + 1, 0), (d + 1, 1), (d + 2, 1), (d + 3, 3))):
            jk = sym_vec('junk', 2 * D_ * D_)
            pv = h.run('h_m2s_view', [I(d), I(D_), I(off), Buf('junk', jk), Buf('re', rs), Buf('im', ms), Buf('o', n=n)])
            exstats.append(h.last_ex.stats)
            if not (len(pv) == 1 and pv[0].status == 'ok' and pv[0].ret == 0):
                out['broken'].append('h_m2s_view d=%d: %r' % (d, pv))
                continue
            ov = pv[0].out('o')
            dec.decide('SU_vector(matrix view of a %dx%d matrix at offset %d, row stride %d) = SU_vector(compact copy), d=%d' % (D_, D_, off, D_, d),
                       [ctx.poly(ov[k]) - m2s[k] for k in range(n)], 'm2s-view:d=%d' % d, dict(kind='m2s-view', d=d, D=D_, off=off), res=zero0)
    # ---- 4. component list round trip is exact
    ps = h.run('h_components', [I(d), Buf('a', xs), Buf('o', n=n)])
    exstats.append(h.last_ex.stats)
    if not (len(ps) == 1 and ps[0].status == 'ok' and ps[0].ret == 0):
        out['broken'].append('h_components d=%d: %r' % (d, ps))
    else:
        o = ps[0].out('o')
        if all(o[k] is xs[k] for k in range(n)):
            dec.holds('GetComponents -> SU_vector(std::vector) returns the same components bit for bit, d=%d' % d, detail='every output cell is the input term itself (pure copies)')
        else:
            k = [k for k in range(n) if o[k] is not xs[k]][0]
            dec.candidate('components-roundtrip:d=%d' % d, 'component %d is not copied exactly by GetComponents/constructor' % k, kind='components', d=d, k=k)
    # ---- 5. linear operations
    a = sym_vec('a', n)
    b = sym_vec('b', n)
    s = T.var('s')
    pa = [ctx.poly(x) for x in a]
    pb = [ctx.poly(x) for x in b]
    psc = ctx.poly(s)
    MA = apply_map(re, im, xat, pa, d)
    MB = apply_map(re, im, xat, pb, d)
    zero = Residual(solver, ctx, box=1, tol=Fraction(0))
    for op, nm in OPS.items():
        ps = h.run('h_linop', [I(op), I(d), Buf('a', a), Buf('b', b), D(s), Buf('o', n=n)])
        exstats.append(h.last_ex.stats)
        if not (len(ps) == 1 and ps[0].status == 'ok' and ps[0].ret == 0):
            out['broken'].append('h_linop %s d=%d: %r' % (nm, d, ps))
            continue
        o = ps[0].out('o')
        if any(v is None for v in o):
            dec.candidate('linop:%s:d=%d' % (nm, d), '%s leaves a component unwritten' % nm, kind='linop', d=d, op=op)
            continue
        if op == 8:
            # "divides by s" in double arithmetic means ONE correctly rounded division per component: a reciprocal-and-multiply is equal in exact
            # reals but rounds twice and overflows for tiny |s|.  Decided on the term structure (terms are hash-consed).
            if all(o[k] is T.fdiv(a[k], s) for k in range(n)):
                dec.holds('A/=s: every component is the single division a_k/s (term identity: correctly rounded, no intermediate overflow), d=%d' % d)
            else:
                k_ = [k for k in range(n) if o[k] is not T.fdiv(a[k], s)][0]
                dec.candidate('linop:%s:d=%d' % (nm, d), 'A/=s computes component %d as %s, not as the single division a_k/s (equal in exact reals only)' % (k_, T.show(o[k_], 4)), kind='div-structure', d=d, op=op)
            # division: direct real-arithmetic query on the raw terms (s != 0)
            conv = S.Conv('real')
            cl = []
            for k in range(n):
                cl.append(conv.conv(o[k]) != conv.conv(a[k]) / conv.conv(s)) if isinstance(o[k], Term) else cl.append(z3.BoolVal(True))
            r = solver.check([], conv=conv, extra=[conv.conv(s) != 0, z3.Or(cl)], label='A/=s divides every component by s, d=%d' % d)
            if r == 'unsat':
                dec.holds('A/=s: components a_k/s (s != 0), d=%d' % d)
            elif r == 'sat':
                dec.candidate('linop:%s:d=%d' % (nm, d), 'A/=s does not divide every component by s', kind='linop', d=d, op=op)
            else:
                out['undecided'].append('A/=s d=%d' % d)
            continue
        po = [ctx.poly(v) for v in o]
        MO = apply_map(re, im, xat, po, d)
        polys = []
        for i in range(d):
            for j in range(d):
                x, y = MA[i][j], MB[i][j]
                if op in (0, 5):
                    ref = cadd(x, y)
                elif op in (1, 6):
                    ref = csub(x, y)
                elif op == 2:
                    ref = (-x[0], -x[1])
                elif op in (3, 4, 7):
                    ref = (x[0] * psc, x[1] * psc)
                elif op == 9:
                    ref = MA[j][i]
                elif op == 10:
                    ref = (x[0], Poly())
                elif op == 11:
                    ref = (Poly(), x[1])
                polys.append(MO[i][j][0] - ref[0])
                polys.append(MO[i][j][1] - ref[1])
        # S2M is linear, the ops are component-wise: the residual must be within literal noise
        dec.decide('S2M(%s) = matrix op, d=%d' % (nm, d), polys, 'linop:%s:d=%d' % (nm, d), dict(kind='linop', d=d, op=op))
        # component level: exact polynomial identity (tolerance 0) for the ops that have a component formula
        comp_ref = {0: lambda k: pa[k] + pb[k], 1: lambda k: pa[k] - pb[k], 2: lambda k: -pa[k], 3: lambda k: pa[k] * psc, 4: lambda k: pa[k] * psc,
                    5: lambda k: pa[k] + pb[k], 6: lambda k: pa[k] - pb[k], 7: lambda k: pa[k] * psc}.get(op)
        if comp_ref is not None:
            dec.decide('%s component-wise exactly, d=%d' % (nm, d), [po[k] - comp_ref(k) for k in range(n)], 'linop:%s:d=%d' % (nm, d), dict(kind='linop', d=d, op=op), res=zero)
    # ---- 5b. compound assignment from expressions and expressions assigned onto their own operand: component formulas, every branch
    XOPS = {12: ('A+=B*s', lambda k: T.fadd(a[k], T.fmul(b[k], s))), 13: ('A-=s*B', lambda k: T.fsub(a[k], T.fmul(b[k], s))),
            14: ('A+=A*s', lambda k: T.fadd(a[k], T.fmul(a[k], s))), 15: ('A-=s*A', lambda k: T.fsub(a[k], T.fmul(a[k], s))),
            16: ('A+=A+B', lambda k: T.fadd(a[k], T.fadd(a[k], b[k]))), 17: ('A-=A-B', lambda k: T.fsub(a[k], T.fsub(a[k], b[k]))),
            18: ('A=A+B', lambda k: T.fadd(a[k], b[k])), 19: ('A=B-A', lambda k: T.fsub(b[k], a[k])), 20: ('A=-A', lambda k: T.fsub(Fraction(0), a[k])),
            21: ('A=A*s', lambda k: T.fmul(a[k], s))}
    pins = [T.fcmp('oeq', s, Fraction(37, 100))] + [T.fcmp('oeq', a[k], Fraction(5 + 2 * k, 31)) for k in range(n)] + [T.fcmp('oeq', b[k], Fraction(7 + 3 * k, 37)) for k in range(n)]
    for op, (nm, rf) in XOPS.items():
        ps = h.run('h_linop', [I(op), I(d), Buf('a', a), Buf('b', b), D(s), Buf('o', n=n)])
        exstats.append(h.last_ex.stats)
        if not ps or not all(p_.status == 'ok' and p_.ret == 0 for p_ in ps):
            out['broken'].append('h_linop %s d=%d: %r' % (nm, d, [(p_.status, p_.ret, p_.info) for p_ in ps]))
            continue
        refs = [rf(k) for k in range(n)]
        gen = [p_ for p_ in ps if len(ps) == 1 or solver.check(p_.pc + pins) == 'sat'][:1]
        if not gen:
            out['broken'].append('h_linop %s d=%d: no branch accepts generic arguments' % (nm, d))
            continue
        for p_ in ps:
            o = p_.out('o')
            if any(v is None for v in o):
                dec.candidate('linop:%s:d=%d' % (nm, d), '%s leaves a component unwritten' % nm, kind='linop', d=d, op=op)
                continue
            if p_ is gen[0]:
                dec.decide('%s component-wise exactly, d=%d' % (nm, d), [ctx.poly(o[k]) - ctx.poly(refs[k]) for k in range(n)], 'linop:%s:d=%d' % (nm, d), dict(kind='linop', d=d, op=op), res=zero)
                continue
            # a branch taken only for special argument values: direct query under its branch condition
            conv = S.Conv('real')
            cl = [(conv.conv(o[k]) if isinstance(o[k], Term) else conv.rconst(o[k])) != conv.conv(refs[k]) for k in range(n)]
            br = ' & '.join(T.show(c_, 3) for c_ in p_.pc)[:120]
            r_, m_, _ = solver.check(p_.pc, conv=conv, extra=[z3.Or(cl)], want_model=True, label='%s on the special branch (%s) gives the component formula, d=%d' % (nm, br[:80], d))
            if r_ == 'unsat':
                dec.holds('%s: special branch (%s) agrees with the component formula, d=%d' % (nm, br[:60], d))
            elif r_ == 'sat':
                names = ['a%d' % k for k in range(n)] + ['b%d' % k for k in range(n)] + ['s']
                dec.candidate('linop:%s:d=%d' % (nm, d), 'on the branch %s, %s does not give the component formula' % (br, nm), kind='linop', d=d, op=op,
                              input={nm_: frac_str(S.model_value(m_, conv, nm_)) for nm_ in names if nm_ in conv.vars})
            else:
                out['undecided'].append('%s special branch d=%d' % (nm, d))
    # ---- 6. equality
    for d2 in range(2, 7):
        n2 = d2 * d2
        bb = sym_vec('b', n2)
        ps = []
        for mode in range(4):
            pm = h.run('h_eq', [I(d), I(d2), Buf('a', a), Buf('b', bb), I(mode)])
            exstats.append(h.last_ex.stats)
            for p in pm:
                p.mode = mode
            ps += pm
        okall = True
        for p in ps:
            if p.status != 'ok' or not (isinstance(p.ret, Term) or p.ret in (10, 11)):
                out['broken'].append('h_eq d=%d,%d: %r' % (d, d2, p.res))
                okall = False
                continue
            says_equal = T.icmp('eq', p.ret, 10, 32) if isinstance(p.ret, Term) else (p.ret == 10)      # the answer may be a value computed without branching
            if d != d2:
                if says_equal is not False:
                    dec.candidate('eq:d=%d,%d' % (d, d2), 'vectors of different dimension compare equal', kind='eq', d=d, d2=d2, mode=p.mode)
                    okall = False
                continue
            spec = True
            for k in range(n):
                spec = T.band(spec, T.fcmp('oeq', a[k], bb[k]))
            want = T.bxor(says_equal, spec)   # violated iff the answer is "different" but all components are equal, or "equal" but some differ
            # decided over Float64 values (finite, non-NaN): the comparison involves no arithmetic, and +0 == -0 must hold
            cfp = S.Conv('fp')
            for t_ in p.pc + [want]:
                cfp.conv(t_) if isinstance(t_, Term) else None
            fin_ = [z3.Not(z3.Or(z3.fpIsNaN(v_), z3.fpIsInf(v_))) for v_ in cfp.vars.values() if z3.is_fp(v_)]
            r = solver.check(p.pc + [want], conv=cfp, extra=fin_, label='operator== path (ret=%s) consistent with component-wise IEEE equality over Float64 values, d=%d' % ('symbolic' if isinstance(p.ret, Term) else 'equal' if p.ret == 10 else 'different', d))
            if r == 'sat':
                dec.candidate('eq:d=%d,%d' % (d, d2), 'operator== disagrees with component-wise equality (storage mode %d: bit0 left owns, bit1 right owns)' % p.mode, kind='eq', d=d, d2=d2, mode=p.mode)
                okall = False
            elif r != 'unsat':
                out['undecided'].append('operator== d=%d' % d)
                okall = False
        if okall:
            dec.holds('A==B iff same dimension and equal components, dims (%d,%d), owning/viewing operands in all 4 combinations, %d paths' % (d, d2, len(ps)))
    out.update(worker_result(solver, exstats, functions=FUNCS))
    out['seconds'] = time.time() - t0
    return out


def replay(chk, h, c):
    d = c['d']
    n = d * d
    rng = np.random.RandomState(chk.seed + 3)
    kind = c['kind']
    chk.cov['replayed'] += 1
    G = gellmann(d)

    def npmat(v):
        M = np.zeros((d, d), complex)
        for k in range(n):
            for i in range(d):
                for j in range(d):
                    M[i, j] += v[k] * (float(G[k][i][j][0]) + 1j * float(G[k][i][j][1]))
        return M

    def native_s2m(v):
        ret, o = h.native('h_s2m', [I(d), Buf('a', v), Buf('re', n=n), Buf('im', n=n)])
        return (np.array(o['re']) + 1j * np.array(o['im'])).reshape(d, d)
    worst = 0.0
    for trial in range(6):
        v = rng.uniform(-1, 1, n)
        w = rng.uniform(-1, 1, n)
        sc = float(rng.uniform(0.5, 2))
        if trial == 0 and c.get('input'):
            inp = {k_: float(Fraction(x_)) for k_, x_ in c['input'].items()}
            v = np.array([inp.get('a%d' % k_, v[k_]) for k_ in range(n)])
            w = np.array([inp.get('b%d' % k_, w[k_]) for k_ in range(n)])
            sc = inp.get('s', sc)
        if kind in ('basis', 'hermitian', 'rt-matrix'):
            M = native_s2m(v)
            worst = max(worst, np.abs(M - npmat(v)).max(), np.abs(M - M.conj().T).max())
        elif kind == 'rt-vector':
            M = native_s2m(v)
            ret, o = h.native('h_m2s', [I(d), Buf('re', M.real.flatten()), Buf('im', M.imag.flatten()), Buf('o', n=n)])
            worst = max(worst, np.abs(np.array(o['o']) - v).max())
            # also against the independent definition
            Mi = npmat(v)
            ret, o = h.native('h_m2s', [I(d), Buf('re', Mi.real.flatten()), Buf('im', Mi.imag.flatten()), Buf('o', n=n)])
            worst = max(worst, np.abs(np.array(o['o']) - v).max())
        elif kind == 'm2s-view':
            D_, off = c['D'], c['off']
            Mi = npmat(v)
            junk = rng.uniform(-1, 1, 2 * D_ * D_)
            ret, o = h.native('h_m2s_view', [I(d), I(D_), I(off), Buf('junk', junk), Buf('re', Mi.real.flatten()), Buf('im', Mi.imag.flatten()), Buf('o', n=n)])
            ret2, o2 = h.native('h_m2s', [I(d), Buf('re', Mi.real.flatten()), Buf('im', Mi.imag.flatten()), Buf('o', n=n)])
            worst = max(worst, np.abs(np.array(o['o']) - np.array(o2['o'])).max(), np.abs(np.array(o['o']) - v).max())
        elif kind == 'components':
            ret, o = h.native('h_components', [I(d), Buf('a', v), Buf('o', n=n)])
            worst = max(worst, np.abs(np.array(o['o']) - v).max() * 1e9)
        elif kind == 'linop':
            op = c['op']
            ret, o = h.native('h_linop', [I(op), I(d), Buf('a', v), Buf('b', w), D(sc), Buf('o', [np.nan] * n)])
            A, B = npmat(v), npmat(w)
            ref = {0: A + B, 1: A - B, 2: -A, 3: A * sc, 4: A * sc, 5: A + B, 6: A - B, 7: A * sc, 8: A / sc, 9: A.T, 10: A.real + 0j, 11: 1j * A.imag,
                   12: A + B * sc, 13: A - B * sc, 14: A + A * sc, 15: A - A * sc, 16: 2 * A + B, 17: B, 18: A + B, 19: B - A, 20: -A, 21: A * sc}[op]
            if any(x != x for x in o['o']):
                worst = float('inf')
            else:
                worst = max(worst, np.abs(npmat(np.array(o['o'])) - ref).max())
        elif kind == 'div-structure':
            for sc_, mag in ((1e-310, 1e-300), (4e-320, 1e-305), (3.0, 1.0), (-7e-309, 2e-301)):
                vv = rng.uniform(0.5, 1, n) * mag * rng.choice([-1, 1], n)
                ret, o = h.native('h_linop', [I(8), I(d), Buf('a', vv), Buf('b', w), D(sc_), Buf('o', [np.nan] * n)])
                got = np.array(o['o'])
                want = vv / sc_
                if not np.isfinite(got).all():
                    return True, float('inf')
                worst = max(worst, float(np.max(np.abs(got - want) / np.abs(want))) * 1e9 if np.max(np.abs(got - want) / np.abs(want)) > 1e-12 else 0.0)
        elif kind == 'eq':
            d2 = c['d2']
            md = I(c.get('mode', 0))
            if d2 != d:
                ret, o = h.native('h_eq', [I(d), I(d2), Buf('a', v), Buf('b', rng.uniform(-1, 1, d2 * d2)), md])
                worst = max(worst, 1.0 if ret == 10 else 0.0)
            else:
                for k in range(n):
                    w = v.copy()
                    w[k] += 0.5
                    ret, o = h.native('h_eq', [I(d), I(d2), Buf('a', v), Buf('b', w), md])
                    worst = max(worst, 1.0 if ret == 10 else 0.0)
                ret, o = h.native('h_eq', [I(d), I(d2), Buf('a', v), Buf('b', v.copy()), md])
                worst = max(worst, 1.0 if ret != 10 else 0.0)
                vz, wz = v.copy(), v.copy()
                vz[trial % n], wz[trial % n] = 0.0, -0.0          # +0 and -0 are equal components
                ret, o = h.native('h_eq', [I(d), I(d2), Buf('a', vz), Buf('b', wz), md])
                worst = max(worst, 1.0 if ret != 10 else 0.0)
    return worst > 1e-9, worst


def main(tier):
    chk = Check(PID, tier)
    chk.candidates = []
    dims = [2, 3, 4, 5, 6]
    chk.cov['bounds'] = {'dimensions': dims, 'inputs': 'all d^2 components / all entries of the matrix / the scalar symbolic; unit box for the toleranced identities',
                         'tolerance': '1e-13 on the unit box for identities involving the decimal literals; 0 (exact polynomial identity) for the component-wise operations',
                         'equality': 'all 25 ordered dimension pairs, owning/viewing operands in all 4 combinations, every path of the comparison loop', 'matrix views': 'd x d block of a D x D matrix, D-d in 1..3, surrounding entries symbolic'}
    chk.cov['domains'] = ['R (exact reals) for the linear-algebra identities', 'F (Float64) for the exact-Hermitian clause', 'syntactic copy for the bit-exact component round trip']
    chk.cov['stubs'] = ['GSL accessors: harness/gsl_shim.c', 'operator new[]: fresh block (aligned policy)', 'std::runtime_error construction: message recorded only']
    chk.assumptions = ['finite, non-NaN inputs; overflow/underflow (huge/tiny magnitudes) only in the sense of exact-real homogeneity',
                       'clang-14 -O1 IR is the semantics of the source (bridged by interpreter-vs-native diff and native replay)',
                       '"up to rounding" is decided as: exact-real identity within 1e-13 on the unit box (the kernels are division-free linear maps with <= d+1 terms per entry)']
    h = Harness(CPP, LIBS)
    rng = np.random.RandomState(chk.seed + 1)
    cases = []
    for d in ([2, 3, 4, 5, 6] if tier == 'thorough' else [2, 3, 5]):
        n = d * d
        v = list(rng.uniform(-2, 2, n))
        w = list(rng.uniform(-2, 2, n))
        cases.append(('h_s2m', [I(d), Buf('a', v), Buf('re', n=n), Buf('im', n=n)], ['re', 'im']))
        cases.append(('h_m2s', [I(d), Buf('re', v), Buf('im', w), Buf('o', n=n)], ['o']))
        cases.append(('h_components', [I(d), Buf('a', v), Buf('o', n=n)], ['o']))
        for op in list(OPS) + list(XOPN):
            cases.append(('h_linop', [I(op), I(d), Buf('a', v), Buf('b', w), D(1.7), Buf('o', n=n)], ['o']))
    generic_interp_vs_native(chk, h, cases)
    with Pool(min(5, os.cpu_count() or 1)) as pool:
        results = pool.map(work, [(d, tier) for d in dims])
    for w in results:
        chk.merge_worker(w)
    seen = set()
    for c in chk.candidates:
        if c['key'] in seen:
            continue
        seen.add(c['key'])
        ok, dev = safe_replay(replay, chk, h, c)
        if ok:
            chk.report(c['key'], '%s; native deviation %.3g' % (c['what'], dev), c)
        else:
            chk.broken_q('counterexample for %s did not reproduce natively (deviation %.3g): encoding discrepancy' % (c['key'], dev))
    return chk.finish()


def replay_main(path):
    c = json.load(open(path))['replay']
    chk = Check(PID, 'quick')
    ok, dev = safe_replay(replay, chk, Harness(CPP, LIBS), c)
    print('replay %s: %s (deviation %.3g)' % (path, 'REPRODUCED' if ok else 'not reproduced', dev))
    return 1 if ok else 0


if __name__ == '__main__':
    sys.exit(main(sys.argv[1] if len(sys.argv) > 1 else 'quick'))
