"""C07 -- Pade matrix exponential: the encodable clauses (tables/assembly, no spurious exception, diagonal shortcut, UTransform glue).
The accuracy-for-every-matrix clause is outside the technique (see level_note)."""
import sys, time, os, json, math
import re as re_
from fractions import Fraction
from multiprocessing import Pool as MPool
import numpy as np
import z3
from common import *
from irsym.harness import Harness, I, D, Buf, IBuf, NativeCrash
from irsym import solver as S, llparse as L
from irsym.exec import PathResult

PID = 'C07'
CPP = 'c07.cpp'
LIBS = ('SUNalg.cpp', 'const.cpp')
TOL = Fraction(1, 10 ** 13)
FUNCS = ['math_detail::pade3/5/7/9/13', 'math_detail::matrix_exponential (diagonal shortcut, dispatch to the estimator, order selection, scaling, repeated squaring)', 'math_detail::solve_P_Q', 'math_detail::one_normest_core (argument validation)', 'math_detail::one_normest_matrix_power / ell / one_normest_product (call sites)',
         'SU_vector::UTransform(const SU_vector&, gsl_complex)', 'gsl_matrix_complex_change_basis_UCMU', 'gsl_matrix_complex_holder (thread-local scratch)']
NORMEST = '_ZN6squids11math_detail16one_normest_coreEPK18gsl_matrix_complexjj'
EXPM = '_ZN6squids11math_detail18matrix_exponentialEP18gsl_matrix_complexPKS1_'


def harness(solver=None):
    return Harness(CPP, LIBS, solver=solver, native_exclude=('MatrixExp',))


def pade_coeffs(m):
    """numerator coefficients of the [m/m] Pade approximant of exp, scaled so that the leading one is 1"""
    f = math.factorial
    return [Fraction(f(2 * m - k), f(k) * f(m - k)) for k in range(m + 1)]


def cpow(z, k):
    r = (Poly.const(1), Poly())
    for _ in range(k):
        r = cmul(r, z)
    return r


def work(item):
    kind = item[0]
    tier = item[-1]
    solver = S.Solver(timeout_ms=60000)
    h = harness(solver)
    out = new_out(item=list(item))
    exstats = []
    ctx = PolyCtx()
    dec = Decider(solver, ctx, out, tol=TOL)
    if kind == 'pade':
        m = item[1]
        x, y = T.var('x'), T.var('y')
        ps = h.run('h_pade', [I(m), I(1), Buf('are', [x]), Buf('aim', [y]), Buf('ure', n=1), Buf('uim', n=1), Buf('vre', n=1), Buf('vim', n=1)])
        exstats.append(h.last_ex.stats)
        if len(ps) != 1 or ps[0].status != 'ok' or ps[0].ret != 0:
            out['broken'].append('h_pade m=%d: %r' % (m, [(p.status, p.ret, p.info) for p in ps]))
        else:
            p = ps[0]
            out['witnesses']['reachability'] += 1
            U = (ctx.poly(p.out('ure')[0]), ctx.poly(p.out('uim')[0]))
            V = (ctx.poly(p.out('vre')[0]), ctx.poly(p.out('vim')[0]))
            z = (ctx.poly(x), ctx.poly(y))
            b = pade_coeffs(m)
            scale = 1 / b[0]
            pp = (Poly(), Poly())
            pm = (Poly(), Poly())
            for k in range(m + 1):
                zk = cpow(z, k)
                pp = cadd(pp, (zk[0].scale(b[k]), zk[1].scale(b[k])))
                pm = cadd(pm, (zk[0].scale(b[k] * (-1) ** k), zk[1].scale(b[k] * (-1) ** k)))
            num = cadd(U, V)
            den = csub(V, U)
            polys = [(num[0] - pp[0]).scale(scale), (num[1] - pp[1]).scale(scale), (den[0] - pm[0]).scale(scale), (den[1] - pm[1]).scale(scale)]
            dec.decide('pade%d: U+V = p_m(A), V-U = p_m(-A) with the [%d/%d] Pade coefficients of exp (A a symbolic complex number; even powers formed as in matrix_exponential)' % (m, m, m), polys,
                       'pade:m=%d' % m, dict(kind='pade', m=m), sens_poly=(num[0] + pp[0]).scale(scale))
    elif kind == 'guard':
        n = item[1]
        nn = n * n
        tT, iT = T.bvvar('t', 32), T.bvvar('itmax', 32)
        are, aim = sym_vec('re', nn), sym_vec('im', nn)
        ex = h.executor()
        reset = [f for f in h.mod.functions if 'one_normest_core_scratch_space' in f and 'reset' in f]

        def reached(ex_, st, args, ins):
            return PathResult('ok', st, retval=77)
        for f in reset:
            ex.summaries[f] = reached
        ps = h.run('h_normest', [I(n), I(tT), I(iT), Buf('are', are), Buf('aim', aim), Buf('res', n=1)], ex=ex)
        exstats.append(ex.stats)
        okg = bool(reset)
        throws_with_defaults = False
        nthrow = 0
        for p in ps:
            conv = S.Conv('real')
            zt, zi = conv.conv(tT), conv.conv(iT)
            if p.status != 'ok' or p.ret not in (0, 1, 77):
                out['broken'].append('h_normest n=%d: %r' % (n, (p.status, p.ret, p.info)))
                okg = False
                continue
            if p.ret == 1:
                nthrow += 1
                r = solver.check(p.pc, conv=conv, extra=[zt == 2, zi == 5], label='one_normest_core n=%d: can the argument validation throw for the arguments the library passes (t=2, itmax=5)? (matrix symbolic)' % n)
                if r == 'sat':
                    throws_with_defaults = True
                elif r != 'unsat':
                    okg = False
                    out['undecided'].append('estimator guard n=%d' % n)
        if okg:
            dec.holds('one_normest_core argument validation characterised by the solver for n=%d: %d throwing paths over symbolic (t, itmax); with the library\'s arguments (2,5) it %s' % (
                n, nthrow, 'THROWS' if throws_with_defaults else 'does not throw'))
        # call sites: constants (t, itmax) actually passed
        sites = []
        for fname, fn in h.mod.functions.items():
            if not fn.defined:
                continue
            fn.parse_body()
            for blk in fn.blocks.values():
                for ins in blk:
                    if ins.op in ('call', 'invoke') and isinstance(ins.a, L.Glob) and ins.a.name == NORMEST:
                        a = ins.b
                        sites.append((fname, a[1][1].v if isinstance(a[1][1], L.CInt) else None, a[2][1].v if isinstance(a[2][1], L.CInt) else None))
        lib_sites = [s_ for s_ in sites if not s_[0].startswith('h_')]
        if lib_sites and all(s_[1] == 2 and s_[2] == 5 for s_ in lib_sites):
            dec.holds('every library call site of one_normest_core passes the constants t=2, itmax=5 (%d sites in the IR)' % len(lib_sites))
            const_args = True
        else:
            out['undecided'].append('call sites of one_normest_core do not all pass constants: %r' % (lib_sites,))
            const_args = False
        # matrix_exponential: a non-diagonal input reaches the estimator; a diagonal one returns diag(exp a_ii)
        ex = h.executor()
        ex.merge = True

        def est(ex_, st, args, ins):
            st.log.append(('normest', args[1], args[2]))
            return PathResult('ok', st, retval=88)
        ex.summaries[NORMEST] = est
        ps = h.run('h_expm', [I(n), Buf('are', are), Buf('aim', aim), Buf('ere', n=nn), Buf('eim', n=nn)], ex=ex)
        exstats.append(ex.stats)
        for p in ps:
            conv = S.Conv('real')
            offd = [z3.Or(conv.conv(are[i * n + j]) != 0, conv.conv(aim[i * n + j]) != 0) for i in range(n) for j in range(n) if i != j]
            if p.status != 'ok':
                dec.candidate('expm:n=%d:error' % n, 'matrix_exponential on an %dx%d matrix ends in %s: %s' % (n, n, (p.info or {}).get('kind'), (p.info or {}).get('msg')), kind='expm', n=n)
                continue
            if p.ret == 88:
                # reached the estimator with (t,itmax) logged
                lg = [e for e in p.state.log if e[0] == 'normest']
                t_, it_ = lg[-1][1], lg[-1][2]
                r = solver.check(p.pc, conv=conv, extra=[z3.Not(z3.Or(offd))], label='matrix_exponential n=%d: the Pade path is taken only for non-diagonal input' % n)
                if r != 'unsat':
                    dec.candidate('expm:n=%d:diag-to-pade' % n, 'a diagonal %dx%d matrix is sent through the Pade path' % (n, n), kind='expm', n=n)
                throws = throws_with_defaults and (t_, it_) == (2, 5)
                if throws and const_args:
                    dec.candidate('expm:n=%d:throws' % n, 'matrix_exponential throws a library exception for EVERY non-diagonal %dx%d matrix (norm estimator called with t=%d on a matrix of order %d)' % (n, n, t_, n), kind='expm-throws', n=n)
                else:
                    dec.holds('matrix_exponential n=%d: non-diagonal input reaches the norm estimator with admissible (t=%d, itmax=%d): no argument exception' % (n, t_, it_))
            elif p.ret == 0:
                r, mdl, _ = solver.check(p.pc, conv=conv, extra=[z3.Or(offd)], label='matrix_exponential n=%d: the diagonal shortcut is taken only for diagonal input' % n, want_model=True)
                if r != 'unsat':
                    dec.candidate('expm:n=%d:shortcut' % n, 'the diagonal shortcut of matrix_exponential is taken for a non-diagonal %dx%d matrix' % (n, n), kind='expm-shortcut', n=n,
                                  input={v.aux: frac_str(S.model_value(mdl, conv, v.aux)) for v in are + aim} if mdl is not None else {})
                ere, eim = p.out('ere'), p.out('eim')
                good = True
                for i in range(n):
                    for j in range(n):
                        er, ei = ere[i * n + j], eim[i * n + j]
                        if i != j:
                            good = good and (not isinstance(er, Term) and er == 0) and (not isinstance(ei, Term) and ei == 0)
                        else:
                            wr = T.fmul(T.fun('exp', are[i * n + i]), T.fun('cos', aim[i * n + i]))
                            wi = T.fmul(T.fun('exp', are[i * n + i]), T.fun('sin', aim[i * n + i]))
                            good = good and (ctx.poly(er) - ctx.poly(wr)).is_zero() and (ctx.poly(ei) - ctx.poly(wi)).is_zero()
                if good:
                    dec.holds('matrix_exponential n=%d: diagonal input -> diag(exp(a_ii)) (exp(re)(cos im + i sin im))' % n)
                else:
                    dec.candidate('expm:n=%d:diagvalue' % n, 'diagonal shortcut does not return diag(exp(a_ii))', kind='expm', n=n)
            else:
                out['broken'].append('h_expm n=%d ret %r' % (n, p.ret))
    elif kind == 'glue':
        # order selection + scaling + repeated squaring: A bidiagonal nilpotent (A^7 = 0) with symbolic complex entries, for which every
        # [m/m] approximant (2m >= 6) and every scaling is EXACT: q_m(A) exp(A) = p_m(A).  The norm estimators are stubs returning scripted values
        # (any value is a legitimate estimate for the purpose of this identity), so every order m and scaling exponent s is driven.
        name, norms, ells = item[1], item[2], item[3]
        n = 7
        nn = n * n
        zr, zi = sym_vec('x', n - 1), sym_vec('y', n - 1)
        are, aim = [Fraction(0)] * nn, [Fraction(0)] * nn
        for k in range(n - 1):
            are[k * n + k + 1] = zr[k]
            aim[k * n + k + 1] = zi[k]
        ex = h.executor()
        ex.merge = True
        calls = {'norm': 0, 'ell': 0, 'order': None}

        def normstub(ex_, st, args, ins):
            k = sum(1 for e in st.log if e[0] == 'norm')
            st.log.append(('norm', k))
            return Fraction(norms[min(k, len(norms) - 1)])

        def ellstub(ex_, st, args, ins):
            k = sum(1 for e in st.log if e[0] == 'ell')
            st.log.append(('ell', k, args[1]))
            return ells[k] if k < len(ells) else 0
        for f in h.mod.functions:
            if f.startswith('_ZN6squids11math_detail') and ('exact_1_norm' in f or 'one_normest_matrix_power' in f or 'one_normest_product' in f):
                ex.summaries[f] = normstub
            if f.startswith('_ZN6squids11math_detail3ell'):
                ex.summaries[f] = ellstub
        ex.call_log_names = set(f for f in h.mod.functions if f.startswith('_ZN6squids11math_detail') and 'pade' in f)
        ps = h.run('h_expm', [I(n), Buf('are', are), Buf('aim', aim), Buf('ere', n=nn), Buf('eim', n=nn)], ex=ex)
        exstats.append(ex.stats)
        z = [(ctx.poly(zr[k]), ctx.poly(zi[k])) for k in range(n - 1)]
        nond = 0
        for p in ps:
            if p.status != 'ok' or p.ret != 0:
                dec.candidate('glue:%s:error' % name, 'matrix_exponential of a nilpotent 7x7 matrix ends in %s %r %s [%s]' % (p.status, p.ret, (p.info or {}).get('msg', ''), name), kind='glue', script=name)
                continue
            orders = [e[0] for e in p.state.log if isinstance(e[0], str) and 'pade' in e[0]]
            if not orders:
                continue          # the diagonal path (all entries zero): covered by the dispatch obligation
            nond += 1
            out['witnesses']['reachability'] += 1
            m = int(re_.search(r'pade(\d+)E', orders[-1]).group(1))
            ere, eim = p.out('ere'), p.out('eim')
            polys = []
            for i in range(n):
                for j in range(n):
                    if j < i:
                        want = (Poly(), Poly())
                    else:
                        want = (Poly.const(1), Poly())
                        for k in range(i, j):
                            want = cmul(want, z[k])
                        f_ = Fraction(1, math.factorial(j - i))
                        want = (want[0].scale(f_), want[1].scale(f_))
                    if ere[i * n + j] is None or eim[i * n + j] is None:
                        dec.candidate('glue:%s:unwritten' % name, 'matrix_exponential leaves an entry of the result unwritten [%s]' % name, kind='glue', script=name)
                        polys = None
                        break
                    polys.append(ctx.poly(ere[i * n + j]) - want[0])
                    polys.append(ctx.poly(eim[i * n + j]) - want[1])
                if polys is None:
                    break
            if polys:
                nell = sum(1 for e in p.state.log if e[0] == 'ell')
                dec.decide('matrix_exponential (order %d selected, %d norm estimates, %d ell calls; script "%s"): result = exp(A) exactly for A bidiagonal nilpotent 7x7, all 12 real parameters symbolic' % (m, sum(1 for e in p.state.log if e[0] == 'norm'), nell, name),
                           polys, 'glue:%s' % name, dict(kind='glue', script=name, order=m))
        if nond == 0:
            out['broken'].append('glue script %s: no non-diagonal path' % name)
    elif kind == 'utransform':
        d, d0 = item[1], item[2]
        n = d * d
        re, im, xat, st = s2m_map(h, d, ctx)
        exstats.append(st)
        a, v = sym_vec('a', n), sym_vec('v', n)
        sre, sim = T.var('sre'), T.var('sim')
        ex = h.executor()
        rec = {}

        def expm(ex_, st, args, ins):
            eA, A = args
            call = sum(1 for e in st.log if e[0] == 'expm')
            # read the argument matrix and overwrite the result matrix with fresh symbols (an arbitrary matrix E)
            sz = ex_.load(st, A, L.I64)
            data = ex_.load(st, A + 24, L.I64)
            tda = ex_.load(st, A + 16, L.I64)
            vals = [[(ex_.load(st, data + 16 * (i * tda + j), L.DOUBLE), ex_.load(st, data + 16 * (i * tda + j) + 8, L.DOUBLE)) for j in range(sz)] for i in range(sz)]
            edata = ex_.load(st, eA + 24, L.I64)
            etda = ex_.load(st, eA + 16, L.I64)
            esz = ex_.load(st, eA, L.I64)
            for i in range(esz):
                for j in range(esz):
                    ex_.store(st, edata + 16 * (i * etda + j), L.DOUBLE, T.var('er%d_%d_%d' % (call, i, j)))
                    ex_.store(st, edata + 16 * (i * etda + j) + 8, L.DOUBLE, T.var('ei%d_%d_%d' % (call, i, j)))
            st.log.append(('expm', sz, esz, vals))
            return None
        ex.summaries[EXPM] = expm
        ps = h.run('h_utransform', [I(d), I(d0), Buf('a', a), Buf('v', v), D(sre), D(sim), Buf('o', n=n)], ex=ex)
        exstats.append(ex.stats)
        if len(ps) != 1 or ps[0].status != 'ok' or ps[0].ret != 0:
            p = ps[0]
            dec.candidate('utransform:d=%d:d0=%d' % (d, d0), 'UTransform(V,scale) ends in %s / %r %s' % (p.status, p.ret, (p.info or {}).get('msg', '')), kind='utransform', d=d, d0=d0)
        else:
            p = ps[0]
            out['witnesses']['reachability'] += 1
            calls = [e for e in p.state.log if e[0] == 'expm']
            last = calls[-1]
            call = len(calls) - 1
            pa = [ctx.poly(x) for x in a]
            pv = [ctx.poly(x) for x in v]
            MA = apply_map(re, im, xat, pa, d)
            MV = apply_map(re, im, xat, pv, d)
            s_ = (ctx.poly(sre), ctx.poly(sim))
            polys = []
            if last[1] != d or last[2] != d:
                dec.candidate('utransform:d=%d:d0=%d' % (d, d0), 'the exponential is taken of a %dx%d matrix into a %dx%d result for a dimension-%d vector (stale scratch)' % (last[1], last[1], last[2], last[2], d), kind='utransform', d=d, d0=d0)
            else:
                for i in range(d):
                    for j in range(d):
                        want = cmul(s_, MV[i][j])
                        gr, gi = last[3][i][j]
                        polys.append(ctx.poly(gr) - want[0])
                        polys.append(ctx.poly(gi) - want[1])
                dec.decide('UTransform(V,scale): the exponentiated matrix is scale*S2M(V), d=%d%s' % (d, ' (after a call in dimension %d)' % d0 if d0 else ''), polys, 'utransform:d=%d:d0=%d:arg' % (d, d0), dict(kind='utransform', d=d, d0=d0))
                E = [[(ctx.poly(T.var('er%d_%d_%d' % (call, i, j))), ctx.poly(T.var('ei%d_%d_%d' % (call, i, j)))) for j in range(d)] for i in range(d)]
                ref = matmul(matmul(dagger(E, d), MA, d), E, d)
                refH = [[((ref[x][y][0] + ref[y][x][0]).scale(Fraction(1, 2)), (ref[x][y][1] - ref[y][x][1]).scale(Fraction(1, 2))) for y in range(d)] for x in range(d)]
                po = [ctx.poly(x) for x in p.out('o')]
                MO = apply_map(re, im, xat, po, d)
                polys = []
                for x_ in range(d):
                    for y_ in range(d):
                        polys.append(MO[x_][y_][0] - refH[x_][y_][0])
                        polys.append(MO[x_][y_][1] - refH[x_][y_][1])
                r3 = Residual(solver, ctx, box=1, tol=TOL * 100)
                dec.decide('UTransform(V,scale) = E^dagger S2M(A) E for the matrix E returned by the exponential (E arbitrary symbolic), d=%d%s' % (d, ' (after a call in dimension %d)' % d0 if d0 else ''), polys,
                           'utransform:d=%d:d0=%d' % (d, d0), dict(kind='utransform', d=d, d0=d0), res=r3)
    out.update(worker_result(solver, exstats, functions=FUNCS))
    return out


# ------------------------------------------------------------------------------------------ replay
def replay(chk, h, c):
    from scipy.linalg import expm
    chk.cov['replayed'] += 1
    rng = np.random.RandomState(chk.seed + 31)
    kind = c['kind']
    worst = 0.0
    if kind == 'pade':
        # a wrong table/assembly shows as an inaccurate exponential in the norm band of that order
        band = {3: 0.01, 5: 0.15, 7: 0.6, 9: 1.6, 13: 5.0}[c['m']]
        for n in (3, 4, 5, 6):
            for trial in range(4):
                X = rng.uniform(-1, 1, (n, n)) + 1j * rng.uniform(-1, 1, (n, n))
                X = X - X.conj().T           # anti-Hermitian: exp is unitary, well conditioned
                X *= band / np.abs(X).sum(axis=0).max()
                ret, o = h.native('h_expm', [I(n), Buf('are', X.real.flatten()), Buf('aim', X.imag.flatten()), Buf('ere', n=n * n), Buf('eim', n=n * n)])
                if ret != 0:
                    return True, float('inf')
                E = (np.array(o['ere']) + 1j * np.array(o['eim'])).reshape(n, n)
                worst = max(worst, np.abs(E - expm(X)).max())
        return worst > 1e-12, worst
    if kind == 'glue':
        n = 7
        for mag in (1e-3, 0.02, 0.1, 0.3, 0.7, 1.0, 1.6, 2.5, 4.0, 7.0, 12.0, 20.0, 35.0, 60.0):
            for trial in range(2):
                zz = (rng.uniform(0.5, 1, n - 1) * np.exp(2j * np.pi * rng.uniform(0, 1, n - 1))) * mag
                X = np.zeros((n, n), complex)
                for k in range(n - 1):
                    X[k, k + 1] = zz[k]
                ret, o = h.native('h_expm', [I(n), Buf('are', X.real.flatten()), Buf('aim', X.imag.flatten()), Buf('ere', [np.nan] * (n * n)), Buf('eim', [np.nan] * (n * n))])
                if ret != 0:
                    return True, float('inf')
                E = (np.array(o['ere']) + 1j * np.array(o['eim'])).reshape(n, n)
                W = np.zeros((n, n), complex)
                for i in range(n):
                    for j in range(i, n):
                        W[i, j] = np.prod(zz[i:j]) / math.factorial(j - i)
                if np.isnan(E).any():
                    return True, float('inf')
                worst = max(worst, (np.abs(E - W) / np.maximum(1.0, np.abs(W))).max())
        # for a nilpotent matrix the real estimators never ask for scaling (A^8 = 0): the scaled branches are confirmed on anti-Hermitian
        # matrices (unitary exponential, perfectly conditioned) whose norm makes the real code take s = 1..4
        for nrm in (0.5, 1.5, 3.0, 6.0, 12.0, 24.0, 48.0, 150.0, 400.0, 1000.0):
            for n_ in (2, 3, 4, 6):
                X = rng.uniform(-1, 1, (n_, n_)) + 1j * rng.uniform(-1, 1, (n_, n_))
                X = X - X.conj().T
                X *= nrm / np.abs(X).sum(axis=0).max()
                ret, o = h.native('h_expm', [I(n_), Buf('are', X.real.flatten()), Buf('aim', X.imag.flatten()), Buf('ere', [np.nan] * (n_ * n_)), Buf('eim', [np.nan] * (n_ * n_))])
                if ret != 0:
                    return True, float('inf')
                E = (np.array(o['ere']) + 1j * np.array(o['eim'])).reshape(n_, n_)
                if np.isnan(E).any():
                    return True, float('inf')
                worst = max(worst, np.abs(E - expm(X)).max())
        return worst > 1e-9, worst
    if kind in ('expm-throws', 'expm', 'expm-shortcut'):
        n = c['n']
        for trial in range(4):
            X = rng.uniform(-0.5, 0.5, (n, n)) + 1j * rng.uniform(-0.5, 0.5, (n, n))
            if kind == 'expm-shortcut':
                X = np.triu(X)
                if trial % 2:
                    X = X.T
            ret, o = h.native('h_expm', [I(n), Buf('are', X.real.flatten()), Buf('aim', X.imag.flatten()), Buf('ere', n=n * n), Buf('eim', n=n * n)])
            if ret != 0:
                return True, 1.0
            E = (np.array(o['ere']) + 1j * np.array(o['eim'])).reshape(n, n)
            worst = max(worst, np.abs(E - expm(X)).max())
        return worst > 1e-10, worst
    if kind == 'utransform':
        d, d0 = c['d'], c.get('d0', 0)
        n = d * d
        G = gellmann(d)
        B = [np.array([[float(G[k][i][j][0]) + 1j * float(G[k][i][j][1]) for j in range(d)] for i in range(d)]) for k in range(n)]
        for trial in range(4):
            av, vv = rng.uniform(-1, 1, n), rng.uniform(-1, 1, n)
            s = float(rng.uniform(-1, 1))
            ret, o = h.native('h_utransform', [I(d), I(d0), Buf('a', av), Buf('v', vv), D(0.0), D(s), Buf('o', [np.nan] * n)])
            if ret != 0:
                return True, 1.0
            A = sum(av[k] * B[k] for k in range(n))
            V = sum(vv[k] * B[k] for k in range(n))
            E = expm(1j * s * V)
            R = sum(o['o'][k] * B[k] for k in range(n))
            worst = max(worst, np.abs(R - E.conj().T @ A @ E).max())
        return worst > 1e-9, worst
    return False, 0.0


def main(tier):
    chk = Check(PID, tier)
    chk.candidates = []
    items = [('pade', m, tier) for m in (3, 5, 7, 9, 13)] + [('guard', n, tier) for n in (2, 3, 4, 5, 6)]
    for d in ((2, 3, 4) if tier == 'quick' else (2, 3, 4, 5, 6)):
        items.append(('utransform', d, 0, tier))
    # scripted estimates: a list of norm values (consumed in call order, the last one repeats) and of ell() values (call order, then 0).
    # ell(B,13) is always scripted as 0: with est <= ||B||_1^27, alpha <= ||B||_1^26 / (C(54,27) 55!) < 2^-53 whenever ||B||_1 < 300, and the property's domain ends at ~50
    scripts = [('all estimates tiny -> order 3', [1e-20], []), ('order 3 vetoed by ell -> order 5', [1e-20], [1, 0]), ('order 5 by the norms', [1e-6, 1e-4, 1e-4], []),
               ('order 7', [0.5], []), ('order 7 vetoed by ell -> order 9', [0.5], [1, 0]), ('order 9 by the norms', [1.0], []), ('order 13, s=0', [1e3], []), ('order 13, s=1', [1e7], []),
               ('order 13, s=2', [1e9], []), ('orders 7 and 9 vetoed by ell -> order 13, s=0', [0.05], [1, 1, 0]),
               ('order 13, s=6 (norm ~200)', [200.0 ** 8], []), ('order 13, s=8 (norm ~800)', [800.0 ** 8], [])]
    if tier == 'thorough':
        scripts += [('order 13, s=3', [1e12], []), ('order 13, s=4', [1e14], []), ('orders 3,5,7,9 all vetoed by ell -> order 13, s=0', [1e-20], [1, 1, 1, 1, 0]), ('order 13, s=5', [1e17], []), ('order 13, s=7', [400.0 ** 8], []), ('order 13, s=10 (norm ~3000)', [3000.0 ** 8], [])]
    for nm, norms, ells in scripts:
        items.append(('glue', nm, norms, ells, tier))
    items.append(('utransform', 3, 2, tier))
    items.append(('utransform', 2, 4, tier))
    chk.cov['bounds'] = {'Pade tables': 'orders 3,5,7,9,13 on a symbolic complex number (1x1 matrix), even powers formed by zgemm as in the library', 'estimator guard': 'n=2..6, t and itmax symbolic 32-bit, matrix symbolic',
                         'order selection/scaling/squaring': 'A = bidiagonal nilpotent 7x7 with 12 symbolic real parameters; the norm estimators and ell are stubs returning scripted values that drive every order 3,5,7,9,13 and scaling exponents s=0,1,2,6,8 (thorough: 0..8, 10), i.e. norms up to the ~1e3 the property allows for normal matrices', 'dispatch': 'n=2..6, all 2n^2 real entries symbolic (diamonds merged): shortcut iff diagonal; estimator reached iff not', 'UTransform': 'd in %s, A, V, scale symbolic, exponential summarised by an arbitrary matrix; two histories with a previous call in another dimension' % (
                             '2..4' if tier == 'quick' else '2..6')}
    chk.cov['domains'] = ['R (exact reals); exp/sin/cos atoms for the diagonal shortcut', 'bit-vectors for (t, itmax)']
    chk.cov['stubs'] = ['GSL containers, zgemm, complex LU with partial pivoting: shim', 'exact_1_norm / one_normest_matrix_power / one_normest_product / ell: scripted return values when deciding the selection/scaling/squaring glue (the identity checked holds for every estimate)', 'one_normest_core summarised (arguments logged) when deciding the dispatch', 'matrix_exponential summarised (argument logged, result = fresh symbols) when deciding UTransform']
    chk.assumptions = ['OUTSIDE THE TECHNIQUE: "equals exp(A) to a small multiple of machine precision times conditioning for every matrix, norm band and call history" -- needs floating-point backward error analysis through LU with pivoting (compiled GSL), the randomised 1-norm estimator and pow/log; not encodable. Likewise the theta_m thresholds and the estimator values are not decided; the scaling-and-squaring GLUE (which matrices are scaled by which power, number of squarings, parity copy) is decided exactly on nilpotent input for scripted estimates',
                       'the [m/m] Pade approximant of exp is the one with numerator coefficients (2m-k)!/(k!(m-k)!) (up to the common factor): trusted textbook fact', 'ell(B,13) = 0 on the property\'s domain (1-norm <= ~50): alpha <= ||B||_1^26/(C(54,27) 55!) < 2^-53 for ||B||_1 < 300; the branch s += ell(B,13) with a non-zero value is outside the property and is NOT exercised (see DESIGN.md: the code is wrong there, observed natively at norm 800)', 'the native replay compares with scipy.linalg.expm on well-conditioned (anti-Hermitian) matrices in the norm band of the order concerned']
    h = harness()
    rng = np.random.RandomState(chk.seed + 1)
    cases = []
    for m in (3, 7, 13):
        cases.append(('h_pade', [I(m), I(2), Buf('are', list(rng.uniform(-1, 1, 4))), Buf('aim', list(rng.uniform(-1, 1, 4))), Buf('ure', n=4), Buf('uim', n=4), Buf('vre', n=4), Buf('vim', n=4)], ['ure', 'uim', 'vre', 'vim']))
    cases.append(('h_expm', [I(3), Buf('are', [0.5, 0, 0, 0, -0.25, 0, 0, 0, 1.0]), Buf('aim', [0.1, 0, 0, 0, 0.2, 0, 0, 0, -0.3]), Buf('ere', n=9), Buf('eim', n=9)], ['ere', 'eim']))
    generic_interp_vs_native(chk, h, cases)
    # native call-history battery (NOT solver-decided): one process exponentiates a small matrix first (order 3/5 bookkeeping), then matrices
    # in every norm band and dimension; the estimators and ell are stubs in the symbolic obligations, so state they carry between calls is only visible here
    import subprocess
    from scipy.linalg import expm as sp_expm
    seq = []
    r2 = np.random.RandomState(chk.seed + 77)
    for nrm, n_ in [(1e-3, 6), (0.004, 3), (0.1, 2), (0.2, 4), (0.5, 5), (0.9, 6), (1.5, 3), (2.0, 6), (3.0, 2), (8.0, 4), (30.0, 5), (200.0, 6), (0.8, 2), (1e-3, 4)]:
        X = r2.uniform(-1, 1, (n_, n_)) + 1j * r2.uniform(-1, 1, (n_, n_))
        X = X - X.conj().T
        X *= nrm / np.abs(X).sum(axis=0).max()
        seq.append((n_, X))
    code_ = r'''
import ctypes, sys, json
lib=ctypes.CDLL(sys.argv[1]); seq=json.loads(sys.argv[2]); out=[]
for n,re,im in seq:
    a=(ctypes.c_double*(n*n))(*re); b=(ctypes.c_double*(n*n))(*im); er=(ctypes.c_double*(n*n))(); ei=(ctypes.c_double*(n*n))()
    rc=lib.h_expm(ctypes.c_uint(n),a,b,er,ei); out.append([rc,list(er),list(ei)])
print(json.dumps(out))
'''
    from irsym import build as _b
    so_ = _b.native_so(CPP, exclude=('MatrixExp',))
    pr_ = subprocess.run([sys.executable, '-c', code_, so_, json.dumps([[n_, list(X.real.flatten()), list(X.imag.flatten())] for n_, X in seq])], capture_output=True, text=True, timeout=120)
    chk.cov['interp_vs_native']['cases'] += len(seq)
    if pr_.returncode != 0 or not pr_.stdout.strip():
        chk.report('expm:native-history', 'matrix_exponential: a sequence of calls in one thread (small matrix first, then every norm band) crashed natively: %s [found by the native battery, not by the solver]' % pr_.stderr.strip().split('\n')[-1][:160], {'sequence': [(n_, float(np.abs(X).sum(axis=0).max())) for n_, X in seq]})
    else:
        worst_ = (0.0, None)
        for (n_, X), (rc_, er_, ei_) in zip(seq, json.loads(pr_.stdout.strip().split('\n')[-1])):
            E_ = (np.array(er_) + 1j * np.array(ei_)).reshape(n_, n_)
            dev_ = float(np.abs(E_ - sp_expm(X)).max()) if rc_ == 0 and np.isfinite(E_).all() else float('inf')
            if dev_ > worst_[0]:
                worst_ = (dev_, (n_, float(np.abs(X).sum(axis=0).max())))
        chk.cov['native_history'] = {'calls': len(seq), 'worst deviation from scipy.linalg.expm': worst_[0]}
        if worst_[0] > 1e-10:
            chk.report('expm:native-history', 'matrix_exponential: in a sequence of calls on one thread (a small matrix first, then every norm band) the %dx%d matrix of 1-norm %.3g deviates from exp(A) by %.3g although each call alone is accurate [found by the native battery, not by the solver]' % (
                worst_[1][0], worst_[1][0], worst_[1][1], worst_[0]), {'sequence': [(n_, float(np.abs(X).sum(axis=0).max())) for n_, X in seq]})
    with MPool(min(16, os.cpu_count() or 1)) as mp:
        results = mp.map(work, items, chunksize=1)
    for w in results:
        chk.merge_worker(w)
    seen = set()
    for c in chk.candidates:
        if c['key'] in seen:
            continue
        seen.add(c['key'])
        ok, dev = safe_replay(replay, chk, h, c)
        if ok:
            chk.report(c['key'], '%s; native deviation from scipy.linalg.expm / reference %.3g' % (c['what'], dev), c)
        else:
            chk.broken_q('counterexample for %s did not reproduce natively (deviation %.3g): %s' % (c['key'], dev, c['what'][:200]))
    return chk.finish()


def replay_main(path):
    c = json.load(open(path))['replay']
    chk = Check(PID, 'quick')
    ok, dev = safe_replay(replay, chk, harness(), c)
    print('replay %s: %s (deviation %.3g)' % (path, 'REPRODUCED' if ok else 'not reproduced', dev))
    return 1 if ok else 0


if __name__ == '__main__':
    sys.exit(main(sys.argv[1] if len(sys.argv) > 1 else 'quick'))
