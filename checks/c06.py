"""C06 -- basis rotations are unitary similarity maps, consistent across entry points (d=2..6)."""
import sys, time, os, json, math
from fractions import Fraction
from multiprocessing import Pool
import numpy as np
import z3
from common import *
from irsym.harness import Harness, I, D, Buf, IBuf
from irsym import solver as S

PID = 'C06'
CPP = 'c06.cpp'
LIBS = ('SUNalg.cpp', 'const.cpp')
TOL = Fraction(1, 10 ** 12)
ROT = '_ZNK6squids9SU_vector6RotateEjjdd'
FUNCS = ['SU_vector::Rotate(unsigned,unsigned,double,double) (35 RotationSUd_ij kernels via rotation_switcher.h)', 'SU_vector::RotateToB1', 'SU_vector::RotateToB0',
         'Const::GetTransformationMatrix', 'Const::Set/Get MixingAngle, Phase, EnergyDifference', 'SU_vector::Rotate(const gsl_matrix_complex*)',
         'SU_vector::UTransform(gsl_matrix_complex*)', 'SU_vector::UDaggerTransform', 'gsl_matrix_complex_change_basis_UCMU / _IUCMU', 'SU_vector::WeightedRotation (2 overloads)',
         'SU_vector(const gsl_matrix_complex*)', 'SU_vector::GetGSLMatrix', 'iCommutator / ACommutator kernels (Yd sandwich)']


def cplx_const(c):
    return (Poly.const(c), Poly())


def plane_R(d, i, j, s, c, sd, cd):
    """the complex plane rotation as a d x d matrix of (Poly, Poly)"""
    R = [[cplx_const(1 if a == b else 0) for b in range(d)] for a in range(d)]
    R[i][i] = (c, Poly())
    R[j][j] = (c, Poly())
    R[i][j] = (s * cd, -(s * sd))
    R[j][i] = (-(s * cd), -(s * sd))
    return R


def angle_tables(d):
    n = d * d
    th = [T.var('th_%d_%d' % (k // d, k % d)) if (k // d) < (k % d) else Fraction(0) for k in range(n)]
    de = [T.var('de_%d_%d' % (k // d, k % d)) if (k // d) < (k % d) else Fraction(0) for k in range(n)]
    return th, de


def work(item):
    kind = item[0]
    tier = item[-1]
    solver = S.Solver(timeout_ms=120000)
    h = Harness(CPP, LIBS, solver=solver)
    out = new_out(item=list(item))
    exstats = []
    ctx = PolyCtx()
    dec = Decider(solver, ctx, out, tol=TOL)

    def fin():
        out.update(worker_result(solver, exstats, functions=FUNCS))
        return out

    if kind == 'params':
        iT, jT = T.bvvar('i', 32), T.bvvar('j', 32)
        v = T.var('v')
        for knd, nm in ((0, 'MixingAngle'), (1, 'Phase'), (2, 'EnergyDifference')):
            ps = h.run('h_param', [I(knd), I(iT), I(jT), D(v), Buf('o', n=1)])
            exstats.append(h.last_ex.stats)
            okp = True
            for p in ps:
                conv = S.Conv('real')
                zi, zj = conv.conv(iT), conv.conv(jT)
                if knd == 0:
                    adm = z3.And(z3.ULT(zi, zj), z3.ULT(zi, 5), z3.ULT(zj, 6))
                elif knd == 1:
                    adm = z3.And(z3.ULT(zi, zj), z3.ULT(zj, 6))
                else:
                    adm = z3.And(z3.UGT(zi, 0), z3.ULT(zi, 6))
                if p.status != 'ok' or p.ret not in (0, 1, 2):
                    dec.candidate('param:%s:error' % nm, 'Set/Get%s ends in %s %r' % (nm, p.status, p.info), kind='param', knd=knd)
                    okp = False
                    continue
                if p.ret == 0:
                    r, m, _ = solver.check(p.pc, conv=conv, extra=[z3.Not(adm)], label='Set%s/Get%s accept only admissible state indices (symbolic indices)' % (nm, nm), want_model=True)
                    if r != 'unsat':
                        dec.candidate('param:%s:accepts' % nm, 'Set%s accepts an out-of-range index pair' % nm, kind='param', knd=knd,
                                      i=m.eval(zi, model_completion=True).as_long() if m else 0, j=m.eval(zj, model_completion=True).as_long() if m else 0)
                        okp = False
                    if p.out('o')[0] is not v:
                        dec.candidate('param:%s:value' % nm, 'Get%s does not read back exactly the stored value' % nm, kind='param', knd=knd, i=0, j=1)
                        okp = False
                    out['witnesses']['reachability'] += 1
                else:
                    r, m, _ = solver.check(p.pc, conv=conv, extra=[adm], label='Set%s/Get%s reject only inadmissible indices' % (nm, nm), want_model=True)
                    if r != 'unsat':
                        dec.candidate('param:%s:rejects' % nm, 'Set%s/Get%s rejects an admissible index pair' % (nm, nm), kind='param', knd=knd,
                                      i=m.eval(zi, model_completion=True).as_long() if m else 0, j=m.eval(zj, model_completion=True).as_long() if m else 0)
                        okp = False
            if okp:
                dec.holds('Set/Get%s: exact read-back, accepted iff indices admissible (%d paths, indices symbolic)' % (nm, len(ps)))
        return fin()

    d = item[1]
    n = d * d
    re, im, xat, st = s2m_map(h, d, ctx)
    exstats.append(st)
    a = sym_vec('a', n)
    pa = [ctx.poly(x) for x in a]
    MA = apply_map(re, im, xat, pa, d)
    trig = TrigLin(ctx)

    if kind == 'plane':
        i, j = item[2], item[3]
        th, de = T.var('th'), T.var('del')
        s_, c_ = trig.base(th)
        sd, cd = trig.base(de)
        ps = h.run('h_rotate', [I(d), I(i), I(j), Buf('a', a), D(th), D(de), Buf('o', n=n)])
        exstats.append(h.last_ex.stats)
        if len(ps) != 1 or ps[0].status != 'ok' or ps[0].ret != 0:
            out['broken'].append('h_rotate d=%d (%d,%d): %r' % (d, i, j, [(p.status, p.ret, p.info) for p in ps]))
            return fin()
        o = ps[0].out('o')
        if any(v is None for v in o):
            dec.candidate('rotate:d=%d:%d,%d' % (d, i, j), 'Rotate(%d,%d) leaves a component unwritten' % (i, j), kind='plane', d=d, i=i, j=j)
            return fin()
        out['witnesses']['reachability'] += 1
        trig.canon(o)
        if trig.unmatched:
            dec.candidate('rotate:d=%d:%d,%d' % (d, i, j), 'Rotate(%d,%d) uses a trigonometric argument that is not an integer combination of theta, delta: %s' % (i, j, T.show(trig.unmatched[0], 3)),
                          kind='plane', d=d, i=i, j=j)
            return fin()
        po = [trig.reduce(ctx.poly(v)) for v in o]
        MO = apply_map(re, im, xat, po, d)
        R = plane_R(d, i, j, s_, c_, sd, cd)
        ref = matmul(matmul(dagger(R, d), MA, d), R, d)
        polys = []
        for x in range(d):
            for y in range(d):
                polys.append(trig.reduce(MO[x][y][0] - ref[x][y][0]))
                polys.append(trig.reduce(MO[x][y][1] - ref[x][y][1]))
        trig.bounds(dec.res)
        sens = trig.reduce(MO[i][j][0] + ref[i][j][0])
        dec.decide('Rotate(%d,%d,theta,delta) = R^dagger A R, d=%d (theta, delta, A symbolic; %d lemma instances)' % (i, j, d, trig.instances), polys,
                   'rotate:d=%d:%d,%d' % (d, i, j), dict(kind='plane', d=d, i=i, j=j), sens_poly=sens)
        # R is unitary under the circle constraints
        RR = matmul(dagger(R, d), R, d)
        unit = []
        for x in range(d):
            for y in range(d):
                unit.append(trig.reduce(RR[x][y][0] - Poly.const(1 if x == y else 0)))
                unit.append(trig.reduce(RR[x][y][1]))
        dec.decide('R(%d,%d)^dagger R = I under sin^2+cos^2=1, d=%d' % (i, j, d), unit, 'rotate-unitary:d=%d:%d,%d' % (d, i, j), dict(kind='plane', d=d, i=i, j=j))
        return fin()

    if kind == 'basis':
        th, de = angle_tables(d)
        SC = {}
        for x in range(d):
            for y in range(x + 1, d):
                SC[(x, y)] = trig.base(th[x * d + y]) + trig.base(de[x * d + y])

        def seq_of(which):
            ex = h.executor()
            ex.call_log_names = {ROT}
            ps = h.run('h_rotate_basis', [I(which), I(d), Buf('a', a), Buf('th', th), Buf('del', de), Buf('o', n=n)], ex=ex)
            exstats.append(ex.stats)
            if len(ps) != 1 or ps[0].status != 'ok' or ps[0].ret != 0:
                out['broken'].append('h_rotate_basis %d d=%d: %r' % (which, d, [(p.status, p.ret, p.info) for p in ps]))
                return None, None
            return [(c[1][2], c[1][3], c[1][4], c[1][5]) for c in ps[0].state.log], ps[0]
        seq1, p1 = seq_of(0)
        seq0, p0 = seq_of(1)
        ps = h.run('h_mixing_matrix', [I(d), Buf('th', th), Buf('del', de), Buf('re', n=n), Buf('im', n=n)])
        exstats.append(h.last_ex.stats)
        if seq1 is None or seq0 is None or len(ps) != 1 or ps[0].status != 'ok' or ps[0].ret != 0:
            out['broken'].append('basis d=%d: executions failed' % d)
            return fin()
        out['witnesses']['reachability'] += 3
        Ure, Uim = ps[0].out('re'), ps[0].out('im')
        trig.canon(Ure + Uim)
        U = [[(ctx.poly(Ure[x * d + y]), ctx.poly(Uim[x * d + y])) for y in range(d)] for x in range(d)]

        def rot_of(call):
            i, j, tht, det = call
            if isinstance(i, Term) or isinstance(j, Term):
                return None
            sgn = 1
            if isinstance(tht, Term) and tht.op == 'fneg':
                tht = tht.args[0]
                sgn = -1
            if tht is not th[i * d + j] or det is not de[i * d + j]:
                return None
            s_, c_, sd, cd = SC[(i, j)]
            return plane_R(d, i, j, s_.scale(sgn), c_, sd, cd)
        # B1: A <- R_k^dagger A R_k in call order, so the overall map is V^dagger A V with V = R_1 R_2 ... R_m
        V = [[cplx_const(1 if x == y else 0) for y in range(d)] for x in range(d)]
        okseq = len(seq1) == d * (d - 1) // 2
        for call in seq1:
            R = rot_of(call)
            if R is None:
                okseq = False
                break
            V = matmul(V, R, d)
        if not okseq:
            dec.candidate('B1-sequence:d=%d' % d, 'RotateToB1 does not apply one plane rotation per pair with the stored angle and phase', kind='basis', d=d)
        else:
            polys = []
            for x in range(d):
                for y in range(d):
                    polys.append(V[x][y][0] - U[x][y][0])
                    polys.append(V[x][y][1] - U[x][y][1])
            trig.bounds(dec.res)
            dec.decide('RotateToB1 = U^dagger A U: ordered product of its %d logged plane rotations equals GetTransformationMatrix entry-wise, d=%d' % (len(seq1), d), polys,
                       'B1-product:d=%d' % d, dict(kind='basis', d=d), sens_poly=V[0][0][0] + U[0][0][0])
        # B0 must be the exact inverse: reversed order, negated angles, same phases
        want = [(i, j, T.fneg(tht), det) for (i, j, tht, det) in reversed(seq1)]
        same = len(seq0) == len(want) and all(x[0] == y[0] and x[1] == y[1] and x[2] is y[2] and x[3] is y[3] for x, y in zip(seq0, want))
        if same:
            dec.holds('RotateToB0 applies the RotateToB1 rotations in reverse order with negated angles (R(theta)^-1 = R(-theta)): exact inverse, d=%d' % d)
        else:
            dec.candidate('B0-sequence:d=%d' % d, 'RotateToB0 is not the reversed, angle-negated sequence of RotateToB1', kind='basis', d=d)
        # unitarity of U end to end for small d
        if d <= (3 if tier == 'quick' else 4):
            UU = matmul(dagger(U, d), U, d)
            unit = []
            for x in range(d):
                for y in range(d):
                    unit.append(trig.reduce(UU[x][y][0] - Poly.const(1 if x == y else 0)))
                    unit.append(trig.reduce(UU[x][y][1]))
            dec.decide('GetTransformationMatrix: U^dagger U = I end to end, d=%d' % d, unit, 'U-unitary:d=%d' % d, dict(kind='basis', d=d))
        # end-to-end anchor without the compositional step (d <= 3): RotateToB1 output vs U^dagger A U
        if d <= (2 if tier == 'quick' else 3):
            o = p1.out('o')
            trig.canon(o)
            po = [trig.reduce(ctx.poly(v)) for v in o]
            MO = apply_map(re, im, xat, po, d)
            ref = matmul(matmul(dagger(U, d), MA, d), U, d)
            polys = []
            for x in range(d):
                for y in range(d):
                    polys.append(trig.reduce(MO[x][y][0] - ref[x][y][0]))
                    polys.append(trig.reduce(MO[x][y][1] - ref[x][y][1]))
            dec.decide('RotateToB1 end to end = U^dagger A U (no compositional step), d=%d' % d, polys, 'B1-end-to-end:d=%d' % d, dict(kind='basis', d=d))
        return fin()

    if kind == 'matrix':
        ur = sym_vec('ur', n)
        ui = sym_vec('ui', n)
        U = [[(ctx.poly(ur[x * d + y]), ctx.poly(ui[x * d + y])) for y in range(d)] for x in range(d)]
        # M2S map
        rs, ms = sym_vec('r', n), sym_vec('m', n)
        u1r, u1i = sym_vec('pr', n), sym_vec('pi', n)
        for which, nm, hist in ((0, 'Rotate(U)', 0), (1, 'UTransform(U)', 0), (2, 'UDaggerTransform(U)', 0),
                                (0, 'Rotate(U) after a call with the same matrix object holding other values', 1),
                                (1, 'UTransform(U) after a call with the same matrix object holding other values', 1),
                                (2, 'UDaggerTransform(U) after a call with the same matrix object holding other values', 1),
                                (2, 'UDaggerTransform(U) after calls in another dimension and with other values', 2),
                                (0, 'Rotate(U) with U a strided view into a larger matrix', 3), (1, 'UTransform(U) with U a strided view into a larger matrix', 3),
                                (2, 'UDaggerTransform(U) with U a strided view into a larger matrix', 3)):
            if hist == 0:
                ps = h.run('h_matrix_rotation', [I(which), I(d), Buf('a', a), Buf('ure', ur), Buf('uim', ui), Buf('o', n=n)])
            elif hist == 3:
                ps = h.run('h_matrix_rotation_view', [I(which), I(d), Buf('a', a), Buf('ure', ur), Buf('uim', ui), D(T.var('junk')), Buf('o', n=n)])
            else:
                d0 = 0 if hist == 1 else (d + 1 if d < 6 else d - 1)
                ps = h.run('h_matrix_rotation_twice', [I(which), I(d), I(d0), Buf('a', a), Buf('u1r', u1r), Buf('u1i', u1i), Buf('ure', ur), Buf('uim', ui), Buf('o', n=n)])
            exstats.append(h.last_ex.stats)
            if len(ps) == 1 and ps[0].status == 'error':
                dec.candidate('matrix:%s:d=%d' % (nm.split(' ')[0] + (':history%d' % hist if hist else ''), d), '%s ends in an error: %s' % (nm, ps[0].info.get('msg')), kind='matrix', d=d, which=which, hist=hist)
                continue
            if len(ps) != 1 or ps[0].status != 'ok' or ps[0].ret != 0:
                out['broken'].append('h_matrix_rotation %s d=%d: %r' % (nm, d, [(p.status, p.ret, p.info) for p in ps]))
                continue
            o = ps[0].out('o')
            if any(v is None for v in o):
                dec.candidate('matrix:%s:d=%d' % (nm, d), '%s leaves a component unwritten' % nm, kind='matrix', d=d, which=which)
                continue
            out['witnesses']['reachability'] += 1
            po = [ctx.poly(v) for v in o]
            MO = apply_map(re, im, xat, po, d)
            if which in (0, 1):
                ref = matmul(matmul(dagger(U, d), MA, d), U, d)
            else:
                ref = matmul(matmul(U, MA, d), dagger(U, d), d)
            # the constructor from a matrix keeps the Hermitian part (M2S symmetrises): compare with (X + X^dagger)/2, which is X for unitary U
            refH = [[((ref[x][y][0] + ref[y][x][0]).scale(Fraction(1, 2)), (ref[x][y][1] - ref[y][x][1]).scale(Fraction(1, 2))) for y in range(d)] for x in range(d)]
            polys = []
            for x in range(d):
                for y in range(d):
                    polys.append(MO[x][y][0] - refH[x][y][0])
                    polys.append(MO[x][y][1] - refH[x][y][1])
            r3 = Residual(solver, ctx, box=1, tol=TOL * 10)
            dec.decide('%s represents %s for every complex U (U, A symbolic), d=%d' % (nm, 'U^dagger M U' if which < 2 else 'U M U^dagger', d), polys,
                       'matrix:%s:d=%d' % (nm.split(' ')[0] + (':history%d' % hist if hist else ''), d), dict(kind='matrix', d=d, which=which, hist=hist), sens_poly=MO[0][0][0] + refH[0][0][0], res=r3)
        return fin()

    if kind == 'weighted':
        # Yd sandwich with all angles zero: result must be Y A Y
        zeros = [Fraction(0)] * n
        yv = [Fraction(0)] * n
        for k in [0] + [d * l + l for l in range(1, d)]:
            yv[k] = T.var('y%d' % k)
        py = [ctx.poly(x) for x in yv]
        MY = apply_map(re, im, xat, py, d)
        for which in (0, 1):
            ps = h.run('h_weighted', [I(which), I(d), Buf('a', a), Buf('yd', yv), Buf('thV', zeros), Buf('delV', zeros), Buf('thW', zeros), Buf('delW', zeros), Buf('o', n=n)])
            exstats.append(h.last_ex.stats)
            if len(ps) != 1 or ps[0].status != 'ok' or ps[0].ret != 0:
                out['broken'].append('h_weighted %d d=%d: %r' % (which, d, [(p.status, p.ret, p.info) for p in ps]))
                continue
            o = ps[0].out('o')
            po = [ctx.poly(v) for v in o]
            MO = apply_map(re, im, xat, po, d)
            ref = matmul(matmul(MY, MA, d), MY, d)
            polys = []
            for x in range(d):
                for y in range(d):
                    polys.append(MO[x][y][0] - ref[x][y][0])
                    polys.append(MO[x][y][1] - ref[x][y][1])
            r3 = Residual(solver, ctx, box=1, tol=TOL * 10)
            dec.decide('WeightedRotation overload %d with identity rotations = Yd A Yd (nested commutator sandwich), d=%d' % (which, d), polys,
                       'weighted-sandwich:%d:d=%d' % (which, d), dict(kind='weighted', d=d, which=which), res=r3)
        # the weight operator may be the rotated vector itself: same result as with a separate copy (symbolic angles, small d)
        if d <= (2 if tier == 'quick' else 3):
            thA, deA = angle_tables(d)
            thB = [T.var('w' + x.aux) if isinstance(x, Term) else x for x in thA]
            deB = [T.var('w' + x.aux) if isinstance(x, Term) else x for x in deA]
            for w_sep, w_al in ((0, 2), (1, 3)):
                outs = []
                for which in (w_sep, w_al):
                    ps = h.run('h_weighted', [I(which), I(d), Buf('a', a), Buf('yd', a), Buf('thV', thA), Buf('delV', deA), Buf('thW', thB), Buf('delW', deB), Buf('o', n=n)])
                    exstats.append(h.last_ex.stats)
                    if len(ps) != 1 or ps[0].status != 'ok' or ps[0].ret != 0:
                        out['broken'].append('h_weighted alias %d d=%d: %r' % (which, d, [(p.status, p.ret, p.info) for p in ps]))
                        outs = None
                        break
                    oo = ps[0].out('o')
                    outs.append([ctx.poly(v) for v in oo])
                if outs:
                    r3 = Residual(solver, ctx, box=1, tol=TOL * 10)
                    dec.decide('x.WeightedRotation(V, x, W) (weight operator = the rotated vector itself, overload %d) = the same call with a separate copy as weight; all angles, phases and x symbolic, d=%d' % (w_sep, d),
                               [p1 - p0 for p0, p1 in zip(*outs)], 'weighted-alias:%d:d=%d' % (w_sep, d), dict(kind='weighted-alias', d=d, which=w_al), res=r3)
        # the two overloads compose the same three maps: compare their logged primitive sequences
        thV, deV = angle_tables(d)
        thW = [T.var('w' + x.aux) if isinstance(x, Term) else x for x in thV]
        deW = [T.var('w' + x.aux) if isinstance(x, Term) else x for x in deV]
        names = {'_ZN6squids9SU_vector10RotateToB0ERKNS_5ConstE': 'B0', '_ZN6squids9SU_vector10RotateToB1ERKNS_5ConstE': 'B1',
                 '_ZNK6squids9SU_vector16UDaggerTransformEP18gsl_matrix_complex': 'B0', '_ZNK6squids9SU_vector10UTransformEP18gsl_matrix_complex': 'B1'}
        seqs = []
        for which in (0, 1):
            ex = h.executor()
            ex.call_log_names = set(names)
            ps = h.run('h_weighted', [I(which), I(d), Buf('a', a), Buf('yd', yv), Buf('thV', thV), Buf('delV', deV), Buf('thW', thW), Buf('delW', deW), Buf('o', n=n)], ex=ex)
            exstats.append(ex.stats)
            if len(ps) != 1 or ps[0].status != 'ok' or ps[0].ret != 0:
                out['broken'].append('h_weighted(symbolic) %d d=%d: %r' % (which, d, [(p.status, p.ret, p.info) for p in ps]))
                seqs.append(None)
                continue
            seqs.append([names[c[0]] for c in ps[0].state.log])
        if None not in seqs:
            if seqs[0] == ['B0', 'B1'] and seqs[1] == ['B0', 'B1']:
                dec.holds('both WeightedRotation overloads are [to-B0 map with V] ; Yd sandwich ; [to-B1 map with W] (logged primitive sequence), d=%d' % d,
                          detail='Const overload: RotateToB0, RotateToB1; matrix overload: UDaggerTransform, UTransform -- equal maps by the RotateToB0/B1 and matrix-entry obligations')
            else:
                dec.candidate('weighted-sequence:d=%d' % d, 'the WeightedRotation overloads do not compose the same primitive maps: %r' % (seqs,), kind='weighted', d=d, which=0)
        return fin()
    return fin()


# ------------------------------------------------------------------------------------------ replay
def native_matrix(h, d, v):
    n = d * d
    ret, o = h.native('h_s2m', [I(d), Buf('a', v), Buf('re', n=n), Buf('im', n=n)])
    return (np.array(o['re']) + 1j * np.array(o['im'])).reshape(d, d)


def np_R(d, i, j, th, de):
    R = np.eye(d, dtype=complex)
    R[i, i] = R[j, j] = math.cos(th)
    R[i, j] = math.sin(th) * np.exp(-1j * de)
    R[j, i] = -math.sin(th) * np.exp(1j * de)
    return R


def np_U(d, th, de):
    U = np.eye(d, dtype=complex)
    for j in range(1, d):
        for i in range(j):
            U = np_R(d, i, j, th[i * d + j], de[i * d + j]) @ U
    return U


def replay(chk, h, c):
    kind = c['kind']
    chk.cov['replayed'] += 1
    rng = np.random.RandomState(chk.seed + 17)
    worst = 0.0
    if kind == 'param':
        knd = c['knd']
        for (i, j) in [(c.get('i', 0), c.get('j', 1))] + [(i, j) for i in range(8) for j in range(8)]:
            ret, o = h.native('h_param', [I(knd), I(i), I(j), D(0.625), Buf('o', n=1)])
            adm = (i < j and i < 5 and j < 6) if knd == 0 else ((i < j and j < 6) if knd == 1 else (0 < i < 6))
            if adm != (ret == 0) or (ret == 0 and o['o'][0] != 0.625):
                return True, 1.0
        return False, 0.0
    d = c['d']
    n = d * d
    for trial in range(6):
        av = rng.uniform(-1, 1, n)
        A = native_matrix(h, d, av)
        if kind == 'plane':
            i, j = c['i'], c['j']
            th, de = float(rng.uniform(-4, 4)), float(rng.uniform(-4, 4))
            ret, o = h.native('h_rotate', [I(d), I(i), I(j), Buf('a', av), D(th), D(de), Buf('o', [np.nan] * n)])
            R = np_R(d, i, j, th, de)
            if ret != 0 or np.isnan(o['o']).any():
                return True, float('inf')
            worst = max(worst, np.abs(native_matrix(h, d, o['o']) - R.conj().T @ A @ R).max())
        elif kind == 'basis':
            th, de = rng.uniform(-3, 3, n), rng.uniform(-3, 3, n)
            if trial % 2 == 1:
                th = th * 1e8          # angles far outside (-pi,pi): an argument reduction done by hand is visible only here
            U = np_U(d, th, de)
            ret, o1 = h.native('h_rotate_basis', [I(0), I(d), Buf('a', av), Buf('th', th), Buf('del', de), Buf('o', n=n)])
            ret, o0 = h.native('h_rotate_basis', [I(1), I(d), Buf('a', av), Buf('th', th), Buf('del', de), Buf('o', n=n)])
            ret, um = h.native('h_mixing_matrix', [I(d), Buf('th', th), Buf('del', de), Buf('re', n=n), Buf('im', n=n)])
            Ul = (np.array(um['re']) + 1j * np.array(um['im'])).reshape(d, d)
            worst = max(worst, np.abs(Ul - U).max(), np.abs(native_matrix(h, d, o1['o']) - U.conj().T @ A @ U).max(), np.abs(native_matrix(h, d, o0['o']) - U @ A @ U.conj().T).max())
        elif kind == 'matrix':
            which = c['which']
            X = rng.uniform(-1, 1, (d, d)) + 1j * rng.uniform(-1, 1, (d, d))
            Q, _ = np.linalg.qr(X)
            if c.get('hist') == 3:
                ret, o = h.native('h_matrix_rotation_view', [I(which), I(d), Buf('a', av), Buf('ure', Q.real.flatten()), Buf('uim', Q.imag.flatten()), D(7.25), Buf('o', [np.nan] * n)])
            elif c.get('hist'):
                P_ = rng.uniform(-1, 1, (d, d)) + 1j * rng.uniform(-1, 1, (d, d))
                d0 = 0 if c['hist'] == 1 else (d + 1 if d < 6 else d - 1)
                ret, o = h.native('h_matrix_rotation_twice', [I(which), I(d), I(d0), Buf('a', av), Buf('u1r', P_.real.flatten()), Buf('u1i', P_.imag.flatten()),
                                                              Buf('ure', Q.real.flatten()), Buf('uim', Q.imag.flatten()), Buf('o', [np.nan] * n)])
            else:
                ret, o = h.native('h_matrix_rotation', [I(which), I(d), Buf('a', av), Buf('ure', Q.real.flatten()), Buf('uim', Q.imag.flatten()), Buf('o', [np.nan] * n)])
            if ret != 0 or np.isnan(o['o']).any():
                return True, float('inf')
            ref = Q.conj().T @ A @ Q if which < 2 else Q @ A @ Q.conj().T
            worst = max(worst, np.abs(native_matrix(h, d, o['o']) - ref).max())
        elif kind == 'weighted-alias':
            thV, deV, thW, deW = (rng.uniform(-2, 2, n) for _ in range(4))
            w_al = c['which']
            ret, o0 = h.native('h_weighted', [I(w_al - 2), I(d), Buf('a', av), Buf('yd', av), Buf('thV', thV), Buf('delV', deV), Buf('thW', thW), Buf('delW', deW), Buf('o', n=n)])
            ret, o1 = h.native('h_weighted', [I(w_al), I(d), Buf('a', av), Buf('yd', av), Buf('thV', thV), Buf('delV', deV), Buf('thW', thW), Buf('delW', deW), Buf('o', n=n)])
            worst = max(worst, np.abs(np.array(o0['o']) - np.array(o1['o'])).max())
        elif kind == 'weighted':
            yv = np.zeros(n)
            for k in [0] + [d * l + l for l in range(1, d)]:
                yv[k] = rng.uniform(-1, 1)
            Y = native_matrix(h, d, yv)
            thV, deV, thW, deW = (rng.uniform(-2, 2, n) for _ in range(4))
            UV, UW = np_U(d, thV, deV), np_U(d, thW, deW)
            ref = UW.conj().T @ (Y @ (UV @ A @ UV.conj().T) @ Y) @ UW
            for which in (0, 1):
                ret, o = h.native('h_weighted', [I(which), I(d), Buf('a', av), Buf('yd', yv), Buf('thV', thV), Buf('delV', deV), Buf('thW', thW), Buf('delW', deW), Buf('o', n=n)])
                worst = max(worst, np.abs(native_matrix(h, d, o['o']) - ref).max())
    return worst > 1e-9, worst


def main(tier):
    chk = Check(PID, tier)
    chk.candidates = []
    dims = [2, 3, 4, 5, 6]
    items = [('params', tier)]
    for d in dims:
        for i in range(d):
            for j in range(i + 1, d):
                items.append(('plane', d, i, j, tier))
        items.append(('basis', d, tier))
        if d <= (4 if tier == 'quick' else 6):
            items.append(('matrix', d, tier))
        items.append(('weighted', d, tier))
    chk.cov['bounds'] = {'dimensions': dims, 'plane kernels': 'all 35, theta, delta and A symbolic',
                         'products': 'compositional for d=2..6 (logged call sequence against the mixing matrix, all angles/phases symbolic); end to end d<=%d' % (2 if tier == 'quick' else 3),
                         'matrix entry points': 'U fully symbolic complex (no unitarity assumed), d<=%d' % (4 if tier == 'quick' else 6),
                         'weighted rotation': 'sandwich with diagonal Yd and identity rotations; overloads compared through their logged primitive maps',
                         'parameter store': 'both state indices unconstrained 32-bit symbolic', 'tolerance': '1e-12 on the unit box (|sin|,|cos|<=1)'}
    chk.cov['domains'] = ['R (exact reals); sin/cos/cexp as canonical atoms']
    chk.cov['lemmas'] = ['sin/cos of integer combinations of the angle variables expanded by the addition formulas', 'sin^2+cos^2=1 (normal form modulo cos^2 -> 1-sin^2)', '|sin|,|cos| <= 1',
                         'cexp(0+ib) = cos b + i sin b']
    chk.cov['stubs'] = ['GSL containers/zgemm: harness/gsl_shim.c', 'std::to_string / string concatenation in error paths: see intrinsics', 'thread-local scratch matrices: per-thread objects, one logical thread']
    chk.assumptions = ['finite inputs', 'the compositional step uses: each plane kernel is conjugation by R (decided here for all 35), conjugations compose',
                       'Rotate(U)/UTransform(U)/UDaggerTransform(U) are compared with the Hermitian part of U^dagger M U (resp. U M U^dagger), which is the matrix itself for unitary U',
                       'clang-14 -O1 IR is the semantics of the source (interpreter-vs-native diff every run)']
    h = Harness(CPP, LIBS)
    rng = np.random.RandomState(chk.seed + 1)
    cases = []
    for d in ([2, 3, 4, 5, 6] if tier == 'thorough' else [2, 3, 5]):
        n = d * d
        av = list(rng.uniform(-1, 1, n))
        th, de = list(rng.uniform(-3, 3, n)), list(rng.uniform(-3, 3, n))
        cases.append(('h_rotate', [I(d), I(0), I(d - 1), Buf('a', av), D(0.7), D(-1.9), Buf('o', n=n)], ['o']))
        cases.append(('h_rotate_basis', [I(0), I(d), Buf('a', av), Buf('th', th), Buf('del', de), Buf('o', n=n)], ['o']))
        cases.append(('h_mixing_matrix', [I(d), Buf('th', th), Buf('del', de), Buf('re', n=n), Buf('im', n=n)], ['re', 'im']))
        cases.append(('h_matrix_rotation', [I(2), I(d), Buf('a', av), Buf('ure', th), Buf('uim', de), Buf('o', n=n)], ['o']))
    generic_interp_vs_native(chk, h, cases)
    # native special-magnitude battery (NOT solver-decided): angles so small that cos rounds to 1 while sin does not, and angles next to pi/2:
    # the mixing matrix and the plane-rotation sequence must still describe the same transformation (exact reals cannot see a shortcut on cos==1)
    worst_sm = (0.0, None)
    for d in (2, 3, 4, 6):
        n = d * d
        for mag in (3e-9, 1e-8, 7e-10, math.pi / 2 - 1e-9, 3.1e7, 8.7e8):
            th = [mag * (1 + 0.37 * ((k * 7) % 5)) if (k // d) < (k % d) else 0.0 for k in range(n)]
            de = [0.3 + 0.11 * k if (k // d) < (k % d) else 0.0 for k in range(n)]
            av = [0.4 + 0.05 * k for k in range(n)]
            ret1, o1 = h.native('h_rotate_basis', [I(0), I(d), Buf('a', av), Buf('th', th), Buf('del', de), Buf('o', n=n)])
            ret2, om = h.native('h_mixing_matrix', [I(d), Buf('th', th), Buf('del', de), Buf('re', n=n), Buf('im', n=n)])
            ret3, o3 = h.native('h_matrix_rotation', [I(0), I(d), Buf('a', av), Buf('ure', om['re']), Buf('uim', om['im']), Buf('o', n=n)])
            chk.cov['interp_vs_native']['cases'] += 1
            dev = float(np.abs(np.array(o1['o']) - np.array(o3['o'])).max()) if ret1 == 0 and ret2 == 0 and ret3 == 0 else float('inf')
            if dev > worst_sm[0]:
                worst_sm = (dev, (d, mag))
    chk.cov['native_special_magnitudes'] = {'worst |RotateToB1 - Rotate(GetTransformationMatrix)|': worst_sm[0]}
    if worst_sm[0] > 1e-13:
        chk.report('basis:special-magnitude', 'for mixing angles of magnitude %.3g in dimension %d, RotateToB1 and Rotate(GetTransformationMatrix) differ by %.3g (both are exact to rounding for ordinary angles) [found by the native battery, not by the solver]' % (
            worst_sm[1][1], worst_sm[1][0], worst_sm[0]), {'d': worst_sm[1][0], 'angle magnitude': worst_sm[1][1], 'kind': 'special'})
    with Pool(min(16, os.cpu_count() or 1)) as pool:
        results = pool.map(work, items, chunksize=1)
    for w in results:
        chk.merge_worker(w)
    seen = set()
    for c in chk.candidates:
        if c['key'] in seen:
            continue
        seen.add(c['key'])
        ok, dev = safe_replay(replay, chk, h, c)
        if ok:
            chk.report(c['key'], '%s; native deviation %.3g' % (c['what'], dev), c)
        else:
            chk.broken_q('counterexample for %s did not reproduce natively (deviation %.3g): encoding discrepancy' % (c['key'], dev))
    return chk.finish()


def replay_main(path):
    c = json.load(open(path))['replay']
    chk = Check(PID, 'quick')
    ok, dev = safe_replay(replay, chk, Harness(CPP, LIBS), c)
    print('replay %s: %s (deviation %.3g)' % (path, 'REPRODUCED' if ok else 'not reproduced', dev))
    return 1 if ok else 0


if __name__ == '__main__':
    sys.exit(main(sys.argv[1] if len(sys.argv) > 1 else 'quick'))
