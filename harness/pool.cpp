// Operation catalogue on a pool of SU_vector slots (placement-constructed in caller-provided memory).
// One call = one public-API operation; histories are chained by the driver (symbolically: state after state;
// natively: the main() below, built with -DPOOL_MAIN, replays a program file under ASan/UBSan).
#include <SQuIDS/SUNalg.h>
#include <new>
#include <vector>
#include <iostream>
#include <functional>
#ifdef POOL_MAIN
#include <cstdio>
#include <cstdlib>
#include <cstdint>
#endif
using namespace squids;

enum { OP_DEFAULT=1, OP_SIZED, OP_EXTERNAL, OP_FROMLIST, OP_ALIGNED, OP_COPYCON, OP_MOVECON, OP_DESTROY, OP_COPYASSIGN, OP_MOVEASSIGN,
       OP_SETBACKING, OP_EXPR, OP_PLAININC, OP_PLAINDEC, OP_SCALE, OP_DIVIDE, OP_EQ, OP_TRACE, OP_FILL, OP_FROMMATRIX, OP_FACTORY,
       OP_ROTMAT, OP_CLEARCACHE, OP_PRINT, OP_GETMATRIX, OP_COMPONENTS, OP_ROTATE, OP_UNARYVIEW, OP_EIGEN, OP_ELEMENTWISE_USER, OP_CONVERT, OP_CHURN, OP_GEXPR };

struct user_op{ double operator()(double a, double b) const { return a*b+a; } };

template<typename Stmt>
static void eval_expr(unsigned expr, Stmt&& st, SU_vector& s1, SU_vector& s2, double c, const double* buf){
  switch(expr){
    case 0: st(s1+s2); break;
    case 1: st(std::move(s1)+s2); break;
    case 2: st(s1+std::move(s2)); break;
    case 3: st(std::move(s1)+std::move(s2)); break;
    case 4: st(s1-s2); break;
    case 5: st(std::move(s1)-s2); break;
    case 6: st(-s1); break;
    case 7: st(-std::move(s1)); break;
    case 8: st(s1*c); break;
    case 9: st(std::move(s1)*c); break;
    case 10: st(c*s1); break;
    case 11: st(c*std::move(s1)); break;
    case 12: st(iCommutator(s1,s2)); break;
    case 13: st(ACommutator(s1,s2)); break;
    case 14: st(s1.Evolve(s2,c)); break;
    case 15: st(s1.Evolve(buf)); break;
    case 16: st(ElementwiseProduct(s1,s2)); break;
    case 17: st(ElementwiseProduct(std::move(s1),s2)); break;
    case 18: st(ElementwiseProduct(s1,std::move(s2))); break;
    case 19: st(ElementwiseProduct(std::move(s1),std::move(s2))); break;
    case 20: st(ElementwiseOperation(user_op(),s1,s2)); break;
    case 21: st(ElementwiseOperation(user_op(),s1,std::move(s2))); break;
    case 22: st(ElementwiseOperation(user_op(),std::move(s1),s2)); break;
    case 23: st(ElementwiseOperation(user_op(),std::move(s1),std::move(s2))); break;
    default: throw 42;
  }
}

// the same statements with optimisation guarantees asserted (only for guarantees that are true for the shape under test)
template<unsigned F, typename Stmt>
static void eval_gexpr(unsigned expr, Stmt&& st, SU_vector& s1, SU_vector& s2, double c, const double* buf){
  using detail::guarantee;
  switch(expr){
    case 0: st(guarantee<F>(s1+s2)); break;
    case 4: st(guarantee<F>(s1-s2)); break;
    case 6: st(guarantee<F>(-s1)); break;
    case 8: st(guarantee<F>(s1*c)); break;
    case 12: st(guarantee<F>(iCommutator(s1,s2))); break;
    case 13: st(guarantee<F>(ACommutator(s1,s2))); break;
    case 14: st(guarantee<F>(s1.Evolve(s2,c))); break;
    case 15: st(guarantee<F>(s1.Evolve(buf))); break;
    case 16: st(guarantee<F>(ElementwiseProduct(s1,s2))); break;
    default: throw 42;
  }
}
template<typename Stmt>
static void eval_gexpr_f(unsigned flags, unsigned expr, Stmt&& st, SU_vector& s1, SU_vector& s2, double c, const double* buf){
  switch(flags){
    case 1: eval_gexpr<1>(expr,st,s1,s2,c,buf); break;
    case 2: eval_gexpr<2>(expr,st,s1,s2,c,buf); break;
    case 3: eval_gexpr<3>(expr,st,s1,s2,c,buf); break;
    case 4: eval_gexpr<4>(expr,st,s1,s2,c,buf); break;
    case 5: eval_gexpr<5>(expr,st,s1,s2,c,buf); break;
    case 6: eval_gexpr<6>(expr,st,s1,s2,c,buf); break;
    case 7: eval_gexpr<7>(expr,st,s1,s2,c,buf); break;
    default: throw 42;
  }
}

struct st_assign{ SU_vector& t; template<typename P> void operator()(P&& p){ t = p; } };
struct st_inc{ SU_vector& t; template<typename P> void operator()(P&& p){ t += p; } };
struct st_dec{ SU_vector& t; template<typename P> void operator()(P&& p){ t -= p; } };
struct st_con{ void* t; template<typename P> void operator()(P&& p){ new(t) SU_vector(std::move(p)); } };

// returns 0 ok, 1 std::exception (library error), 2 std::bad_alloc, 3 anything else
extern "C" int h_op(unsigned op, void* tp, void* s1p, void* s2p, unsigned x, unsigned y, double c, double* ext, unsigned* res){
  SU_vector* t=static_cast<SU_vector*>(tp);
  SU_vector* s1=static_cast<SU_vector*>(s1p);
  SU_vector* s2=static_cast<SU_vector*>(s2p);
  try{
    switch(op){
      case OP_DEFAULT: new(tp) SU_vector(); break;
      case OP_SIZED: new(tp) SU_vector(x); break;
      case OP_EXTERNAL: new(tp) SU_vector(x,ext); break;
      case OP_FROMLIST: { std::vector<double> l(ext,ext+x); new(tp) SU_vector(l); } break;
      case OP_ALIGNED: new(tp) SU_vector(SU_vector::make_aligned(x,y!=0)); break;
      case OP_COPYCON: new(tp) SU_vector(*s1); break;
      case OP_MOVECON: new(tp) SU_vector(std::move(*s1)); break;
      case OP_DESTROY: t->~SU_vector(); break;
      case OP_COPYASSIGN: *t = *s1; break;
      case OP_MOVEASSIGN: *t = std::move(*s1); break;
      case OP_SETBACKING: t->SetBackingStore(ext); break;
      case OP_EXPR: {
        unsigned stmt=x/32, expr=x%32;
        if(stmt==0) eval_expr(expr,st_assign{*t},*s1,*s2,c,ext);
        else if(stmt==1) eval_expr(expr,st_inc{*t},*s1,*s2,c,ext);
        else if(stmt==2) eval_expr(expr,st_dec{*t},*s1,*s2,c,ext);
        else eval_expr(expr,st_con{tp},*s1,*s2,c,ext);
      } break;
      case OP_PLAININC: *t += *s1; break;
      case OP_PLAINDEC: *t -= *s1; break;
      case OP_SCALE: *t *= c; break;
      case OP_DIVIDE: *t /= c; break;
      case OP_EQ: res[0] = (*t==*s1) ? 1u : 0u; break;
      case OP_TRACE:
        if(y==1) ext[0] = ((*t)+(*t))*((*s1)+(*s1));        // scalar product of two expressions
        else if(y==2) ext[0] = (*t)*((*s1)+(*s1));          // vector times expression
        else if(y==3) ext[0] = iCommutator(*t,*t)*iCommutator(*s1,*s1);
        else ext[0] = (*t)*(*s1);
        break;
      case OP_FILL: t->SetAllComponents(c); break;
      case OP_FROMMATRIX: {
        gsl_matrix_complex* m=gsl_matrix_complex_alloc(x,y);
        for(unsigned i=0;i<x;i++) for(unsigned j=0;j<y;j++) gsl_matrix_complex_set(m,i,j,gsl_complex_rect(ext[2*(i*y+j)],ext[2*(i*y+j)+1]));
        try{ new(tp) SU_vector(m); }catch(...){ gsl_matrix_complex_free(m); throw; }
        gsl_matrix_complex_free(m);
      } break;
      case OP_FACTORY: {
        unsigned which=x>>16, d=x&0xffff;
        switch(which){
          case 0: new(tp) SU_vector(SU_vector::Projector(d,y)); break;
          case 1: new(tp) SU_vector(SU_vector::Identity(d)); break;
          case 2: new(tp) SU_vector(SU_vector::PosProjector(d,y)); break;
          case 3: new(tp) SU_vector(SU_vector::NegProjector(d,y)); break;
          default: new(tp) SU_vector(SU_vector::Generator(d,y)); break;
        }
      } break;
      case OP_ROTMAT: {
        gsl_matrix_complex* m=gsl_matrix_complex_alloc(x,x);
        gsl_matrix_complex_set_identity(m);
        try{ *t = s1->Rotate(m); }catch(...){ gsl_matrix_complex_free(m); throw; }
        gsl_matrix_complex_free(m);
      } break;
      case OP_CLEARCACHE: SU_vector::clear_mem_cache(); break;
      case OP_PRINT: std::cout << *t; break;
      case OP_GETMATRIX: { auto m=t->GetGSLMatrix(); ext[0]=GSL_REAL(gsl_matrix_complex_get(m.get(),0,0)); } break;
      case OP_COMPONENTS: { std::vector<double> v=t->GetComponents(); res[0]=v.size(); for(size_t i=0;i<v.size();i++) ext[i]=v[i]; } break;
      case OP_ROTATE: *t = s1->Rotate(x,y,c,0.5*c); break;
      case OP_UNARYVIEW: if(x==0) t->Transpose(); else if(x==1) *t = s1->Real(); else *t = s1->Imag(); break;
      case OP_GEXPR: {
        unsigned stmt=x/1024, flags=(x/32)%32, expr=x%32;
#ifdef POOL_MAIN
        // native counterpart of the asserted optimiser assumption: the history promises AlignedStorage only for library-allocated vectors,
        // whose storage the library documents as 32-byte aligned (from the second component for odd dimensions)
        if(flags&4u){
          const SU_vector* vs[3]={s1,s2,stmt==3?nullptr:t};
          for(int q=0;q<3;q++) if(vs[q] && vs[q]->Size()>0 && ((uintptr_t)(&(*const_cast<SU_vector*>(vs[q]))[0]+vs[q]->Dim()%2))%32!=0){
            fprintf(stderr,"ALIGNMENT: guarantee<AlignedStorage> on library-allocated vectors, but the storage of operand %d (dimension %u) is not 32-byte aligned: misaligned vector access\n",q,vs[q]->Dim());
            exit(69);
          }
        }
#endif
        if(stmt==0) eval_gexpr_f(flags,expr,st_assign{*t},*s1,*s2,c,ext);
        else if(stmt==1) eval_gexpr_f(flags,expr,st_inc{*t},*s1,*s2,c,ext);
        else if(stmt==2) eval_gexpr_f(flags,expr,st_dec{*t},*s1,*s2,c,ext);
        else eval_gexpr_f(flags,expr,st_con{tp},*s1,*s2,c,ext);
      } break;
      case OP_CHURN: { // y self-owned vectors of dimension x alive at once, then all released (fills / overflows the per-dimension block cache)
        SU_vector* arr=new SU_vector[y];
        try{ for(unsigned i=0;i<y;i++) arr[i]=SU_vector(x); }catch(...){ delete[] arr; throw; }
        delete[] arr;
      } break;
      case OP_CONVERT: // implicit proxy -> SU_vector conversions (sub-expressions)
        switch(x){
          case 0: { SU_vector r = (*s1)+(*s2); new(tp) SU_vector(std::move(r)); } break;
          case 1: *t = iCommutator((*s1)+(*s2),*s1); break;
          case 2: *t = -((*s1)+(*s2)); break;
          case 3: *t = ((*s1)+(*s2))*c; break;
          case 4: *t = ((*s1)+(*s2))+((*s1)-(*s2)); break;
          case 5: { SU_vector r = iCommutator(*s1,*s2); new(tp) SU_vector(std::move(r)); } break;
          default: return 3;
        }
        break;
      default: return 3;
    }
    return 0;
  }
  catch(std::bad_alloc&){ return 2; }
  catch(std::exception&){ return 1; }
  catch(...){ return 3; }
}

// observation of one slot through the public interface only
extern "C" void h_observe(void* tp, unsigned* meta, double* comps){
  SU_vector* t=static_cast<SU_vector*>(tp);
  meta[0]=t->Dim(); meta[1]=t->Size();
  unsigned n=t->Size();
  for(unsigned i=0;i<n && i<36;i++) comps[i]=(*t)[i];
}
extern "C" unsigned long h_addr0(void* tp){
  SU_vector* t=static_cast<SU_vector*>(tp);
  return t->Size() ? (unsigned long)&((*t)[0]) : 0ul;
}
extern "C" unsigned h_sizeof(){ return sizeof(SU_vector); }

#ifdef POOL_MAIN
#include <cstdlib>
#include <cstdio>
#include <cstdint>
// allocation ledger and failure injection (env POOL_FAIL_STEP / POOL_FAIL_J: fail the J-th operator new/new[] call made during step STEP)
static long g_live=0, g_calls_in_step=0; static int g_fail_j=-1; static bool g_armed=false;
static void* counted_alloc(size_t n){
  if(g_armed){ g_calls_in_step++; if(g_calls_in_step==g_fail_j) throw std::bad_alloc(); }
  void* p=aligned_alloc(32,(n?n:1)+31&~(size_t)31); if(!p) throw std::bad_alloc(); g_live++; return p; }   // 32-byte aligned blocks, as in the symbolic allocator policy
void* operator new[](size_t n){ return counted_alloc(n); }
void* operator new(size_t n){ return counted_alloc(n); }
void operator delete[](void* p) noexcept { if(p){ g_live--; free(p);} }
void operator delete(void* p) noexcept { if(p){ g_live--; free(p);} }
void operator delete[](void* p, size_t) noexcept { if(p){ g_live--; free(p);} }
void operator delete(void* p, size_t) noexcept { if(p){ g_live--; free(p);} }
// program file: first line: nslots nbufs ; then one instruction per line:
//   op t s1 s2 x y c extbuf   (slot indices, -1 = none; extbuf index or -1)   followed by optional "= v0 v1 ..." to preload the ext buffer
// after every instruction every live slot is observed and printed.
#include <cstdio>
#include <cstring>
#include <cstdlib>
int main(int argc, char** argv){
  FILE* f=fopen(argv[1],"r");
  if(!f) return 90;
  int nslots,nbufs;
  if(fscanf(f,"%d %d",&nslots,&nbufs)!=2) return 91;
  std::vector<void*> slots(nslots);
  for(int i=0;i<nslots;i++){ slots[i]=aligned_alloc(16,64); memset(slots[i],0xA5,64); }   // objects are built in storage of arbitrary prior content
  std::vector<int> live(nslots,0);
  std::vector<double*> bufs(nbufs);
  for(int i=0;i<nbufs;i++){ bufs[i]=(double*)aligned_alloc(32,80*sizeof(double)); for(int k=0;k<80;k++) bufs[i][k]=0; }
  int op,t,s1,s2,eb; unsigned x,y; double c;
  int step=0;
  while(fscanf(f,"%d %d %d %d %u %u %lf %d",&op,&t,&s1,&s2,&x,&y,&c,&eb)==8){
    int ch;
    while((ch=fgetc(f))==' '){}
    if(ch=='='){
      int k=0; double v;
      while(fscanf(f,"%lf",&v)==1){ if(eb>=0 && k<80) bufs[eb][k]=v; k++; int c2=fgetc(f); if(c2=='\n'||c2==EOF) break; ungetc(c2,f);}
    } else if(ch!=EOF) ungetc(ch,f);
    unsigned res[4]={0,0,0,0};
    { const char* fs=getenv("POOL_FAIL_STEP"); const char* fj=getenv("POOL_FAIL_J");
      g_armed=(fs&&fj&&atoi(fs)==step); g_fail_j=fj?atoi(fj):-1; g_calls_in_step=0; }
    int rc=h_op(op, t>=0?slots[t]:nullptr, s1>=0?slots[s1]:nullptr, s2>=0?slots[s2]:nullptr, x,y,c, eb>=0?bufs[eb]:nullptr, res);
    // liveness bookkeeping mirrors the driver's: constructing ops make t live on success, destroy makes it dead
    bool constructs=(op==OP_DEFAULT||op==OP_SIZED||op==OP_EXTERNAL||op==OP_FROMLIST||op==OP_ALIGNED||op==OP_COPYCON||op==OP_MOVECON||op==OP_FROMMATRIX||op==OP_FACTORY||(op==OP_EXPR&&x/32==3)||(op==OP_CONVERT&&(x==0||x==5))||(op==OP_GEXPR&&x/1024==3));
    if(constructs && rc==0 && t>=0) live[t]=1;
    if(op==OP_DESTROY && t>=0) live[t]=0;
    g_armed=false;
    printf("step %d rc %d res %u\n",step,rc,res[0]);
    for(int i=0;i<nslots;i++){
      if(!live[i]) { printf("  slot %d dead\n",i); continue; }
      unsigned meta[2]; double comps[36];
      h_observe(slots[i],meta,comps);
      unsigned long a0=h_addr0(slots[i]);
      int where=-1; for(int b=0;b<nbufs;b++) if(a0>=(unsigned long)bufs[b] && a0<(unsigned long)(bufs[b]+80)) where=b;
      { // raw representation (same layout as the IR's struct: dim, size, components, ptr_offset, isinit, isinit_d) for the representation invariants
        struct Raw{ unsigned dim,size; double* comp; unsigned char off; unsigned char isinit, isinit_d; };
        static_assert(sizeof(Raw)==sizeof(SU_vector),"SU_vector layout");
        const Raw* r=reinterpret_cast<const Raw*>(slots[i]);
        printf("  raw %d dim %u size %u isinit %u isinit_d %u comp %d\n",i,r->dim,r->size,(unsigned)r->isinit,(unsigned)r->isinit_d,r->comp?1:0);
      }
      printf("  slot %d dim %u size %u ext %d :",i,meta[0],meta[1],where);
      for(unsigned k=0;k<meta[1]&&k<36;k++) printf(" %.17g",comps[k]);
      printf("\n");
    }
    for(int b=0;b<nbufs;b++){ printf("  buf %d :",b); for(int k=0;k<37;k++) printf(" %.17g",bufs[b][k]); printf("\n"); }
    step++;
  }
  // quiescence: destroy everything still alive, drain the cache
  for(int i=0;i<nslots;i++) if(live[i]) static_cast<SU_vector*>(slots[i])->~SU_vector();
  SU_vector::clear_mem_cache();
  for(int i=0;i<nslots;i++) free(slots[i]);
  for(int i=0;i<nbufs;i++) free(bufs[i]);
  slots.clear(); slots.shrink_to_fit(); live.clear(); live.shrink_to_fit(); bufs.clear(); bufs.shrink_to_fit();
  printf("live_blocks %ld\n",g_live);
  printf("done\n");
  if(g_live!=0){ fprintf(stderr,"LEDGER: %ld block(s) allocated by operator new/new[] were never released\n",g_live); return 68; }
  return 0;
}
#endif
