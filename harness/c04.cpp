// C04 / C10 harness: a SQuIDS subclass whose five terms and PreDerive are uninterpreted; one public operation per call on
// objects living in caller-provided memory.  The GSL ODE driver is an environment stub of the executor (checks/gslstub.py);
// natively the real GSL is used and the terms are fixed smooth functions.
#include <SQuIDS/SQuIDS.h>
#include <new>
using namespace squids;
extern "C" double verif_term(unsigned kind, unsigned ix, unsigned idx, double t, unsigned k);
extern "C" void verif_prederive(void* self, double t);
#ifndef VERIF_SYMBOLIC
#include <cmath>
static double g_pre_last=0; static unsigned g_pre_count=0;
extern "C" double verif_term(unsigned kind, unsigned ix, unsigned idx, double t, unsigned k){
  if(kind==1||kind==3) return 0.05*(1+ix)+0.01*idx+0.02*std::cos(t)*((k==0)?1:0.1/(k+1));
  return 0.3*std::sin(0.5*t+ix+0.7*idx+kind)*(1.0/(1+k));
}
extern "C" void verif_prederive(void*, double t){ g_pre_last=t; g_pre_count++; }
extern "C" double h_pre_last(){ return g_pre_last; }
extern "C" unsigned h_pre_count(){ return g_pre_count; }
#endif
struct Sys : public SQuIDS {
  Sys(){}
  Sys(unsigned nx, unsigned d, unsigned nrho, unsigned nsc, double ti):SQuIDS(nx,d,nrho,nsc,ti){}
  Sys(Sys&& o):SQuIDS(std::move(o)){}
  Sys& operator=(Sys&& o){ SQuIDS::operator=(std::move(o)); return *this; }
  SU_vector mk(unsigned kind, unsigned ix, unsigned idx, double t) const { SU_vector v(nsun); for(unsigned k=0;k<nsun*nsun;k++) v[k]=verif_term(kind,ix,idx,t,k); return v; }
  SU_vector HI(unsigned ix, unsigned irho, double t) const override { return mk(0,ix,irho,t); }
  SU_vector GammaRho(unsigned ix, unsigned irho, double t) const override { return mk(1,ix,irho,t); }
  SU_vector InteractionsRho(unsigned ix, unsigned irho, double t) const override { return mk(2,ix,irho,t); }
  double GammaScalar(unsigned ix, unsigned is, double t) const override { return verif_term(3,ix,is,t,0); }
  double InteractionsScalar(unsigned ix, unsigned is, double t) const override { return verif_term(4,ix,is,t,0); }
  void PreDerive(double t) override { verif_prederive(this,t); }
  // views (addresses) for the checks
  double* state_rho(unsigned ix, unsigned i){ return &state[ix].rho[i][0]; }
  double* estate_rho(unsigned ix, unsigned i){ return &estate[ix].rho[i][0]; }
  double* state_scalar(unsigned ix){ return state[ix].scalar; }
  double* estate_scalar(unsigned ix){ return estate[ix].scalar; }
};
extern "C" unsigned h_sys_sizeof(){ return sizeof(Sys); }
extern "C" int h_sys_default(void* m){ try{ new(m) Sys(); return 0; }catch(...){ return 1; } }
extern "C" int h_sys_ctor(void* m, unsigned nx, unsigned d, unsigned nrho, unsigned nsc, double ti){ try{ new(m) Sys(nx,d,nrho,nsc,ti); return 0; }catch(...){ return 1; } }
extern "C" int h_sys_ini(void* m, unsigned nx, unsigned d, unsigned nrho, unsigned nsc, double ti){ try{ static_cast<Sys*>(m)->ini(nx,d,nrho,nsc,ti); return 0; }catch(...){ return 1; } }
extern "C" int h_sys_move_construct(void* m, void* from){ try{ new(m) Sys(std::move(*static_cast<Sys*>(from))); return 0; }catch(...){ return 1; } }
extern "C" int h_sys_move_assign(void* m, void* from){ try{ *static_cast<Sys*>(m)=std::move(*static_cast<Sys*>(from)); return 0; }catch(...){ return 1; } }
extern "C" int h_sys_destroy(void* m){ static_cast<Sys*>(m)->~Sys(); return 0; }
// mask bits: 1 coherent, 2 non-coherent, 4 other rho, 8 gamma scalar, 16 other scalar ; order: which setter is called last (rotation)
extern "C" int h_sys_switches(void* m, unsigned mask, unsigned order){
  Sys* s=static_cast<Sys*>(m);
  for(unsigned j=0;j<5;j++){
    unsigned b=(j+order)%5;
    bool on=(mask>>b)&1u;
    switch(b){ case 0: s->Set_CoherentRhoTerms(on); break; case 1: s->Set_NonCoherentRhoTerms(on); break; case 2: s->Set_OtherRhoTerms(on); break;
               case 3: s->Set_GammaScalarTerms(on); break; default: s->Set_OtherScalarTerms(on); break; }
  }
  return 0;
}
// one setter call: which in 0..4 as above
extern "C" int h_sys_switch_one(void* m, unsigned which, unsigned on){
  Sys* s=static_cast<Sys*>(m);
  switch(which){ case 0: s->Set_CoherentRhoTerms(on!=0); break; case 1: s->Set_NonCoherentRhoTerms(on!=0); break; case 2: s->Set_OtherRhoTerms(on!=0); break;
                 case 3: s->Set_GammaScalarTerms(on!=0); break; default: s->Set_OtherScalarTerms(on!=0); break; }
  return 0;
}
extern "C" int h_sys_stepping(void* m, unsigned adaptive, unsigned nsteps, unsigned stepper){
  Sys* s=static_cast<Sys*>(m);
  s->Set_AdaptiveStep(adaptive!=0); s->Set_NumSteps(nsteps);
#ifndef VERIF_SYMBOLIC
  const gsl_odeiv2_step_type* tab[6]={gsl_odeiv2_step_rk2,gsl_odeiv2_step_rk4,gsl_odeiv2_step_rkf45,gsl_odeiv2_step_rkck,gsl_odeiv2_step_rk8pd,gsl_odeiv2_step_msadams};
  s->Set_GSL_step(tab[stepper%6]); s->Set_rel_error(1e-9); s->Set_abs_error(1e-9); s->Set_h(1e-3);
#endif
  return 0;
}
namespace squids{ int RHS(double,const double*,double*,void*); }   // the library's ODE callback (declared only as a friend in the class)
// direct calls of the ODE right-hand side as a driver would make them: same output array, different input arrays; then a fresh output array.
// res[0] = max |f(y2 into the re-used output) - f(y2 into a fresh output)|, res[1] = max |f(y1) - f(y2)| (must be > 0 for the probe to be meaningful)
extern "C" int h_sys_rhs_probe(void* m, unsigned n, const double* y1, const double* y2, double t, double* res){
  std::vector<double> a(y1,y1+n), b(y2,y2+n), f(n,0.), g(n,0.), f1(n,0.);
  int rc=squids::RHS(t,a.data(),f.data(),m); f1=f;
  rc|=squids::RHS(t,b.data(),f.data(),m);
  rc|=squids::RHS(t,b.data(),g.data(),m);
  double d0=0,d1=0; for(unsigned k=0;k<n;k++){ double u=f[k]-g[k]; if(u<0)u=-u; if(u>d0)d0=u; double v=f1[k]-g[k]; if(v<0)v=-v; if(v>d1)d1=v; }
  res[0]=d0; res[1]=d1; return rc;
}
// step-size and error-control parameters (each a different value so that a swapped argument is visible)
extern "C" int h_sys_control(void* m, double h, double hmin, double hmax, double eabs, double erel){
  Sys* s=static_cast<Sys*>(m);
  s->Set_h(h); s->Set_h_min(hmin); s->Set_h_max(hmax); s->Set_abs_error(eabs); s->Set_rel_error(erel);
  return 0;
}
extern "C" int h_sys_evolve(void* m, double dt){ try{ static_cast<Sys*>(m)->Evolve(dt); return 0; }catch(std::exception&){ return 1; }catch(...){ return 3; } }
extern "C" double h_sys_get_t(void* m){ return static_cast<Sys*>(m)->Get_t(); }
extern "C" double h_sys_get_tini(void* m){ return static_cast<Sys*>(m)->Get_t_initial(); }
// addresses of the stored state and of the in-step views: out[4*(ix*nrho+i)+{0,1}] = state/estate rho, then scalars
extern "C" int h_sys_views(void* m, unsigned nx, unsigned nrho, unsigned long* out){
  Sys* s=static_cast<Sys*>(m);
  unsigned p=0;
  for(unsigned ix=0;ix<nx;ix++){ for(unsigned i=0;i<nrho;i++){ out[p++]=(unsigned long)s->state_rho(ix,i); out[p++]=(unsigned long)s->estate_rho(ix,i); }
    out[p++]=(unsigned long)s->state_scalar(ix); out[p++]=(unsigned long)s->estate_scalar(ix); }
  return 0;
}
// copy the stored state out / in through the public views (state[] is protected: the subclass reads it)
extern "C" int h_sys_read(void* m, unsigned nx, unsigned d, unsigned nrho, unsigned nsc, double* out){
  Sys* s=static_cast<Sys*>(m); unsigned p=0;
  for(unsigned ix=0;ix<nx;ix++){ for(unsigned i=0;i<nrho;i++) for(unsigned k=0;k<d*d;k++) out[p++]=s->state_rho(ix,i)[k]; for(unsigned j=0;j<nsc;j++) out[p++]=s->state_scalar(ix)[j]; }
  return 0;
}
extern "C" int h_sys_write(void* m, unsigned nx, unsigned d, unsigned nrho, unsigned nsc, const double* in){
  Sys* s=static_cast<Sys*>(m); unsigned p=0;
  for(unsigned ix=0;ix<nx;ix++){ for(unsigned i=0;i<nrho;i++) for(unsigned k=0;k<d*d;k++) s->state_rho(ix,i)[k]=in[p++]; for(unsigned j=0;j<nsc;j++) s->state_scalar(ix)[j]=in[p++]; }
  return 0;
}
// reference for one node / matrix written with the public vector API: d(rho)/dt = -i[HI,rho] - {G,rho} + I
extern "C" int h_ref_rhs(unsigned d, unsigned mask, double* rho, double* hi, double* g, double* in, double* out){
  try{
    SU_vector R(d,rho), H(d,hi), G(d,g), Iv(d,in), D(d,out);
    D.SetAllComponents(0.);
    if(mask&1u) D += iCommutator(R,H);       // -i[HI,rho] = i[rho,HI]
    if(mask&2u) D -= ACommutator(G,R);
    if(mask&4u) D += Iv;
    return 0;
  }catch(...){ return 1; }
}

#ifndef VERIF_SYMBOLIC
// ---- native observation of the parameters SQuIDS hands to the GSL driver: these definitions interpose on libgsl inside this shared object
#include <dlfcn.h>
#include <gsl/gsl_odeiv2.h>
static double g_ctl[5]={-1,-1,-1,-1,-1};   // hstart, epsabs, epsrel, hmin, hmax as received by the driver
extern "C" gsl_odeiv2_driver* gsl_odeiv2_driver_alloc_y_new(const gsl_odeiv2_system* sys, const gsl_odeiv2_step_type* T, const double hstart, const double epsabs, const double epsrel){
  typedef gsl_odeiv2_driver* (*fn)(const gsl_odeiv2_system*, const gsl_odeiv2_step_type*, double, double, double);
  static fn real=(fn)dlsym(RTLD_NEXT,"gsl_odeiv2_driver_alloc_y_new");
  g_ctl[0]=hstart; g_ctl[1]=epsabs; g_ctl[2]=epsrel;
  return real(sys,T,hstart,epsabs,epsrel);
}
extern "C" int gsl_odeiv2_driver_set_hmin(gsl_odeiv2_driver* d, const double hmin){
  typedef int (*fn)(gsl_odeiv2_driver*, double); static fn real=(fn)dlsym(RTLD_NEXT,"gsl_odeiv2_driver_set_hmin");
  g_ctl[3]=hmin; return real(d,hmin);
}
extern "C" int gsl_odeiv2_driver_set_hmax(gsl_odeiv2_driver* d, const double hmax){
  typedef int (*fn)(gsl_odeiv2_driver*, double); static fn real=(fn)dlsym(RTLD_NEXT,"gsl_odeiv2_driver_set_hmax");
  g_ctl[4]=hmax; return real(d,hmax);
}
extern "C" int h_ctl_read(double* out){ for(int k=0;k<5;k++) out[k]=g_ctl[k]; return 0; }
// ---- validation of the driver stub's contract against the REAL GSL driver (native build only): the first callback of every integration call
// reads the user's state array, an output buffer is never the input buffer, times stay inside the integration interval
#include <gsl/gsl_odeiv2.h>
#include <gsl/gsl_errno.h>
namespace { struct Rec { const double* y; bool fresh; unsigned calls, first_not_y, out_is_in, out_is_y; double tlo, thi, a, b; unsigned t_outside; }; }
static int rec_rhs(double t, const double y[], double f[], void* p){
  Rec* r=static_cast<Rec*>(p);
  if(r->fresh){ if(y!=r->y) r->first_not_y++; r->fresh=false; }
  r->calls++; if(y==f) r->out_is_in++; if(f==r->y) r->out_is_y++;
  if(t<r->a-1e-12 || t>r->b+1e-12) r->t_outside++;
  f[0]=-y[1]; f[1]=y[0]; return GSL_SUCCESS;
}
extern "C" int h_gsl_contract(unsigned stepper, unsigned adaptive, double* res){
  const gsl_odeiv2_step_type* tab[6]={gsl_odeiv2_step_rk2,gsl_odeiv2_step_rk4,gsl_odeiv2_step_rkf45,gsl_odeiv2_step_rkck,gsl_odeiv2_step_rk8pd,gsl_odeiv2_step_msadams};
  Rec r{}; double y[2]={1.0,0.0}; double t=0.0;
  gsl_odeiv2_system sys={rec_rhs,nullptr,2,&r};
  gsl_odeiv2_driver* d=gsl_odeiv2_driver_alloc_y_new(&sys,tab[stepper%6],1e-3,adaptive?1e-9:1e-2,adaptive?1e-9:1e-2);
  int rc=0;
  for(int k=0;k<3 && rc==0;k++){
    r.y=y; r.fresh=true; r.a=t; r.b=t+0.5;
    rc = adaptive ? gsl_odeiv2_driver_apply(d,&t,t+0.5,y) : gsl_odeiv2_driver_apply_fixed_step(d,&t,0.05,10,y);
  }
  gsl_odeiv2_driver_free(d);
  res[0]=r.calls; res[1]=r.first_not_y; res[2]=r.out_is_in; res[3]=r.out_is_y; res[4]=r.t_outside; res[5]=t; res[6]=y[0]; res[7]=y[1];
  return rc;
}
#endif
