// C15 harness (solver objects): construct / ini / re-ini / move / destroy, one operation per call
#include <SQuIDS/SQuIDS.h>
#include <new>
using namespace squids;
// op: 1 default ctor, 2 sized ctor(nx,nsun,nrho,nscalar), 3 ini(...), 4 move-construct t from s, 5 move-assign t = move(s), 6 destroy
extern "C" int h_solver_op(unsigned op, void* tp, void* sp, unsigned nx, unsigned nsun, unsigned nrho, unsigned nscalar){
  SQuIDS* t=static_cast<SQuIDS*>(tp);
  SQuIDS* s=static_cast<SQuIDS*>(sp);
  try{
    switch(op){
      case 1: new(tp) SQuIDS(); break;
      case 2: new(tp) SQuIDS(nx,nsun,nrho,nscalar,0.25); break;
      case 3: t->ini(nx,nsun,nrho,nscalar,0.5); break;
      case 4: new(tp) SQuIDS(std::move(*s)); break;
      case 5: *t = std::move(*s); break;
      case 6: t->~SQuIDS(); break;
      default: return 3;
    }
    return 0;
  }
  catch(std::bad_alloc&){ return 2; }
  catch(std::exception&){ return 1; }
  catch(...){ return 3; }
}
extern "C" unsigned h_solver_sizeof(){ return sizeof(SQuIDS); }
