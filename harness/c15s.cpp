// C15 harness (solver objects): construct / ini / re-ini / move / destroy, one operation per call
#include <SQuIDS/SQuIDS.h>
#include <new>
using namespace squids;
// the stored state is protected: a subclass without data members gives the harness a way to initialise it (a user would do the same)
struct S15 : public SQuIDS {
  S15():SQuIDS(){}
  S15(unsigned nx,unsigned d,unsigned nr,unsigned ns,double ti):SQuIDS(nx,d,nr,ns,ti){}
  void fill(){ for(unsigned ix=0;ix<nx;ix++){ for(unsigned i=0;i<nrhos;i++) for(unsigned k=0;k<nsun*nsun;k++) state[ix].rho[i][k]=0.1*(k+1)+0.05*ix+0.01*i; for(unsigned j=0;j<nscalars;j++) state[ix].scalar[j]=0.5+j; } }
};
// op: 1 default ctor, 2 sized ctor(nx,nsun,nrho,nscalar), 3 ini(...), 4 move-construct t from s, 5 move-assign t = move(s), 6 destroy,
// 7 const queries on t (interpolating expectation value with the library's internal scratch buffer, intermediate state, node lookup)
extern "C" int h_solver_op(unsigned op, void* tp, void* sp, unsigned nx, unsigned nsun, unsigned nrho, unsigned nscalar){
  S15* t=static_cast<S15*>(tp);
  S15* s=static_cast<S15*>(sp);
  try{
    switch(op){
      case 1: new(tp) S15(); break;
      case 2: new(tp) S15(nx,nsun,nrho,nscalar,0.25); break;
      case 3: t->ini(nx,nsun,nrho,nscalar,0.5); break;
      case 4: new(tp) S15(std::move(*s)); break;
      case 5: *t = std::move(*s); break;
      case 6: t->~S15(); break;
      case 7: { t->fill(); if(nx>1) t->Set_xrange(0.0,1.0,"lin"); double x = nx>1 ? 0.375 : t->Get_x(0);
                SU_vector op=SU_vector::Projector(nsun,0);
                double v=t->GetExpectationValueD(op,0,x); SU_vector r=t->GetIntermediateState(0,x); v+=r[0]+t->GetExpectationValue(op,0,0);
                if(v!=v) return 4; } break;
      default: return 3;
    }
    return 0;
  }
  catch(std::bad_alloc&){ return 2; }
  catch(std::exception&){ return 1; }
  catch(...){ return 3; }
}
extern "C" unsigned h_solver_sizeof(){ return sizeof(S15); }
