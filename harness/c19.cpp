// C19 harness: squids::detail::cache<long,N> from the real header.  Built twice: as is (shared, lock-free configuration:
// SQUIDS_THREAD_LOCAL undefined) and with -DSQUIDS_THREAD_LOCAL=thread_local (single-owner configuration).
#include <atomic>
#include <cstdint>
#include <cstddef>
#include <new>
#include "SQuIDS/detail/Cache.h"
#ifndef CACHE_N
#define CACHE_N 2
#endif
typedef squids::detail::cache<long,CACHE_N> cache_t;
extern "C" void c_init(void* m){ new(m) cache_t(); }
extern "C" int c_insert(void* m, long v){ return static_cast<cache_t*>(m)->insert(v) ? 1 : 0; }
extern "C" long c_get(void* m){ return static_cast<cache_t*>(m)->get(); }
extern "C" unsigned long c_sizeof(){ return sizeof(cache_t); }
