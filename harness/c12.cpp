// C12 harness: GetEigenSystem
#include <SQuIDS/SUNalg.h>
#include <gsl/gsl_vector.h>
using namespace squids;
extern "C" int h_eigen(unsigned d, unsigned order, double* a, double* lam, double* vre, double* vim){
  try{
    SU_vector A(d,a);
    auto es=A.GetEigenSystem(order!=0);
    for(unsigned i=0;i<d;i++) lam[i]=gsl_vector_get(es.first.get(),i);
    for(unsigned i=0;i<d;i++) for(unsigned j=0;j<d;j++){ gsl_complex z=gsl_matrix_complex_get(es.second.get(),i,j); vre[i*d+j]=GSL_REAL(z); vim[i*d+j]=GSL_IMAG(z); }
    return 0;
  }catch(...){ return 1; }
}
extern "C" int h_s2m(unsigned d, double* a, double* re, double* im){
  try{
    SU_vector A(d,a);
    auto m = A.GetGSLMatrix();
    for(unsigned i=0;i<d;i++) for(unsigned j=0;j<d;j++){ gsl_complex z = gsl_matrix_complex_get(m.get(),i,j); re[i*d+j]=GSL_REAL(z); im[i*d+j]=GSL_IMAG(z); }
    return 0;
  }catch(...){ return 1; }
}

// two consecutive decompositions in one thread: the second result is reported
extern "C" int h_eigen_twice(unsigned d, unsigned order, double* a0, double* a, double* lam, double* vre, double* vim){
  try{
    { SU_vector A0(d,a0); auto es0=A0.GetEigenSystem(order!=0); (void)es0; }
    SU_vector A(d,a);
    auto es=A.GetEigenSystem(order!=0);
    for(unsigned i=0;i<d;i++) lam[i]=gsl_vector_get(es.first.get(),i);
    for(unsigned i=0;i<d;i++) for(unsigned j=0;j<d;j++){ gsl_complex z=gsl_matrix_complex_get(es.second.get(),i,j); vre[i*d+j]=GSL_REAL(z); vim[i*d+j]=GSL_IMAG(z); }
    return 0;
  }catch(...){ return 1; }
}
