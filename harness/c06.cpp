// C06 harness: basis rotations through every public entry point
#include <SQuIDS/SUNalg.h>
#include <SQuIDS/const.h>
using namespace squids;
static void copy_out(const SU_vector& v, double* o){ for(unsigned k=0;k<v.Size();k++) o[k]=v[k]; }
extern "C" int h_rotate(unsigned d, unsigned i, unsigned j, double* a, double th, double del, double* o){
  try{ SU_vector A(d,a); SU_vector R=A.Rotate(i,j,th,del); if(R.Dim()!=d) return 2; copy_out(R,o); return 0; }catch(...){ return 1; }
}
// angles/phases: d x d row-major tables, entry (i,j) i<j used
static void fill(Const& p, unsigned d, const double* th, const double* del){
  for(unsigned j=1;j<d;j++) for(unsigned i=0;i<j;i++){ p.SetMixingAngle(i,j,th[i*d+j]); p.SetPhase(i,j,del[i*d+j]); }
}
// which: 0 RotateToB1, 1 RotateToB0
extern "C" int h_rotate_basis(unsigned which, unsigned d, double* a, double* th, double* del, double* o){
  try{
    Const p; fill(p,d,th,del);
    SU_vector A(d,a), V; V=A;
    if(which==0) V.RotateToB1(p); else V.RotateToB0(p);
    copy_out(V,o); return 0;
  }catch(...){ return 1; }
}
extern "C" int h_mixing_matrix(unsigned d, double* th, double* del, double* re, double* im){
  try{
    Const p; fill(p,d,th,del);
    auto U=p.GetTransformationMatrix(d);
    for(unsigned i=0;i<d;i++) for(unsigned j=0;j<d;j++){ gsl_complex z=gsl_matrix_complex_get(U.get(),i,j); re[i*d+j]=GSL_REAL(z); im[i*d+j]=GSL_IMAG(z); }
    return 0;
  }catch(...){ return 1; }
}
// which: 0 Rotate(U), 1 UTransform(U), 2 UDaggerTransform(U)
extern "C" int h_matrix_rotation(unsigned which, unsigned d, double* a, double* ure, double* uim, double* o){
  gsl_matrix_complex* U=gsl_matrix_complex_alloc(d,d);
  int rc=0;
  try{
    for(unsigned i=0;i<d;i++) for(unsigned j=0;j<d;j++) gsl_matrix_complex_set(U,i,j,gsl_complex_rect(ure[i*d+j],uim[i*d+j]));
    SU_vector A(d,a), R;
    if(which==0) R=A.Rotate(U); else if(which==1) R=A.UTransform(U); else R=A.UDaggerTransform(U);
    if(R.Dim()!=d) rc=2; else copy_out(R,o);
  }catch(...){ rc=1; }
  gsl_matrix_complex_free(U);
  return rc;
}
// the same unitary presented as a d x d block (offset 1,1) of a (d+2) x (d+2) matrix whose other entries hold junk: row stride != d
extern "C" int h_matrix_rotation_view(unsigned which, unsigned d, double* a, double* ure, double* uim, double junk, double* o){
  unsigned D=d+2;
  gsl_matrix_complex* big=gsl_matrix_complex_alloc(D,D);
  int rc=0;
  try{
    for(unsigned i=0;i<D;i++) for(unsigned j=0;j<D;j++) gsl_matrix_complex_set(big,i,j,gsl_complex_rect(junk,-junk));
    for(unsigned i=0;i<d;i++) for(unsigned j=0;j<d;j++) gsl_matrix_complex_set(big,1+i,1+j,gsl_complex_rect(ure[i*d+j],uim[i*d+j]));
    gsl_matrix_complex v = *big;           // what gsl_matrix_complex_submatrix(big,1,1,d,d).matrix contains
    v.size1 = d; v.size2 = d; v.owner = 0; v.data = big->data + 2*(big->tda+1);
    SU_vector A(d,a), R;
    if(which==0) R=A.Rotate(&v); else if(which==1) R=A.UTransform(&v); else R=A.UDaggerTransform(&v);
    if(R.Dim()!=d) rc=2; else copy_out(R,o);
  }catch(...){ rc=1; }
  gsl_matrix_complex_free(big);
  return rc;
}
// history: the same matrix object is refilled in place between two calls (thread-local scratch copies must be refreshed);
// d0>0 additionally runs a call in another dimension first (scratch holders must be re-sized)
extern "C" int h_matrix_rotation_twice(unsigned which, unsigned d, unsigned d0, double* a, double* ure1, double* uim1, double* ure2, double* uim2, double* o){
  gsl_matrix_complex* U=gsl_matrix_complex_alloc(d,d);
  int rc=0;
  try{
    if(d0){
      gsl_matrix_complex* W=gsl_matrix_complex_alloc(d0,d0);
      gsl_matrix_complex_set_identity(W);
      SU_vector B=SU_vector::Identity(d0), R0;
      if(which==0) R0=B.Rotate(W); else if(which==1) R0=B.UTransform(W); else R0=B.UDaggerTransform(W);
      gsl_matrix_complex_free(W);
    }
    for(unsigned i=0;i<d;i++) for(unsigned j=0;j<d;j++) gsl_matrix_complex_set(U,i,j,gsl_complex_rect(ure1[i*d+j],uim1[i*d+j]));
    SU_vector A(d,a), R;
    if(which==0) R=A.Rotate(U); else if(which==1) R=A.UTransform(U); else R=A.UDaggerTransform(U);
    for(unsigned i=0;i<d;i++) for(unsigned j=0;j<d;j++) gsl_matrix_complex_set(U,i,j,gsl_complex_rect(ure2[i*d+j],uim2[i*d+j]));
    if(which==0) R=A.Rotate(U); else if(which==1) R=A.UTransform(U); else R=A.UDaggerTransform(U);
    if(R.Dim()!=d) rc=2; else copy_out(R,o);
  }catch(...){ rc=1; }
  gsl_matrix_complex_free(U);
  return rc;
}
// which: 0 WeightedRotation(Const,Yd,Const), 1 WeightedRotation(matrix,Yd,matrix) with the matrices built from the same parameters,
// 2 / 3: the same two calls with the weight operator being the rotated vector itself (x.WeightedRotation(pV,x,pW); yd is ignored)
extern "C" int h_weighted(unsigned which, unsigned d, double* a, double* yd, double* thV, double* delV, double* thW, double* delW, double* o){
  try{
    Const pV, pW; fill(pV,d,thV,delV); fill(pW,d,thW,delW);
    SU_vector A(d,a), Y(d,yd), V; V=A;
    if(which==0) V.WeightedRotation(pV,Y,pW);
    else if(which==2) V.WeightedRotation(pV,V,pW);
    else if(which==3){ auto MV=pV.GetTransformationMatrix(d); auto MW=pW.GetTransformationMatrix(d); V.WeightedRotation(MV.get(),V,MW.get()); }
    else{ auto MV=pV.GetTransformationMatrix(d); auto MW=pW.GetTransformationMatrix(d); V.WeightedRotation(MV.get(),Y,MW.get()); }
    copy_out(V,o); return 0;
  }catch(...){ return 1; }
}
// parameter store: kind 0 mixing angle, 1 phase, 2 energy difference.  returns 0 stored+read back, 1 rejected by Set, 2 rejected by Get only
extern "C" int h_param(unsigned kind, unsigned i, unsigned j, double v, double* o){
  Const p;
  try{
    if(kind==0) p.SetMixingAngle(i,j,v); else if(kind==1) p.SetPhase(i,j,v); else p.SetEnergyDifference(i,v);
  }catch(...){ return 1; }
  try{
    if(kind==0) o[0]=p.GetMixingAngle(i,j); else if(kind==1) o[0]=p.GetPhase(i,j); else o[0]=p.GetEnergyDifference(i);
  }catch(...){ return 2; }
  return 0;
}
extern "C" int h_s2m(unsigned d, double* a, double* re, double* im){
  try{
    SU_vector A(d,a);
    auto m = A.GetGSLMatrix();
    for(unsigned i=0;i<d;i++) for(unsigned j=0;j<d;j++){
      gsl_complex z = gsl_matrix_complex_get(m.get(),i,j);
      re[i*d+j]=GSL_REAL(z); im[i*d+j]=GSL_IMAG(z);
    }
    return 0;
  }catch(...){ return 1; }
}
