// C05 harness: expectation values and x-interpolation on a real SQuIDS object whose H0 is an uninterpreted diagonal operator
#include <SQuIDS/SQuIDS.h>
#include <vector>
using namespace squids;
// value of diagonal generator k of H0(x,irho): symbolic run -> uninterpreted function (executor intrinsic); native run -> a fixed smooth function
extern "C" double verif_h0(double x, unsigned irho, unsigned k);
#ifndef VERIF_SYMBOLIC
#include <cmath>
extern "C" double verif_h0(double x, unsigned irho, unsigned k){ return std::sin(0.7*x*(k+1)+0.3*irho)+0.1*k*x; }
#endif
struct Sys : public SQuIDS {
  Sys(unsigned nx, unsigned d, unsigned nrho, double ti):SQuIDS(nx,d,nrho,0,ti){}
  SU_vector H0(double x, unsigned irho) const override {
    SU_vector h(nsun);
    h[0]=verif_h0(x,irho,0);
    for(unsigned l=1;l<nsun;l++) h[nsun*l+l]=verif_h0(x,irho,l);
    return h;
  }
  void load(const double* st){ for(unsigned i=0;i<nx;i++) for(unsigned r=0;r<nrhos;r++) for(unsigned k=0;k<nsun*nsun;k++) state[i].rho[r][k]=st[(i*nrhos+r)*nsun*nsun+k]; }
  void set_time(double t){ Set_t(t); }
};
static void mkh0(SU_vector& h, unsigned d, const double* h0){ for(unsigned k=0;k<d*d;k++) h[k]=h0[k]; }
// which: 0 GetExpectationValue(op,irho,ix)   1 averaging overload (scale, flags)
//        2 / 3: the configured solver is first move-assigned into an object initialised for another problem (other t_ini, other shape) / move-constructed from;
//        the query goes to the destination, which must carry the source's t, t_ini, grid and states
extern "C" int h_expect(unsigned which, unsigned nx, unsigned d, unsigned nrho, unsigned ix, unsigned irho, double* xs, double* st, double* op, double t, double t_ini, double scale, double* out, unsigned* flags){
  try{
    Sys s(nx,d,nrho,t_ini);
    s.Set_xrange(std::vector<double>(xs,xs+nx));
    s.load(st); s.set_time(t);
    SU_vector O(d,op);
    if(which==0) out[0]=s.GetExpectationValue(O,irho,ix);
    else if(which==2){ Sys q(2,d,1,0.0); q=std::move(s); out[0]=q.GetExpectationValue(O,irho,ix); }
    else if(which==3){ Sys q(std::move(s)); out[0]=q.GetExpectationValue(O,irho,ix); }
    else{ std::vector<bool> avr(d*(d-1)/2); out[0]=s.GetExpectationValue(O,irho,ix,scale,avr); for(unsigned i=0;i<avr.size();i++) flags[i]=avr[i]?1u:0u; }
    return 0;
  }catch(...){ return 1; }
}
// which: 0 GetExpectationValueD(op,irho,x)  1 with explicit buffer  2 averaging (thread-local buffer)  3 averaging with explicit buffer  4 GetIntermediateState -> out[0..d*d)
// d0==99: the same call for another rho index of the same object precedes it (same scratch buffer); other d0>0: a first call on another object of dimension d0 precedes it on the same thread (thread-local scratch must adapt)
extern "C" int h_expectD(unsigned which, unsigned nx, unsigned d, unsigned nrho, unsigned irho, double* xs, double* st, double* op, double x, double t, double t_ini, double scale, unsigned d0, double* out, unsigned* flags){
  try{
    if(d0 && d0!=99){
      Sys s0(2,d0,1,0.0);
      std::vector<double> g(2); g[0]=0; g[1]=1;
      s0.Set_xrange(g);
      std::vector<double> z(2*d0*d0,0.25); s0.load(z.data());
      SU_vector O0=SU_vector::Identity(d0);
      if(which==2){ std::vector<bool> a0(d0*(d0-1)/2); (void)s0.GetExpectationValueD(O0,0,0.5,1e9,a0); } else (void)s0.GetExpectationValueD(O0,0,0.5);
    }
    Sys s(nx,d,nrho,t_ini);
    s.Set_xrange(std::vector<double>(xs,xs+nx));
    s.load(st); s.set_time(t);
    SU_vector O(d,op);
    std::vector<bool> avr(d*(d-1)/2);
    SQuIDS::expectationValueDBuffer b(d);
    if(d0==99 && nrho>1){
      // the same query for another density matrix comes first: same object, same x, t and scale, same scratch buffer (nothing may survive in the buffer)
      unsigned jr=(irho+1)%nrho; std::vector<bool> a1(d*(d-1)/2);
      if(which==0) (void)s.GetExpectationValueD(O,jr,x);
      else if(which==1) (void)s.GetExpectationValueD(O,jr,x,b);
      else if(which==2) (void)s.GetExpectationValueD(O,jr,x,scale,a1);
      else if(which==3) (void)s.GetExpectationValueD(O,jr,x,b,scale,a1);
    }
    if(which==0) out[0]=s.GetExpectationValueD(O,irho,x);
    else if(which==1) out[0]=s.GetExpectationValueD(O,irho,x,b);
    else if(which==2) out[0]=s.GetExpectationValueD(O,irho,x,scale,avr);
    else if(which==3) out[0]=s.GetExpectationValueD(O,irho,x,b,scale,avr);
    else{ SU_vector r=s.GetIntermediateState(irho,x); if(r.Dim()!=d) return 2; for(unsigned k=0;k<d*d;k++) out[k]=r[k]; }
    if(which==2||which==3) for(unsigned i=0;i<avr.size();i++) flags[i]=avr[i]?1u:0u;
    return 0;
  }catch(...){ return 1; }
}
// references written with the public vector API only (the oracle for the glue)
extern "C" int h_ref(unsigned d, double* rho, double* op, double* h0, double tau, double* out){
  try{ SU_vector R(d,rho), O(d,op), H(d,h0); out[0]=R*O.Evolve(H,tau); return 0; }catch(...){ return 1; }
}
extern "C" int h_refD(unsigned d, double* rho1, double* rho2, double* op, double* h0, double tau, double x, double xl, double xr, double* out){
  try{
    SU_vector R1(d,rho1), R2(d,rho2), O(d,op), H(d,h0), S, E;
    double f2=((x-xl)/(xr-xl)); double f1=1-f2;
    S=f1*R1; S+=f2*R2; E=O.Evolve(H,tau);
    out[0]=S*E; return 0;
  }catch(...){ return 1; }
}
