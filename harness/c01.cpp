// C01 harness: vector <-> Hermitian matrix map and the linear operations, through the public API
#include <SQuIDS/SUNalg.h>
#include <vector>
using namespace squids;
extern "C" int h_s2m(unsigned d, double* a, double* re, double* im){
  try{
    SU_vector A(d,a);
    auto m = A.GetGSLMatrix();
    for(unsigned i=0;i<d;i++) for(unsigned j=0;j<d;j++){
      gsl_complex z = gsl_matrix_complex_get(m.get(),i,j);
      re[i*d+j]=GSL_REAL(z); im[i*d+j]=GSL_IMAG(z);
    }
    return 0;
  }catch(...){ return 1; }
}
extern "C" int h_m2s(unsigned d, double* re, double* im, double* o){
  gsl_matrix_complex* m = gsl_matrix_complex_alloc(d,d);
  int rc=0;
  try{
    for(unsigned i=0;i<d;i++) for(unsigned j=0;j<d;j++)
      gsl_matrix_complex_set(m,i,j,gsl_complex_rect(re[i*d+j],im[i*d+j]));
    SU_vector V(m);
    if(V.Dim()!=d) rc=2;
    for(unsigned k=0;k<d*d;k++) o[k]=V[k];
  }catch(...){ rc=1; }
  gsl_matrix_complex_free(m);
  return rc;
}
// the same matrix presented as a d x d block (offset off,off) of a D x D matrix: row stride tda = D != d
extern "C" int h_m2s_view(unsigned d, unsigned D, unsigned off, double* junk, double* re, double* im, double* o){
  gsl_matrix_complex* big = gsl_matrix_complex_alloc(D,D);
  int rc=0;
  try{
    for(unsigned i=0;i<D;i++) for(unsigned j=0;j<D;j++)
      gsl_matrix_complex_set(big,i,j,gsl_complex_rect(junk[2*(i*D+j)],junk[2*(i*D+j)+1]));
    for(unsigned i=0;i<d;i++) for(unsigned j=0;j<d;j++)
      gsl_matrix_complex_set(big,off+i,off+j,gsl_complex_rect(re[i*d+j],im[i*d+j]));
    gsl_matrix_complex v = *big;           // what gsl_matrix_complex_submatrix(big,off,off,d,d).matrix contains
    v.size1 = d; v.size2 = d; v.owner = 0; v.data = big->data + 2*(off*big->tda+off);
    SU_vector V(&v);
    if(V.Dim()!=d) rc=2;
    for(unsigned k=0;k<d*d;k++) o[k]=V[k];
  }catch(...){ rc=1; }
  gsl_matrix_complex_free(big);
  return rc;
}
extern "C" int h_components(unsigned d, double* a, double* o){
  try{
    SU_vector A(d,a);
    std::vector<double> c = A.GetComponents();
    if(c.size()!=d*d) return 2;
    SU_vector B(c);
    if(B.Dim()!=d) return 3;
    for(unsigned k=0;k<d*d;k++) o[k]=B[k];
    return 0;
  }catch(...){ return 1; }
}
// op: 0 A+B, 1 A-B, 2 -A, 3 A*s, 4 s*A, 5 A+=B, 6 A-=B, 7 A*=s, 8 A/=s, 9 Transpose, 10 Real, 11 Imag, 12.. compound/aliased expression forms
extern "C" int h_linop(unsigned op, unsigned d, double* a, double* b, double s, double* o){
  try{
    SU_vector A(d,a), B(d,b), O(d,o);
    switch(op){
      case 0: O = A+B; break;
      case 1: O = A-B; break;
      case 2: O = -A; break;
      case 3: O = A*s; break;
      case 4: O = s*A; break;
      case 5: A += B; O = A; break;
      case 6: A -= B; O = A; break;
      case 7: A *= s; O = A; break;
      case 8: A /= s; O = A; break;
      case 9: A.Transpose(); O = A; break;
      case 10: O = A.Real(); break;
      case 11: O = A.Imag(); break;
      // compound assignment from expressions, and expressions assigned onto one of their own operands
      case 12: A += B*s; O = A; break;
      case 13: A -= s*B; O = A; break;
      case 14: A += A*s; O = A; break;
      case 15: A -= s*A; O = A; break;
      case 16: A += A+B; O = A; break;
      case 17: A -= A-B; O = A; break;
      case 18: A = A+B; O = A; break;
      case 19: A = B-A; O = A; break;
      case 20: A = -A; O = A; break;
      case 21: A = A*s; O = A; break;
      default: return 2;
    }
    return 0;
  }catch(...){ return 1; }
}
// mode bit 0: the left operand owns its storage (copy), otherwise it views the caller's buffer; bit 1: same for the right operand
extern "C" int h_eq(unsigned d1, unsigned d2, double* a, double* b, unsigned mode){
  try{
    SU_vector A(d1,a), B(d2,b);
    SU_vector Ao(A), Bo(B);
    const SU_vector& L = (mode&1) ? Ao : A;
    const SU_vector& R = (mode&2) ? Bo : B;
    return (L==R) ? 10 : 11;
  }catch(...){ return 1; }
}
