// C18 harness: operations performed by logical threads (the executor switches the thread-local storage instance between calls)
#include <SQuIDS/SQuIDS.h>
#include <new>
using namespace squids;
struct Sys18 : public SQuIDS {
  Sys18(unsigned nx, unsigned d):SQuIDS(nx,d,1,0,0.0){}
  SU_vector H0(double x, unsigned) const override { SU_vector h(nsun); for(unsigned l=1;l<nsun;l++) h[nsun*l+l]=0.3*l*x; return h; }
  void fill(){ for(unsigned i=0;i<nx;i++) for(unsigned k=0;k<nsun*nsun;k++) state[i].rho[0][k]=0.1*(k+1)+0.05*i; Set_t(0.75); }
};
// own vectors: algebra, rotations, matrix exponential; result copied to out
extern "C" int h_algebra(unsigned d, const double* in, double* out){
  try{
    SU_vector a(d), b(d), c;
    for(unsigned k=0;k<d*d;k++){ a[k]=in[k]; b[k]=in[d*d+k]; }
    c = a + b;
    c += iCommutator(a,b)*0.5;
    c -= ACommutator(a,c);
    c = c.Evolve(SU_vector::PosProjector(d,1),0.3);
    c = c.Rotate(0,1,0.4,0.2);
    c = c.UTransform(b, gsl_complex_rect(0,0.37));   // matrix exponential
    double t = c*a;
    auto m = c.GetGSLMatrix();
    SU_vector e(m.get());
    for(unsigned k=0;k<d*d;k++) out[k]=e[k]+t;
    return 0;
  }catch(...){ return 1; }
}
// the arithmetic classes with every value symbolic (no matrix exponential: its estimator loops on values)
extern "C" int h_algebra_sym(unsigned d, const double* in, double* out, double t, double th, double del, double sc){
  try{
    SU_vector a(d), b(d), c;
    for(unsigned k=0;k<d*d;k++){ a[k]=in[k]; b[k]=in[d*d+k]; }
    c = a + b;
    c += iCommutator(a,b)*sc;
    c -= ACommutator(a,c);
    c = c.Evolve(SU_vector::PosProjector(d,1),t);
    c = c.Rotate(0,1,th,del);
    double tr = c*a;
    auto m = c.GetGSLMatrix();
    SU_vector e(m.get());
    for(unsigned k=0;k<d*d;k++) out[k]=e[k]+tr;
    return 0;
  }catch(...){ return 1; }
}
// vectors handed from one thread to another: created here ...
extern "C" int h_make(void* slot, unsigned d, double v){ try{ new(slot) SU_vector(d); static_cast<SU_vector*>(slot)->SetAllComponents(v); return 0; }catch(...){ return 1; } }
// a vector emptied by assignment (its block changes hands inside the library), later released on some thread
extern "C" int h_make_emptied(void* slot, unsigned d){ try{ SU_vector* v=new(slot) SU_vector(d); v->SetAllComponents(0.25); SU_vector e; *v = e; return (int)v->Dim(); }catch(...){ return -1; } }
// ... and released there
extern "C" int h_drop(void* slot){ static_cast<SU_vector*>(slot)->~SU_vector(); return 0; }
extern "C" int h_solver_make(void* slot, unsigned nx, unsigned d){ try{ Sys18* s=new(slot) Sys18(nx,d); s->Set_xrange(0.0,1.0,"linear"); s->fill(); return 0; }catch(...){ return 1; } }
extern "C" int h_solver_drop(void* slot){ static_cast<Sys18*>(slot)->~Sys18(); return 0; }
// const queries on a shared solver
extern "C" int h_query(const void* slot, unsigned d, double x, double* out){
  try{
    const Sys18* s=static_cast<const Sys18*>(slot);
    SU_vector op=SU_vector::Projector(d,0);
    out[0]=s->GetExpectationValue(op,0,1);
    out[1]=s->GetExpectationValueD(op,0,x);
    SU_vector r=s->GetIntermediateState(0,x);
    out[2]=r[1];
    out[3]=(double)s->Get_i(x);
    std::vector<bool> avr(d*(d-1)/2);
    out[4]=s->GetExpectationValueD(op,0,x,1e9,avr);
    return 0;
  }catch(...){ return 1; }
}

// a thread whose only library call is a query on the shared solver with an operator that another thread created
extern "C" int h_query_shared_op(const void* slot, const void* opslot, double x, double* out){
  try{
    const Sys18* s=static_cast<const Sys18*>(slot);
    const SU_vector* op=static_cast<const SU_vector*>(opslot);
    out[0]=s->GetExpectationValueD(*op,0,x);
    return 0;
  }catch(...){ return 1; }
}
extern "C" int h_make_projector(void* slot, unsigned d){ try{ new(slot) SU_vector(SU_vector::Projector(d,0)); return 0; }catch(...){ return 1; } }
