// C07 harness: internals of the Pade matrix exponential are reached by including the library source
#include <SQuIDS/SUNalg.h>
#include <gsl/gsl_matrix.h>
// keep the exact norm a call (not inlined into matrix_exponential) so that the check can stub every norm estimate alike
namespace squids{ namespace math_detail{ double exact_1_norm(const gsl_matrix_complex*) __attribute__((noinline)); } }
#include "MatrixExp.cpp"
using namespace squids;
using namespace squids::math_detail;
static gsl_matrix_complex* mk(unsigned n, const double* re, const double* im){
  gsl_matrix_complex* m=gsl_matrix_complex_alloc(n,n);
  for(unsigned i=0;i<n;i++) for(unsigned j=0;j<n;j++) gsl_matrix_complex_set(m,i,j,gsl_complex_rect(re[i*n+j],im[i*n+j]));
  return m;
}
static void out(unsigned n, const gsl_matrix_complex* m, double* re, double* im){
  for(unsigned i=0;i<n;i++) for(unsigned j=0;j<n;j++){ gsl_complex z=gsl_matrix_complex_get(m,i,j); re[i*n+j]=GSL_REAL(z); im[i*n+j]=GSL_IMAG(z); }
}
// Pade numerator/denominator assembly of order m on an n x n matrix; the even powers are formed here exactly as matrix_exponential does
extern "C" int h_pade(unsigned m, unsigned n, double* are, double* aim, double* ure, double* uim, double* vre, double* vim){
  gsl_matrix_complex *A=mk(n,are,aim), *id=gsl_matrix_complex_alloc(n,n), *A2=gsl_matrix_complex_alloc(n,n), *A4=gsl_matrix_complex_alloc(n,n), *A6=gsl_matrix_complex_alloc(n,n),
                     *U=gsl_matrix_complex_alloc(n,n), *V=gsl_matrix_complex_alloc(n,n);
  int rc=0;
  try{
    gsl_matrix_complex_set_identity(id);
    gsl_blas_zgemm(CblasNoTrans,CblasNoTrans,GSL_COMPLEX_ONE,A,A,GSL_COMPLEX_ZERO,A2);
    gsl_blas_zgemm(CblasNoTrans,CblasNoTrans,GSL_COMPLEX_ONE,A2,A2,GSL_COMPLEX_ZERO,A4);
    gsl_blas_zgemm(CblasNoTrans,CblasNoTrans,GSL_COMPLEX_ONE,A2,A4,GSL_COMPLEX_ZERO,A6);
    switch(m){
      case 3: pade3(A,id,A2,U,V); break;
      case 5: pade5(A,id,A2,A4,U,V); break;
      case 7: pade7(A,id,A2,A4,A6,U,V); break;
      case 9: pade9(A,id,A2,A4,A6,U,V); break;
      case 13: pade13(A,id,A2,A4,A6,U,V); break;
      default: rc=2;
    }
    out(n,U,ure,uim); out(n,V,vre,vim);
  }catch(...){ rc=1; }
  gsl_matrix_complex_free(A); gsl_matrix_complex_free(id); gsl_matrix_complex_free(A2); gsl_matrix_complex_free(A4); gsl_matrix_complex_free(A6); gsl_matrix_complex_free(U); gsl_matrix_complex_free(V);
  return rc;
}
// the estimator's argument validation
extern "C" int h_normest(unsigned n, unsigned t, unsigned itmax, double* are, double* aim, double* res){
  gsl_matrix_complex* A=mk(n,are,aim); int rc=0;
  try{ res[0]=one_normest_core(A,t,itmax); }catch(std::exception&){ rc=1; }
  gsl_matrix_complex_free(A); return rc;
}
extern "C" int h_expm(unsigned n, double* are, double* aim, double* ere, double* eim){
  gsl_matrix_complex *A=mk(n,are,aim), *E=gsl_matrix_complex_alloc(n,n); int rc=0;
  try{ matrix_exponential(E,A); out(n,E,ere,eim); }catch(std::exception&){ rc=1; }
  gsl_matrix_complex_free(A); gsl_matrix_complex_free(E); return rc;
}
// A.UTransform(V, scale); d0>0: a call in another dimension first (thread-local scratch must be re-sized)
extern "C" int h_utransform(unsigned d, unsigned d0, double* a, double* v, double sre, double sim, double* o){
  try{
    if(d0){ SU_vector B=SU_vector::Identity(d0), W=SU_vector::Generator(d0,1); SU_vector R0=B.UTransform(W,gsl_complex_rect(0,0.5)); }
    SU_vector A(d,a), Vv(d,v);
    SU_vector R=A.UTransform(Vv,gsl_complex_rect(sre,sim));
    if(R.Dim()!=d) return 2;
    for(unsigned k=0;k<d*d;k++) o[k]=R[k];
    return 0;
  }catch(std::exception&){ return 1; }
}
extern "C" int h_s2m(unsigned d, double* a, double* re, double* im){
  try{ SU_vector A(d,a); auto m=A.GetGSLMatrix(); out(d,m.get(),re,im); return 0; }catch(...){ return 1; }
}
