// C02 harness: commutator, anticommutator, scalar product through the public API
#include <SQuIDS/SUNalg.h>
using namespace squids;
extern "C" int h_icomm(unsigned d, double* a, double* b, double* o){
  try{
    SU_vector A(d,a), B(d,b), O(d,o);
    O = iCommutator(A,B);
    return 0;
  }catch(...){ return 1; }
}
extern "C" int h_acomm(unsigned d, double* a, double* b, double* o){
  try{
    SU_vector A(d,a), B(d,b), O(d,o);
    O = ACommutator(A,B);
    return 0;
  }catch(...){ return 1; }
}
// the same two operations assigned into storage with a history.  which: 0 iCommutator, 1 ACommutator.
// mode 0: the target is a second vector viewing A's buffer; 1: a second vector viewing B's buffer; 2: the target already holds the OTHER
// operation's result (so every component, the identity component included, has previous content); 3: the target is A itself;
// 4 / 5: A -= op(A,B) / A += op(A,B)
extern "C" int h_comm_into(unsigned which, unsigned mode, unsigned d, double* a, double* b, double* o){
  try{
    SU_vector A(d,a), B(d,b);
    if(mode==0){ SU_vector Tv(d,a); if(which==0) Tv = iCommutator(A,B); else Tv = ACommutator(A,B); for(unsigned k=0;k<d*d;k++) o[k]=Tv[k]; }
    else if(mode==1){ SU_vector Tv(d,b); if(which==0) Tv = iCommutator(A,B); else Tv = ACommutator(A,B); for(unsigned k=0;k<d*d;k++) o[k]=Tv[k]; }
    else if(mode==2){ SU_vector C; if(which==0){ C = ACommutator(A,B); C = iCommutator(A,B); } else { C = iCommutator(A,B); C = ACommutator(A,B); } for(unsigned k=0;k<d*d;k++) o[k]=C[k]; }
    else if(mode==3){ if(which==0) A = iCommutator(A,B); else A = ACommutator(A,B); for(unsigned k=0;k<d*d;k++) o[k]=A[k]; }
    else if(mode==4){ if(which==0) A -= iCommutator(A,B); else A -= ACommutator(A,B); for(unsigned k=0;k<d*d;k++) o[k]=A[k]; }   // compound forms on an operand
    else { if(which==0) A += iCommutator(A,B); else A += ACommutator(A,B); for(unsigned k=0;k<d*d;k++) o[k]=A[k]; }
    return 0;
  }catch(...){ return 1; }
}
extern "C" int h_trace(unsigned d, double* a, double* b, double* o){
  try{
    SU_vector A(d,a), B(d,b);
    o[0] = A*B;
    o[1] = SUTrace<>(A,B);
    return 0;
  }catch(...){ return 1; }
}
extern "C" int h_s2m(unsigned d, double* a, double* re, double* im){
  try{
    SU_vector A(d,a);
    auto m = A.GetGSLMatrix();
    for(unsigned i=0;i<d;i++) for(unsigned j=0;j<d;j++){
      gsl_complex z = gsl_matrix_complex_get(m.get(),i,j);
      re[i*d+j]=GSL_REAL(z); im[i*d+j]=GSL_IMAG(z);
    }
    return 0;
  }catch(...){ return 1; }
}
