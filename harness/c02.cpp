// C02 harness: commutator, anticommutator, scalar product through the public API
#include <SQuIDS/SUNalg.h>
using namespace squids;
extern "C" int h_icomm(unsigned d, double* a, double* b, double* o){
  try{
    SU_vector A(d,a), B(d,b), O(d,o);
    O = iCommutator(A,B);
    return 0;
  }catch(...){ return 1; }
}
extern "C" int h_acomm(unsigned d, double* a, double* b, double* o){
  try{
    SU_vector A(d,a), B(d,b), O(d,o);
    O = ACommutator(A,B);
    return 0;
  }catch(...){ return 1; }
}
extern "C" int h_trace(unsigned d, double* a, double* b, double* o){
  try{
    SU_vector A(d,a), B(d,b);
    o[0] = A*B;
    o[1] = SUTrace<>(A,B);
    return 0;
  }catch(...){ return 1; }
}
extern "C" int h_s2m(unsigned d, double* a, double* re, double* im){
  try{
    SU_vector A(d,a);
    auto m = A.GetGSLMatrix();
    for(unsigned i=0;i<d;i++) for(unsigned j=0;j<d;j++){
      gsl_complex z = gsl_matrix_complex_get(m.get(),i,j);
      re[i*d+j]=GSL_REAL(z); im[i*d+j]=GSL_IMAG(z);
    }
    return 0;
  }catch(...){ return 1; }
}
