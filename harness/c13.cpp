// C13 harness: factory operators
#include <SQuIDS/SUNalg.h>
using namespace squids;
// which: 0 Projector, 1 Identity, 2 PosProjector, 3 NegProjector, 4 Generator
// hist=1: a vector of the same dimension filled with the value junk has been destroyed before, so the factory may be handed its block back;
// hist=2: the same factory ran in a neighbouring dimension before (scratch carried between calls)
// hist=3: an earlier result of the same call was overwritten with junk by the caller (results must not share storage)
extern "C" int h_factory(unsigned which, unsigned d, unsigned i, double* o, unsigned hist, double junk){
  try{
    if(hist==1){ SU_vector j(d); j.SetAllComponents(junk); }
    if(hist==2){ // the same factory was used in another dimension (and with another index) before
      unsigned dp = d<6 ? d+1 : d-1;
      SU_vector p;
      switch(which){
        case 0: p = SU_vector::Projector(dp,dp-1); break;
        case 1: p = SU_vector::Identity(dp); break;
        case 2: p = SU_vector::PosProjector(dp,dp-1); break;
        case 3: p = SU_vector::NegProjector(dp,dp-1); break;
        case 4: p = SU_vector::Generator(dp,dp*dp-1); break;
        default: break;
      }
      if(p.Dim()!=dp) return 4;
    }
    if(hist==3){ // an earlier result of the same call was modified in place by its owner and destroyed
      switch(which){
        case 0: { SU_vector r = SU_vector::Projector(d,i); r.SetAllComponents(junk); } break;
        case 1: { SU_vector r = SU_vector::Identity(d); r.SetAllComponents(junk); } break;
        case 2: { SU_vector r = SU_vector::PosProjector(d,i); r.SetAllComponents(junk); } break;
        case 3: { SU_vector r = SU_vector::NegProjector(d,i); r.SetAllComponents(junk); } break;
        case 4: { SU_vector r = SU_vector::Generator(d,i); r.SetAllComponents(junk); } break;
        default: break;
      }
    }
    SU_vector v;
    switch(which){
      case 0: v = SU_vector::Projector(d,i); break;
      case 1: v = SU_vector::Identity(d); break;
      case 2: v = SU_vector::PosProjector(d,i); break;
      case 3: v = SU_vector::NegProjector(d,i); break;
      case 4: v = SU_vector::Generator(d,i); break;
      default: return 3;
    }
    if(v.Dim()!=d || v.Size()!=d*d) return 2;
    for(unsigned k=0;k<d*d;k++) o[k]=v[k];
    return 0;
  }catch(...){ return 1; }
}
extern "C" int h_s2m(unsigned d, double* a, double* re, double* im){
  try{
    SU_vector A(d,a);
    auto m = A.GetGSLMatrix();
    for(unsigned i=0;i<d;i++) for(unsigned j=0;j<d;j++){
      gsl_complex z = gsl_matrix_complex_get(m.get(),i,j);
      re[i*d+j]=GSL_REAL(z); im[i*d+j]=GSL_IMAG(z);
    }
    return 0;
  }catch(...){ return 1; }
}
