/* Reference shim for the GSL container / BLAS / complex routines that SQuIDS calls.
 * Compiled to LLVM IR and linked with the harness so the symbolic executor sees their (documented) semantics.
 * Same headers as the real library => same struct layouts.  Range/size errors call __verif_gsl_error(),
 * which the executor reports as an error of the path (GSL's default handler aborts the process).       */
#include <stdlib.h>
#include <gsl/gsl_complex.h>
#include <gsl/gsl_complex_math.h>
#include <gsl/gsl_matrix.h>
#include <gsl/gsl_vector.h>
#include <gsl/gsl_permutation.h>
#include <gsl/gsl_blas.h>

void __verif_gsl_error(int code);

/* ---------------------------------------------------------------- complex numbers */
gsl_complex gsl_complex_rect(double x, double y){ gsl_complex z; GSL_SET_COMPLEX(&z,x,y); return z; }
gsl_complex gsl_complex_add(gsl_complex a, gsl_complex b){ gsl_complex z; GSL_SET_COMPLEX(&z,GSL_REAL(a)+GSL_REAL(b),GSL_IMAG(a)+GSL_IMAG(b)); return z; }
gsl_complex gsl_complex_sub(gsl_complex a, gsl_complex b){ gsl_complex z; GSL_SET_COMPLEX(&z,GSL_REAL(a)-GSL_REAL(b),GSL_IMAG(a)-GSL_IMAG(b)); return z; }
gsl_complex gsl_complex_mul(gsl_complex a, gsl_complex b){
  double ar=GSL_REAL(a), ai=GSL_IMAG(a), br=GSL_REAL(b), bi=GSL_IMAG(b);
  gsl_complex z; GSL_SET_COMPLEX(&z, ar*br-ai*bi, ar*bi+ai*br); return z; }
gsl_complex gsl_complex_div_real(gsl_complex a, double x){ gsl_complex z; GSL_SET_COMPLEX(&z,GSL_REAL(a)/x,GSL_IMAG(a)/x); return z; }
gsl_complex gsl_complex_mul_real(gsl_complex a, double x){ gsl_complex z; GSL_SET_COMPLEX(&z,GSL_REAL(a)*x,GSL_IMAG(a)*x); return z; }
gsl_complex gsl_complex_conjugate(gsl_complex a){ gsl_complex z; GSL_SET_COMPLEX(&z,GSL_REAL(a),-GSL_IMAG(a)); return z; }
gsl_complex gsl_complex_negative(gsl_complex a){ gsl_complex z; GSL_SET_COMPLEX(&z,-GSL_REAL(a),-GSL_IMAG(a)); return z; }
double gsl_complex_abs2(gsl_complex a){ return GSL_REAL(a)*GSL_REAL(a)+GSL_IMAG(a)*GSL_IMAG(a); }
double sqrt(double);
double exp(double); double sin(double); double cos(double);
double gsl_complex_abs(gsl_complex a){ return sqrt(GSL_REAL(a)*GSL_REAL(a)+GSL_IMAG(a)*GSL_IMAG(a)); }
gsl_complex gsl_complex_exp(gsl_complex a){ double rho=exp(GSL_REAL(a)); double th=GSL_IMAG(a);
  gsl_complex z; GSL_SET_COMPLEX(&z, rho*cos(th), rho*sin(th)); return z; }

/* ---------------------------------------------------------------- complex matrices */
gsl_matrix_complex* gsl_matrix_complex_alloc(const size_t n1, const size_t n2){
  gsl_matrix_complex* m=(gsl_matrix_complex*)malloc(sizeof(gsl_matrix_complex));
  gsl_block_complex* b=(gsl_block_complex*)malloc(sizeof(gsl_block_complex));
  b->size=n1*n2; b->data=(double*)malloc(2*n1*n2*sizeof(double));
  m->size1=n1; m->size2=n2; m->tda=n2; m->data=b->data; m->block=b; m->owner=1;
  return m; }
void gsl_matrix_complex_free(gsl_matrix_complex* m){
  if(!m) return;
  if(m->owner){ free(m->block->data); free(m->block); }
  free(m); }
gsl_complex gsl_matrix_complex_get(const gsl_matrix_complex* m, const size_t i, const size_t j){
  if(i>=m->size1 || j>=m->size2) __verif_gsl_error(1);
  gsl_complex z; GSL_SET_COMPLEX(&z, m->data[2*(i*m->tda+j)], m->data[2*(i*m->tda+j)+1]); return z; }
void gsl_matrix_complex_set(gsl_matrix_complex* m, const size_t i, const size_t j, const gsl_complex x){
  if(i>=m->size1 || j>=m->size2) __verif_gsl_error(2);
  m->data[2*(i*m->tda+j)]=GSL_REAL(x); m->data[2*(i*m->tda+j)+1]=GSL_IMAG(x); }
int gsl_matrix_complex_memcpy(gsl_matrix_complex* d, const gsl_matrix_complex* s){
  if(d->size1!=s->size1 || d->size2!=s->size2) __verif_gsl_error(3);
  for(size_t i=0;i<s->size1;i++) for(size_t j=0;j<s->size2;j++){
    d->data[2*(i*d->tda+j)]=s->data[2*(i*s->tda+j)]; d->data[2*(i*d->tda+j)+1]=s->data[2*(i*s->tda+j)+1]; }
  return 0; }
int gsl_matrix_complex_scale(gsl_matrix_complex* a, const gsl_complex x){
  double xr=GSL_REAL(x), xi=GSL_IMAG(x);
  for(size_t i=0;i<a->size1;i++) for(size_t j=0;j<a->size2;j++){
    double ar=a->data[2*(i*a->tda+j)], ai=a->data[2*(i*a->tda+j)+1];
    a->data[2*(i*a->tda+j)]=ar*xr-ai*xi; a->data[2*(i*a->tda+j)+1]=ar*xi+ai*xr; }
  return 0; }
void gsl_matrix_complex_set_all(gsl_matrix_complex* m, gsl_complex x){
  for(size_t i=0;i<m->size1;i++) for(size_t j=0;j<m->size2;j++){
    m->data[2*(i*m->tda+j)]=GSL_REAL(x); m->data[2*(i*m->tda+j)+1]=GSL_IMAG(x);} }
void gsl_matrix_complex_set_zero(gsl_matrix_complex* m){
  for(size_t i=0;i<m->size1;i++) for(size_t j=0;j<m->size2;j++){
    m->data[2*(i*m->tda+j)]=0.0; m->data[2*(i*m->tda+j)+1]=0.0;} }
void gsl_matrix_complex_set_identity(gsl_matrix_complex* m){
  for(size_t i=0;i<m->size1;i++) for(size_t j=0;j<m->size2;j++){
    m->data[2*(i*m->tda+j)]=(i==j)?1.0:0.0; m->data[2*(i*m->tda+j)+1]=0.0;} }
_gsl_vector_complex_view gsl_matrix_complex_column(gsl_matrix_complex* m, const size_t j){
  _gsl_vector_complex_view v; if(j>=m->size2) __verif_gsl_error(4);
  v.vector.data=m->data+2*j; v.vector.size=m->size1; v.vector.stride=m->tda; v.vector.block=m->block; v.vector.owner=0; return v; }
_gsl_vector_complex_const_view gsl_matrix_complex_const_column(const gsl_matrix_complex* m, const size_t j){
  _gsl_vector_complex_const_view v; if(j>=m->size2) __verif_gsl_error(5);
  v.vector.data=m->data+2*j; v.vector.size=m->size1; v.vector.stride=m->tda; v.vector.block=m->block; v.vector.owner=0; return v; }
_gsl_vector_complex_const_view gsl_matrix_complex_const_row(const gsl_matrix_complex* m, const size_t i){
  _gsl_vector_complex_const_view v; if(i>=m->size1) __verif_gsl_error(6);
  v.vector.data=m->data+2*i*m->tda; v.vector.size=m->size2; v.vector.stride=1; v.vector.block=m->block; v.vector.owner=0; return v; }

/* ---------------------------------------------------------------- real matrices */
gsl_matrix* gsl_matrix_alloc(const size_t n1, const size_t n2){
  gsl_matrix* m=(gsl_matrix*)malloc(sizeof(gsl_matrix));
  gsl_block* b=(gsl_block*)malloc(sizeof(gsl_block));
  b->size=n1*n2; b->data=(double*)malloc(n1*n2*sizeof(double));
  m->size1=n1; m->size2=n2; m->tda=n2; m->data=b->data; m->block=b; m->owner=1; return m; }
void gsl_matrix_free(gsl_matrix* m){ if(!m) return; if(m->owner){ free(m->block->data); free(m->block);} free(m); }
double gsl_matrix_get(const gsl_matrix* m, const size_t i, const size_t j){
  if(i>=m->size1 || j>=m->size2) __verif_gsl_error(7); return m->data[i*m->tda+j]; }
void gsl_matrix_set(gsl_matrix* m, const size_t i, const size_t j, const double x){
  if(i>=m->size1 || j>=m->size2) __verif_gsl_error(8); m->data[i*m->tda+j]=x; }
_gsl_vector_view gsl_matrix_column(gsl_matrix* m, const size_t j){
  _gsl_vector_view v; if(j>=m->size2) __verif_gsl_error(9);
  v.vector.data=m->data+j; v.vector.size=m->size1; v.vector.stride=m->tda; v.vector.block=m->block; v.vector.owner=0; return v; }
_gsl_vector_const_view gsl_matrix_const_column(const gsl_matrix* m, const size_t j){
  _gsl_vector_const_view v; if(j>=m->size2) __verif_gsl_error(10);
  v.vector.data=m->data+j; v.vector.size=m->size1; v.vector.stride=m->tda; v.vector.block=m->block; v.vector.owner=0; return v; }

/* ---------------------------------------------------------------- vectors */
gsl_vector* gsl_vector_alloc(const size_t n){
  gsl_vector* v=(gsl_vector*)malloc(sizeof(gsl_vector)); gsl_block* b=(gsl_block*)malloc(sizeof(gsl_block));
  b->size=n; b->data=(double*)malloc(n*sizeof(double)); v->size=n; v->stride=1; v->data=b->data; v->block=b; v->owner=1; return v; }
void gsl_vector_free(gsl_vector* v){ if(!v) return; if(v->owner){ free(v->block->data); free(v->block);} free(v); }
double gsl_vector_get(const gsl_vector* v, const size_t i){ if(i>=v->size) __verif_gsl_error(11); return v->data[i*v->stride]; }
void gsl_vector_set(gsl_vector* v, const size_t i, double x){ if(i>=v->size) __verif_gsl_error(12); v->data[i*v->stride]=x; }
void gsl_vector_set_all(gsl_vector* v, double x){ for(size_t i=0;i<v->size;i++) v->data[i*v->stride]=x; }
void gsl_vector_set_zero(gsl_vector* v){ for(size_t i=0;i<v->size;i++) v->data[i*v->stride]=0.0; }
size_t gsl_vector_max_index(const gsl_vector* v){ size_t k=0; double mx=v->data[0];
  for(size_t i=0;i<v->size;i++){ double x=v->data[i*v->stride]; if(x>mx){ mx=x; k=i; } } return k; }
gsl_vector_complex* gsl_vector_complex_alloc(const size_t n){
  gsl_vector_complex* v=(gsl_vector_complex*)malloc(sizeof(gsl_vector_complex)); gsl_block_complex* b=(gsl_block_complex*)malloc(sizeof(gsl_block_complex));
  b->size=n; b->data=(double*)malloc(2*n*sizeof(double)); v->size=n; v->stride=1; v->data=b->data; v->block=b; v->owner=1; return v; }
void gsl_vector_complex_free(gsl_vector_complex* v){ if(!v) return; if(v->owner){ free(v->block->data); free(v->block);} free(v); }
gsl_complex gsl_vector_complex_get(const gsl_vector_complex* v, const size_t i){ if(i>=v->size) __verif_gsl_error(13);
  gsl_complex z; GSL_SET_COMPLEX(&z, v->data[2*i*v->stride], v->data[2*i*v->stride+1]); return z; }
void gsl_vector_complex_set(gsl_vector_complex* v, const size_t i, gsl_complex z){ if(i>=v->size) __verif_gsl_error(14);
  v->data[2*i*v->stride]=GSL_REAL(z); v->data[2*i*v->stride+1]=GSL_IMAG(z); }
void gsl_vector_complex_set_zero(gsl_vector_complex* v){ for(size_t i=0;i<v->size;i++){ v->data[2*i*v->stride]=0.0; v->data[2*i*v->stride+1]=0.0; } }
int gsl_vector_complex_memcpy(gsl_vector_complex* d, const gsl_vector_complex* s){ if(d->size!=s->size) __verif_gsl_error(15);
  for(size_t i=0;i<s->size;i++){ d->data[2*i*d->stride]=s->data[2*i*s->stride]; d->data[2*i*d->stride+1]=s->data[2*i*s->stride+1]; } return 0; }
gsl_permutation* gsl_permutation_alloc(const size_t n){ gsl_permutation* p=(gsl_permutation*)malloc(sizeof(gsl_permutation));
  p->size=n; p->data=(size_t*)malloc(n*sizeof(size_t)); return p; }
void gsl_permutation_free(gsl_permutation* p){ if(!p) return; free(p->data); free(p); }

/* ---------------------------------------------------------------- BLAS */
static void elem(const gsl_matrix_complex* M, CBLAS_TRANSPOSE_t t, size_t i, size_t j, double* re, double* im){
  /* element (i,j) of op(M) */
  if(t==CblasNoTrans){ *re=M->data[2*(i*M->tda+j)]; *im=M->data[2*(i*M->tda+j)+1]; }
  else if(t==CblasTrans){ *re=M->data[2*(j*M->tda+i)]; *im=M->data[2*(j*M->tda+i)+1]; }
  else { *re=M->data[2*(j*M->tda+i)]; *im=-M->data[2*(j*M->tda+i)+1]; } }
int gsl_blas_zgemm(CBLAS_TRANSPOSE_t TA, CBLAS_TRANSPOSE_t TB, const gsl_complex alpha, const gsl_matrix_complex* A,
                   const gsl_matrix_complex* B, const gsl_complex beta, gsl_matrix_complex* C){
  size_t M=C->size1, N=C->size2;
  size_t MA=(TA==CblasNoTrans)?A->size1:A->size2, NA=(TA==CblasNoTrans)?A->size2:A->size1;
  size_t MB=(TB==CblasNoTrans)?B->size1:B->size2, NB=(TB==CblasNoTrans)?B->size2:B->size1;
  if(!(M==MA && N==NB && NA==MB)) __verif_gsl_error(16);
  if(C==A || C==B) __verif_gsl_error(17); /* aliasing the output is not allowed by BLAS */
  double ar=GSL_REAL(alpha), ai=GSL_IMAG(alpha), br=GSL_REAL(beta), bi=GSL_IMAG(beta);
  for(size_t i=0;i<M;i++) for(size_t j=0;j<N;j++){
    double sr=0.0, si=0.0;
    for(size_t k=0;k<NA;k++){ double xr,xi,yr,yi; elem(A,TA,i,k,&xr,&xi); elem(B,TB,k,j,&yr,&yi);
      sr+=xr*yr-xi*yi; si+=xr*yi+xi*yr; }
    double cr=0.0, ci=0.0;
    if(!(br==0.0 && bi==0.0)){ double c0=C->data[2*(i*C->tda+j)], c1=C->data[2*(i*C->tda+j)+1]; cr=c0*br-c1*bi; ci=c0*bi+c1*br; }
    C->data[2*(i*C->tda+j)]=cr+(ar*sr-ai*si); C->data[2*(i*C->tda+j)+1]=ci+(ar*si+ai*sr); }
  return 0; }
int gsl_blas_zdotc(const gsl_vector_complex* X, const gsl_vector_complex* Y, gsl_complex* dotc){
  if(X->size!=Y->size) __verif_gsl_error(18);
  double sr=0.0, si=0.0;
  for(size_t i=0;i<X->size;i++){ double xr=X->data[2*i*X->stride], xi=-X->data[2*i*X->stride+1];
    double yr=Y->data[2*i*Y->stride], yi=Y->data[2*i*Y->stride+1]; sr+=xr*yr-xi*yi; si+=xr*yi+xi*yr; }
  GSL_SET_COMPLEX(dotc,sr,si); return 0; }
int gsl_blas_ddot(const gsl_vector* X, const gsl_vector* Y, double* r){
  if(X->size!=Y->size) __verif_gsl_error(19);
  double s=0.0; for(size_t i=0;i<X->size;i++) s+=X->data[i*X->stride]*Y->data[i*Y->stride]; *r=s; return 0; }

/* ---------------------------------------------------------------- special functions (always concrete here) */
double gsl_sf_fact(const unsigned int n){ double r=1.0; for(unsigned int i=2;i<=n;i++) r*=(double)i; return r; }
double gsl_sf_choose(unsigned int n, unsigned int m){ if(m>n) __verif_gsl_error(20);
  double r=1.0; if(m*2>n) m=n-m; for(unsigned int k=1;k<=m;k++){ r=r*(double)(n-m+k)/(double)k; } return r; }

/* ---------------------------------------------------------------- LU (complex, partial pivoting): documented semantics of
   gsl_linalg_complex_LU_decomp / _LU_solve; used only where the executor runs matrix_exponential concretely */
#include <gsl/gsl_linalg.h>
static double cabs2_(double r, double i){ return r*r+i*i; }
int gsl_linalg_complex_LU_decomp(gsl_matrix_complex* A, gsl_permutation* p, int* signum){
  size_t n=A->size1; if(A->size2!=n || p->size!=n) __verif_gsl_error(30);
  *signum=1; for(size_t i=0;i<n;i++) p->data[i]=i;
  for(size_t j=0;j+1<n || j<n;j++){
    if(j>=n) break;
    size_t piv=j; double best=cabs2_(A->data[2*(j*A->tda+j)],A->data[2*(j*A->tda+j)+1]);
    for(size_t i=j+1;i<n;i++){ double a=cabs2_(A->data[2*(i*A->tda+j)],A->data[2*(i*A->tda+j)+1]); if(a>best){ best=a; piv=i; } }
    if(piv!=j){ for(size_t k=0;k<n;k++){ double tr=A->data[2*(j*A->tda+k)], ti=A->data[2*(j*A->tda+k)+1];
        A->data[2*(j*A->tda+k)]=A->data[2*(piv*A->tda+k)]; A->data[2*(j*A->tda+k)+1]=A->data[2*(piv*A->tda+k)+1];
        A->data[2*(piv*A->tda+k)]=tr; A->data[2*(piv*A->tda+k)+1]=ti; }
      size_t t=p->data[j]; p->data[j]=p->data[piv]; p->data[piv]=t; *signum=-*signum; }
    double pr=A->data[2*(j*A->tda+j)], pi=A->data[2*(j*A->tda+j)+1]; double pd=pr*pr+pi*pi;
    if(pd!=0.0){ for(size_t i=j+1;i<n;i++){ double ar=A->data[2*(i*A->tda+j)], ai=A->data[2*(i*A->tda+j)+1];
        double lr=(ar*pr+ai*pi)/pd, li=(ai*pr-ar*pi)/pd; A->data[2*(i*A->tda+j)]=lr; A->data[2*(i*A->tda+j)+1]=li;
        for(size_t k=j+1;k<n;k++){ double ur=A->data[2*(j*A->tda+k)], ui=A->data[2*(j*A->tda+k)+1];
          A->data[2*(i*A->tda+k)]-=lr*ur-li*ui; A->data[2*(i*A->tda+k)+1]-=lr*ui+li*ur; } } }
  }
  return 0; }
int gsl_linalg_complex_LU_solve(const gsl_matrix_complex* LU, const gsl_permutation* p, const gsl_vector_complex* b, gsl_vector_complex* x){
  size_t n=LU->size1; if(b->size!=n || x->size!=n) __verif_gsl_error(31);
  for(size_t i=0;i<n;i++){ size_t s=p->data[i]; x->data[2*i*x->stride]=b->data[2*s*b->stride]; x->data[2*i*x->stride+1]=b->data[2*s*b->stride+1]; }
  for(size_t i=0;i<n;i++) for(size_t k=0;k<i;k++){ double lr=LU->data[2*(i*LU->tda+k)], li=LU->data[2*(i*LU->tda+k)+1];
      double xr=x->data[2*k*x->stride], xi=x->data[2*k*x->stride+1]; x->data[2*i*x->stride]-=lr*xr-li*xi; x->data[2*i*x->stride+1]-=lr*xi+li*xr; }
  for(size_t ii=n;ii>0;ii--){ size_t i=ii-1;
    for(size_t k=i+1;k<n;k++){ double ur=LU->data[2*(i*LU->tda+k)], ui=LU->data[2*(i*LU->tda+k)+1];
      double xr=x->data[2*k*x->stride], xi=x->data[2*k*x->stride+1]; x->data[2*i*x->stride]-=ur*xr-ui*xi; x->data[2*i*x->stride+1]-=ur*xi+ui*xr; }
    double dr=LU->data[2*(i*LU->tda+i)], di=LU->data[2*(i*LU->tda+i)+1], dd=dr*dr+di*di;
    double xr=x->data[2*i*x->stride], xi=x->data[2*i*x->stride+1];
    x->data[2*i*x->stride]=(xr*dr+xi*di)/dd; x->data[2*i*x->stride+1]=(xi*dr-xr*di)/dd; }
  return 0; }
