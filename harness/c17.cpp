// C17 harness: node grids and index lookup
#include <SQuIDS/SQuIDS.h>
#include <vector>
#include <string>
using namespace squids;
// scale: 0 "linear", 1 "log", 2 "Lin", 3 "Log"
extern "C" int h_grid(unsigned nx, double a, double b, unsigned scale, double* xs){
  try{
    SQuIDS s(nx,2,1,0,0.0);
    const char* names[4]={"linear","log","Lin","Log"};
    s.Set_xrange(a,b,std::string(names[scale&3]));
    const std::vector<double>& g=s.Get_xrange();
    if(g.size()!=nx) return 2;
    for(unsigned i=0;i<nx;i++) xs[i]=s.Get_x(i);
    return 0;
  }catch(...){ return 1; }
}
// user grid: returns 0 accepted, 1 rejected (exception).  On acceptance the stored grid is copied out; on rejection the
// previously installed grid (prev) must be unchanged.
extern "C" int h_usergrid(unsigned nx, unsigned len, double* prev, double* in, double* out){
  SQuIDS s(nx,2,1,0,0.0);
  try{
    s.Set_xrange(std::vector<double>(prev,prev+nx));
  }catch(...){ return 3; }
  int rc=0;
  try{
    s.Set_xrange(std::vector<double>(in,in+len));
  }catch(...){ rc=1; }
  for(unsigned i=0;i<nx;i++) out[i]=s.Get_x(i);
  return rc;
}
// lookup on an installed grid
extern "C" int h_geti(unsigned nx, double* grid, double x, unsigned* idx){
  try{
    SQuIDS s(nx,2,1,0,0.0);
    s.Set_xrange(std::vector<double>(grid,grid+nx));
    *idx = s.Get_i(x);
    return 0;
  }catch(...){ return 1; }
}

// a lookup, then the grid is replaced (vector overload, or the (a,b,scale) overload when regrid=1: first and last node of grid2 as a,b), then a second lookup
extern "C" int h_geti_seq(unsigned nx, double* grid1, double x1, double* grid2, double x2, unsigned regrid, unsigned* idx){
  try{
    SQuIDS s(nx,2,1,0,0.0);
    s.Set_xrange(std::vector<double>(grid1,grid1+nx));
    try{ (void)s.Get_i(x1); }catch(...){}
    if(regrid==0) s.Set_xrange(std::vector<double>(grid2,grid2+nx));
    else s.Set_xrange(grid2[0],grid2[nx-1],"lin");
    for(unsigned k=0;k<nx;k++) grid2[k]=s.Get_x(k);
    *idx = s.Get_i(x2);
    return 0;
  }catch(...){ return 1; }
}
