// C11 harness: averaging PrepareEvolve overloads and the low-pass / ramp filters
#include <SQuIDS/SUNalg.h>
#include <vector>
using namespace squids;
extern "C" int h_prepare(unsigned d, double* hh, double t, double* buf){
  try{ SU_vector H(d,hh); H.PrepareEvolve(buf,t); return 0; }catch(...){ return 1; }
}
// init: previous content of the caller's flag vector (0 all false, 1 all true): the call must set every flag either way
extern "C" int h_prep_avg(unsigned d, double* hh, double t, double scale, double* buf, unsigned* flags, unsigned init){
  try{
    SU_vector H(d,hh);
    unsigned np=d*(d-1)/2;
    std::vector<bool> avr(np, init!=0);
    H.PrepareEvolve(buf,t,scale,avr);
    for(unsigned i=0;i<np;i++) flags[i]=avr[i]?1u:0u;
    return 0;
  }catch(...){ return 1; }
}
extern "C" int h_prep_range(unsigned d, double* hh, double t0, double t1, double* buf){
  try{ SU_vector H(d,hh); H.PrepareEvolve(buf,t0,t1); return 0; }catch(...){ return 1; }
}
extern "C" int h_lowpass(unsigned d, double* hh, double* buf, double cutoff, double ramp){
  try{ SU_vector H(d,hh); H.LowPassFilter(buf,cutoff,ramp); return 0; }catch(...){ return 1; }
}
extern "C" int h_avgramp(unsigned d, double* hh, double* buf, double t, double cutoff, double ramp){
  try{ SU_vector H(d,hh); H.AvgRampFilter(buf,t,cutoff,ramp); return 0; }catch(...){ return 1; }
}
extern "C" int h_s2m(unsigned d, double* a, double* re, double* im){
  try{
    SU_vector A(d,a);
    auto m = A.GetGSLMatrix();
    for(unsigned i=0;i<d;i++) for(unsigned j=0;j<d;j++){
      gsl_complex z = gsl_matrix_complex_get(m.get(),i,j);
      re[i*d+j]=GSL_REAL(z); im[i*d+j]=GSL_IMAG(z);
    }
    return 0;
  }catch(...){ return 1; }
}
