// C14 (views): the matrix constructor on a rows x cols BLOCK of a larger matrix (row stride tda != cols): only supported squares are accepted
#include <SQuIDS/SUNalg.h>
using namespace squids;
extern "C" int h_view_ctor(unsigned rows, unsigned cols, unsigned prows, unsigned pcols, double* vals, double* o){
  gsl_matrix_complex* big=gsl_matrix_complex_alloc(prows,pcols);
  int rc=0;
  try{
    for(unsigned i=0;i<prows;i++) for(unsigned j=0;j<pcols;j++) gsl_matrix_complex_set(big,i,j,gsl_complex_rect(vals[2*(i*pcols+j)],vals[2*(i*pcols+j)+1]));
    gsl_matrix_complex v=*big; v.size1=rows; v.size2=cols; v.owner=0;      // the top-left rows x cols block, tda = pcols
    SU_vector V(&v);
    o[0]=V.Dim();
  }catch(std::exception&){ rc=1; }catch(...){ rc=3; }
  gsl_matrix_complex_free(big);
  return rc;
}
