// C03 harness: time evolution by a diagonal operator (direct and two-step forms)
#include <SQuIDS/SUNalg.h>
using namespace squids;
extern "C" int h_evolve(unsigned d, double* a, double* hh, double t, double* o){
  try{
    SU_vector A(d,a), H(d,hh), O(d,o);
    O = A.Evolve(H,t);
    return 0;
  }catch(...){ return 1; }
}
extern "C" int h_prepare(unsigned d, double* hh, double t, double* buf){
  try{
    SU_vector H(d,hh);
    if(H.GetEvolveBufferSize()!=d*(d-1)) return 2;
    H.PrepareEvolve(buf,t);
    return 0;
  }catch(...){ return 1; }
}
extern "C" int h_fast(unsigned d, double* a, double* buf, double* o){
  try{
    SU_vector A(d,a), O(d,o);
    O = A.Evolve(buf);
    return 0;
  }catch(...){ return 1; }
}
// the result assigned onto the very vector being evolved (mode 0: A = A.Evolve(buf), 1: A = A.Evolve(H,t))
extern "C" int h_inplace(unsigned mode, unsigned d, double* a, double* hh, double t, double* buf){
  try{
    SU_vector A(d,a), H(d,hh);
    if(mode==0) A = A.Evolve(buf);
    else A = A.Evolve(H,t);
    return 0;
  }catch(...){ return 1; }
}
// compound forms and forms carrying a (valid) guarantee: 2: B += A.Evolve(H,t)  3: B -= A.Evolve(H,t)  4: B += A.Evolve(buf)  5: B -= A.Evolve(buf)
// 6: A = guarantee<EqualSizes>(A.Evolve(H,t))  7: A = guarantee<EqualSizes>(A.Evolve(buf))   (the sizes are equal; nothing is promised about aliasing)
extern "C" int h_inplace2(unsigned mode, unsigned d, double* a, double* b, double* hh, double t, double* buf){
  try{
    SU_vector A(d,a), B(d,b), H(d,hh);
    switch(mode){
      case 2: B += A.Evolve(H,t); break;
      case 3: B -= A.Evolve(H,t); break;
      case 4: B += A.Evolve(buf); break;
      case 5: B -= A.Evolve(buf); break;
      case 6: A = detail::guarantee<detail::EqualSizes>(A.Evolve(H,t)); break;
      case 7: A = detail::guarantee<detail::EqualSizes>(A.Evolve(buf)); break;
      default: return 2;
    }
    return 0;
  }catch(...){ return 1; }
}
extern "C" int h_trace(unsigned d, double* a, double* b, double* o){
  try{
    SU_vector A(d,a), B(d,b);
    o[0] = A*B;
    return 0;
  }catch(...){ return 1; }
}
extern "C" int h_s2m(unsigned d, double* a, double* re, double* im){
  try{
    SU_vector A(d,a);
    auto m = A.GetGSLMatrix();
    for(unsigned i=0;i<d;i++) for(unsigned j=0;j<d;j++){
      gsl_complex z = gsl_matrix_complex_get(m.get(),i,j);
      re[i*d+j]=GSL_REAL(z); im[i*d+j]=GSL_IMAG(z);
    }
    return 0;
  }catch(...){ return 1; }
}
